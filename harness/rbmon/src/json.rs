//! Minimal JSON value, parser and writer (no external crates: the sandbox is offline).
use std::collections::BTreeMap;
use std::fmt::Write;

#[derive(Clone, Debug, PartialEq)]
pub enum J {
    Null,
    Bool(bool),
    Num(f64),
    Int(i64),
    Str(String),
    Arr(Vec<J>),
    Obj(BTreeMap<String, J>),
}

impl J {
    pub fn obj() -> J {
        J::Obj(BTreeMap::new())
    }
    pub fn set(&mut self, k: &str, v: J) {
        if let J::Obj(m) = self {
            m.insert(k.to_string(), v);
        }
    }
    pub fn get(&self, k: &str) -> Option<&J> {
        match self {
            J::Obj(m) => m.get(k),
            _ => None,
        }
    }
    pub fn as_str(&self) -> Option<&str> {
        match self {
            J::Str(s) => Some(s),
            _ => None,
        }
    }
    pub fn as_i64(&self) -> Option<i64> {
        match self {
            J::Int(i) => Some(*i),
            J::Num(f) => Some(*f as i64),
            _ => None,
        }
    }
    pub fn as_bool(&self) -> Option<bool> {
        match self {
            J::Bool(b) => Some(*b),
            _ => None,
        }
    }
    pub fn as_arr(&self) -> Option<&Vec<J>> {
        match self {
            J::Arr(a) => Some(a),
            _ => None,
        }
    }
    pub fn s(v: impl Into<String>) -> J {
        J::Str(v.into())
    }
    pub fn write(&self, out: &mut String) {
        match self {
            J::Null => out.push_str("null"),
            J::Bool(b) => out.push_str(if *b { "true" } else { "false" }),
            J::Int(i) => {
                let _ = write!(out, "{}", i);
            }
            J::Num(f) => {
                if f.is_finite() {
                    let _ = write!(out, "{:?}", f);
                } else {
                    out.push_str("null");
                }
            }
            J::Str(s) => write_str(s, out),
            J::Arr(a) => {
                out.push('[');
                for (i, x) in a.iter().enumerate() {
                    if i > 0 {
                        out.push(',');
                    }
                    x.write(out);
                }
                out.push(']');
            }
            J::Obj(m) => {
                out.push('{');
                for (i, (k, v)) in m.iter().enumerate() {
                    if i > 0 {
                        out.push(',');
                    }
                    write_str(k, out);
                    out.push(':');
                    v.write(out);
                }
                out.push('}');
            }
        }
    }
    pub fn to_string(&self) -> String {
        let mut s = String::new();
        self.write(&mut s);
        s
    }
}

fn write_str(s: &str, out: &mut String) {
    out.push('"');
    for c in s.chars() {
        match c {
            '"' => out.push_str("\\\""),
            '\\' => out.push_str("\\\\"),
            '\n' => out.push_str("\\n"),
            '\r' => out.push_str("\\r"),
            '\t' => out.push_str("\\t"),
            c if (c as u32) < 0x20 || (c as u32) == 0x7f => {
                let _ = write!(out, "\\u{:04x}", c as u32);
            }
            c if (c as u32) > 0xffff => {
                let v = c as u32 - 0x10000;
                let _ = write!(out, "\\u{:04x}\\u{:04x}", 0xd800 + (v >> 10), 0xdc00 + (v & 0x3ff));
            }
            c if (c as u32) > 0x7e => {
                let _ = write!(out, "\\u{:04x}", c as u32);
            }
            c => out.push(c),
        }
    }
    out.push('"');
}

/// Bytes rendered as a string of chars U+0000..U+00FF.
pub fn latin1(bytes: &[u8]) -> J {
    J::Str(bytes.iter().map(|b| *b as char).collect())
}

pub fn from_latin1(s: &str) -> Vec<u8> {
    s.chars().map(|c| (c as u32 & 0xff) as u8).collect()
}

pub struct Parser<'a> {
    b: &'a [u8],
    i: usize,
}

impl<'a> Parser<'a> {
    pub fn new(s: &'a str) -> Self {
        Self { b: s.as_bytes(), i: 0 }
    }
    fn ws(&mut self) {
        while self.i < self.b.len() && (self.b[self.i] as char).is_ascii_whitespace() {
            self.i += 1;
        }
    }
    pub fn parse(&mut self) -> Result<J, String> {
        self.ws();
        if self.i >= self.b.len() {
            return Err("eof".into());
        }
        match self.b[self.i] {
            b'{' => {
                self.i += 1;
                let mut m = BTreeMap::new();
                self.ws();
                if self.b.get(self.i) == Some(&b'}') {
                    self.i += 1;
                    return Ok(J::Obj(m));
                }
                loop {
                    self.ws();
                    let k = match self.parse()? {
                        J::Str(s) => s,
                        _ => return Err("key".into()),
                    };
                    self.ws();
                    if self.b.get(self.i) != Some(&b':') {
                        return Err("colon".into());
                    }
                    self.i += 1;
                    let v = self.parse()?;
                    m.insert(k, v);
                    self.ws();
                    match self.b.get(self.i) {
                        Some(b',') => self.i += 1,
                        Some(b'}') => {
                            self.i += 1;
                            return Ok(J::Obj(m));
                        }
                        _ => return Err("obj".into()),
                    }
                }
            }
            b'[' => {
                self.i += 1;
                let mut a = vec![];
                self.ws();
                if self.b.get(self.i) == Some(&b']') {
                    self.i += 1;
                    return Ok(J::Arr(a));
                }
                loop {
                    a.push(self.parse()?);
                    self.ws();
                    match self.b.get(self.i) {
                        Some(b',') => self.i += 1,
                        Some(b']') => {
                            self.i += 1;
                            return Ok(J::Arr(a));
                        }
                        _ => return Err("arr".into()),
                    }
                }
            }
            b'"' => {
                self.i += 1;
                let mut s = String::new();
                loop {
                    if self.i >= self.b.len() {
                        return Err("str eof".into());
                    }
                    let c = self.b[self.i];
                    match c {
                        b'"' => {
                            self.i += 1;
                            return Ok(J::Str(s));
                        }
                        b'\\' => {
                            self.i += 1;
                            let e = *self.b.get(self.i).ok_or("esc")?;
                            self.i += 1;
                            match e {
                                b'n' => s.push('\n'),
                                b'r' => s.push('\r'),
                                b't' => s.push('\t'),
                                b'b' => s.push('\u{8}'),
                                b'f' => s.push('\u{c}'),
                                b'/' => s.push('/'),
                                b'\\' => s.push('\\'),
                                b'"' => s.push('"'),
                                b'u' => {
                                    let mut cp = self.hex4()?;
                                    if (0xd800..0xdc00).contains(&cp)
                                        && self.b.get(self.i) == Some(&b'\\')
                                        && self.b.get(self.i + 1) == Some(&b'u')
                                    {
                                        self.i += 2;
                                        let lo = self.hex4()?;
                                        cp = 0x10000 + ((cp - 0xd800) << 10) + (lo - 0xdc00);
                                    }
                                    s.push(char::from_u32(cp).unwrap_or('\u{fffd}'));
                                }
                                _ => return Err("bad esc".into()),
                            }
                        }
                        _ => {
                            // copy a UTF-8 sequence
                            let start = self.i;
                            let len = if c < 0x80 {
                                1
                            } else if c < 0xe0 {
                                2
                            } else if c < 0xf0 {
                                3
                            } else {
                                4
                            };
                            self.i += len;
                            s.push_str(std::str::from_utf8(&self.b[start..self.i]).map_err(|_| "utf8")?);
                        }
                    }
                }
            }
            b't' => {
                self.i += 4;
                Ok(J::Bool(true))
            }
            b'f' => {
                self.i += 5;
                Ok(J::Bool(false))
            }
            b'n' => {
                self.i += 4;
                Ok(J::Null)
            }
            _ => {
                let start = self.i;
                let mut is_float = false;
                while self.i < self.b.len() {
                    let c = self.b[self.i];
                    if c == b'.' || c == b'e' || c == b'E' {
                        is_float = true;
                    } else if !(c.is_ascii_digit() || c == b'-' || c == b'+') {
                        break;
                    }
                    self.i += 1;
                }
                let t = std::str::from_utf8(&self.b[start..self.i]).unwrap();
                if is_float {
                    t.parse::<f64>().map(J::Num).map_err(|e| e.to_string())
                } else {
                    t.parse::<i64>().map(J::Int).map_err(|e| e.to_string())
                }
            }
        }
    }
    fn hex4(&mut self) -> Result<u32, String> {
        let t = std::str::from_utf8(self.b.get(self.i..self.i + 4).ok_or("hex")?).map_err(|_| "hex")?;
        self.i += 4;
        u32::from_str_radix(t, 16).map_err(|e| e.to_string())
    }
}
