//! rbmon: worker that runs the real rusty-basic pipeline (built from /repo with feature `verif`)
//! on one case per request line and reports what the monitors observed, as one JSON line.
mod json;
mod mon;

use std::cell::RefCell;
use std::collections::{HashMap, HashSet};
use std::io::{BufRead, Write};
use std::panic::{AssertUnwindSafe, catch_unwind};
use std::rc::Rc;
use std::sync::Mutex;

use json::{J, Parser, from_latin1, latin1};
use mon::{Mon, MonState};
use rusty_basic::instruction_generator::{generate_instructions, unwrap_linter_context};
use rusty_basic::interpreter::verif::{Options, SharedBuf, run};
use rusty_linter::core::lint;
use rusty_parser::{
    Expression, ExpressionPos, GlobalStatement, Operator, PrintArg, Program, Statement,
    UnaryOperator, parse_main_str,
};

static LAST_PANIC: Mutex<Option<(String, String, u32)>> = Mutex::new(None);

fn install_panic_hook() {
    std::panic::set_hook(Box::new(|info| {
        let msg = if let Some(s) = info.payload().downcast_ref::<&str>() {
            s.to_string()
        } else if let Some(s) = info.payload().downcast_ref::<String>() {
            s.clone()
        } else {
            "<non-string panic payload>".to_string()
        };
        let (file, line) = match info.location() {
            Some(l) => (l.file().to_string(), l.line()),
            None => ("?".to_string(), 0),
        };
        *LAST_PANIC.lock().unwrap() = Some((msg, file, line));
    }));
}

fn take_panic(phase: &str) -> J {
    let p = LAST_PANIC.lock().unwrap().take();
    let mut o = J::obj();
    o.set("phase", J::s(phase));
    match p {
        Some((msg, file, line)) => {
            o.set("msg", J::s(msg));
            o.set("file", J::s(file));
            o.set("line", J::Int(line as i64));
        }
        None => {
            o.set("msg", J::s("<unknown>"));
        }
    }
    o
}

fn variant_name(debug: &str) -> String {
    debug
        .split(|c: char| !(c.is_alphanumeric() || c == '_'))
        .next()
        .unwrap_or("")
        .to_string()
}

/// Erases every `Position { row: N, col: M }` of a `{:?}` rendering.
fn erase_positions(s: &str) -> String {
    let mut out = String::with_capacity(s.len());
    let pat = "Position { row: ";
    let mut rest = s;
    while let Some(i) = rest.find(pat) {
        out.push_str(&rest[..i]);
        match rest[i..].find('}') {
            Some(j) => {
                out.push('@');
                rest = &rest[i + j + 1..];
            }
            None => {
                rest = &rest[i..];
                break;
            }
        }
    }
    out.push_str(rest);
    out
}

fn op_str(op: &Operator) -> &'static str {
    match op {
        Operator::Less => "<",
        Operator::LessOrEqual => "<=",
        Operator::Equal => "=",
        Operator::GreaterOrEqual => ">=",
        Operator::Greater => ">",
        Operator::NotEqual => "<>",
        Operator::Plus => "+",
        Operator::Minus => "-",
        Operator::Multiply => "*",
        Operator::Divide => "/",
        Operator::Modulo => "MOD",
        Operator::And => "AND",
        Operator::Or => "OR",
    }
}

/// Renders an expression with its grouping made explicit.
fn render_expr(e: &Expression, out: &mut String) {
    match e {
        Expression::SingleLiteral(f) => out.push_str(&format!("S:{:?}", *f as f64)),
        Expression::DoubleLiteral(f) => out.push_str(&format!("D:{:?}", f)),
        Expression::StringLiteral(s) => out.push_str(&format!("T:{:?}", s)),
        Expression::IntegerLiteral(i) => out.push_str(&format!("I:{}", i)),
        Expression::LongLiteral(i) => out.push_str(&format!("L:{}", i)),
        Expression::Variable(n, _) => out.push_str(&n.to_string()),
        Expression::FunctionCall(n, args) | Expression::ArrayElement(n, args, _) => {
            out.push_str(&n.to_string());
            out.push('{');
            for (i, a) in args.iter().enumerate() {
                if i > 0 {
                    out.push(',');
                }
                render_expr(&a.element, out);
            }
            out.push('}');
        }
        Expression::BuiltInFunctionCall(f, args) => {
            out.push_str(&format!("{:?}", f));
            out.push('{');
            for (i, a) in args.iter().enumerate() {
                if i > 0 {
                    out.push(',');
                }
                render_expr(&a.element, out);
            }
            out.push('}');
        }
        Expression::BinaryExpression(op, l, r, _) => {
            out.push('(');
            render_expr(&l.element, out);
            out.push(' ');
            out.push_str(op_str(op));
            out.push(' ');
            render_expr(&r.element, out);
            out.push(')');
        }
        Expression::UnaryExpression(op, c) => {
            out.push('(');
            out.push_str(match op {
                UnaryOperator::Minus => "NEG ",
                UnaryOperator::Not => "NOT ",
            });
            render_expr(&c.element, out);
            out.push(')');
        }
        Expression::Parenthesis(c) => {
            out.push('[');
            render_expr(&c.element, out);
            out.push(']');
        }
        Expression::Property(l, n, _) => {
            render_expr(l, out);
            out.push('.');
            out.push_str(&n.to_string());
        }
    }
}

fn render_expr_pos(e: &ExpressionPos) -> String {
    let mut s = String::new();
    render_expr(&e.element, &mut s);
    s
}

/// Renders the expressions of every top-level PRINT statement and assignment of the program.
fn render_program_exprs(p: &Program) -> J {
    let mut out = vec![];
    for gs in p.iter() {
        if let GlobalStatement::Statement(s) = &gs.element {
            match s {
                Statement::Print(pr) => {
                    for a in pr.args.iter() {
                        if let PrintArg::Expression(e) = a {
                            out.push(J::s(render_expr_pos(e)));
                        }
                    }
                }
                _ => {}
            }
        }
    }
    J::Arr(out)
}

fn err_json(debug: String, row: u32, col: u32) -> J {
    let mut o = J::obj();
    o.set("ok", J::Bool(false));
    o.set("kind", J::s(variant_name(&debug)));
    o.set("err", J::s(debug));
    o.set("row", J::Int(row as i64));
    o.set("col", J::Int(col as i64));
    o
}

fn ok_json() -> J {
    let mut o = J::obj();
    o.set("ok", J::Bool(true));
    o
}

fn scratch_dir() -> std::path::PathBuf {
    let base = std::env::var("RBMON_SCRATCH").unwrap_or_else(|_| "/verif/harness/target/scratch".to_string());
    std::path::PathBuf::from(base).join(format!("w{}", std::process::id()))
}

fn clean_dir(d: &std::path::Path) {
    if let Ok(rd) = std::fs::read_dir(d) {
        for e in rd.flatten() {
            let p = e.path();
            if p.is_dir() {
                let _ = std::fs::remove_dir_all(&p);
            } else {
                let _ = std::fs::remove_file(&p);
            }
        }
    }
}

fn has(want: &HashSet<String>, k: &str) -> bool {
    want.contains(k)
}

fn process(req: &J) -> J {
    let mut out = J::obj();
    if let Some(id) = req.get("id") {
        out.set("id", id.clone());
    }
    let src = req.get("src").and_then(|s| s.as_str()).unwrap_or("").to_string();
    let want: HashSet<String> = req
        .get("want")
        .and_then(|w| w.as_arr())
        .map(|a| a.iter().filter_map(|x| x.as_str().map(|s| s.to_string())).collect())
        .unwrap_or_default();
    let stop = req.get("stop").and_then(|s| s.as_str()).unwrap_or("run").to_string();
    let budget = req.get("budget").and_then(|b| b.as_i64()).unwrap_or(200_000) as u64;
    let pbudget = req
        .get("pbudget")
        .and_then(|b| b.as_i64())
        .map(|b| b as u64)
        .unwrap_or(u64::MAX);

    // ---- parse ----
    rusty_parser::verif_input::OPS.set(0);
    rusty_parser::verif_input::BUDGET.set(pbudget);
    let r = catch_unwind(AssertUnwindSafe(|| parse_main_str(src.clone())));
    out.set("pops", J::Int(rusty_parser::verif_input::OPS.get() as i64));
    rusty_parser::verif_input::BUDGET.set(u64::MAX);
    let program = match r {
        Err(_) => {
            out.set("panic", take_panic("parse"));
            return out;
        }
        Ok(Err(e)) => {
            out.set("parse", err_json(format!("{:?}", e.element), e.pos.row(), e.pos.col()));
            return out;
        }
        Ok(Ok(p)) => p,
    };
    out.set("parse", ok_json());
    if has(&want, "tree") {
        out.set("tree", J::s(erase_positions(&format!("{:?}", program))));
    }
    if has(&want, "exprs") {
        out.set("exprs", render_program_exprs(&program));
    }
    if stop == "parse" {
        return out;
    }

    // ---- lint ----
    let r = catch_unwind(AssertUnwindSafe(|| lint(program)));
    let (linted, context) = match r {
        Err(_) => {
            out.set("panic", take_panic("lint"));
            return out;
        }
        Ok(Err(e)) => {
            out.set("lint", err_json(format!("{:?}", e.element), e.pos.row(), e.pos.col()));
            return out;
        }
        Ok(Ok(x)) => x,
    };
    out.set("lint", ok_json());
    if has(&want, "ltree") {
        out.set("ltree", J::s(erase_positions(&format!("{:?}", linted))));
    }
    if has(&want, "lexprs") {
        out.set("lexprs", render_program_exprs(&linted));
    }
    if stop == "lint" {
        return out;
    }

    // ---- generate ----
    let r = catch_unwind(AssertUnwindSafe(|| {
        let (names, udts) = unwrap_linter_context(context);
        (generate_instructions(linted, names), udts)
    }));
    let (igr, udts) = match r {
        Err(_) => {
            out.set("panic", take_panic("gen"));
            return out;
        }
        Ok(x) => x,
    };
    let st = mon::structure_walk(&igr);
    {
        let mut g = J::obj();
        g.set("n", J::Int(igr.instructions.len() as i64));
        g.set("n_stmt", J::Int(igr.statement_addresses.len() as i64));
        g.set("n_procs", J::Int(st.n_procs as i64));
        g.set("n_labels", J::Int(st.n_labels as i64));
        g.set("n_branches", J::Int(st.n_branches as i64));
        g.set("dup_stmt_addr", J::Int(st.dup_statement_addresses as i64));
        g.set(
            "structure",
            J::Arr(st.violations.iter().map(|s| J::s(s.clone())).collect()),
        );
        if has(&want, "c15") || has(&want, "abs") {
            let ab = mon::abstract_walk(&igr, &st);
            let mut a = J::obj();
            a.set("violations", J::Arr(ab.violations.iter().map(|s| J::s(s.clone())).collect()));
            a.set("roots", J::Int(ab.roots as i64));
            a.set("reached", J::Int(ab.reached as i64));
            a.set("joins", J::Int(ab.joins as i64));
            a.set("edges", J::Int(ab.edges as i64));
            a.set("carried", J::Int(ab.carried_checked as i64));
            g.set("abs", a);
        }
        if has(&want, "listing") {
            g.set(
                "listing",
                J::Arr(
                    igr.instructions
                        .iter()
                        .map(|i| J::s(format!("{:?} @{}:{}", i.element, i.pos.row(), i.pos.col())))
                        .collect(),
                ),
            );
            g.set(
                "stmt_addr",
                J::Arr(igr.statement_addresses.iter().map(|a| J::Int(*a as i64)).collect()),
            );
        }
        out.set("gen", g);
    }
    if stop == "gen" {
        return out;
    }

    // ---- run ----
    let dir = scratch_dir();
    let uses_files = req.get("files").is_some() || has(&want, "files");
    if uses_files {
        let _ = std::fs::create_dir_all(&dir);
        clean_dir(&dir);
        let _ = std::env::set_current_dir(&dir);
        if let Some(J::Obj(m)) = req.get("files") {
            for (name, content) in m.iter() {
                if let Some(c) = content.as_str() {
                    if c == "<dir>" {
                        let _ = std::fs::create_dir_all(dir.join(name));
                    } else {
                        let _ = std::fs::write(dir.join(name), from_latin1(c));
                    }
                }
            }
        }
    }
    let state = Rc::new(RefCell::new(MonState::default()));
    {
        let mut m = state.borrow_mut();
        m.budget = budget;
        m.want_hist = has(&want, "hist");
        m.want_c15 = has(&want, "c15");
        m.want_c06 = has(&want, "c06");
        m.want_c03 = has(&want, "c03");
        m.want_vars = has(&want, "vars");
        m.want_atag = has(&want, "atag");
        m.statement_starts = igr.statement_addresses.iter().copied().collect();
        m.proc_of = st.proc_of.clone();
        m.positions = igr
            .instructions
            .iter()
            .map(|i| (i.pos.row(), i.pos.col()))
            .collect();
        m.udts = mon::udt_table(&udts);
    }
    let stdout = SharedBuf::default();
    let lpt1 = SharedBuf::default();
    let mut env: HashMap<String, String> = HashMap::new();
    if let Some(J::Obj(m)) = req.get("env") {
        for (k, v) in m.iter() {
            env.insert(k.clone(), v.as_str().unwrap_or("").to_string());
        }
    }
    let options = Options {
        stdin: from_latin1(req.get("stdin").and_then(|s| s.as_str()).unwrap_or("")),
        stdout: stdout.clone(),
        lpt1: lpt1.clone(),
        shipped_lpt1: req.get("lpt1").and_then(|s| s.as_str()) == Some("shipped"),
        env,
    };
    let monitor: Box<dyn rusty_basic::interpreter::verif::Monitor> = Box::new(Mon(state.clone()));
    let r = catch_unwind(AssertUnwindSafe(|| run(igr, udts, options, Some(monitor))));
    let mut ro = J::obj();
    ro.set("stdout", latin1(&stdout.0.borrow()));
    ro.set("lpt1", latin1(&lpt1.0.borrow()));
    match r {
        Err(_) => {
            out.set("panic", take_panic("run"));
        }
        Ok(report) => {
            ro.set("stopped", J::Bool(report.stopped));
            match report.result {
                Ok(()) => {
                    ro.set("result", ok_json());
                }
                Err(e) => {
                    let mut o = J::obj();
                    o.set("ok", J::Bool(false));
                    let dbg = format!("{:?}", e);
                    let kind = variant_name(&format!("{:?}", e.err()));
                    o.set("kind", J::s(kind));
                    // get_code may panic for unmapped variants
                    match catch_unwind(AssertUnwindSafe(|| e.err().get_code())) {
                        Ok(c) => o.set("code", J::Int(c as i64)),
                        Err(_) => {
                            let _ = LAST_PANIC.lock().unwrap().take();
                            o.set("code", J::Null)
                        }
                    }
                    // positions from the Debug rendering of the envelope
                    let mut pos = vec![];
                    let pat = "Position { row: ";
                    let mut rest = dbg.as_str();
                    while let Some(i) = rest.find(pat) {
                        let t = &rest[i + pat.len()..];
                        let row: String = t.chars().take_while(|c| c.is_ascii_digit()).collect();
                        let t2 = &t[row.len()..];
                        let t3 = t2.trim_start_matches(", col: ");
                        let col: String = t3.chars().take_while(|c| c.is_ascii_digit()).collect();
                        pos.push(J::Arr(vec![
                            J::Int(row.parse::<i64>().unwrap_or(0)),
                            J::Int(col.parse::<i64>().unwrap_or(0)),
                        ]));
                        rest = t3;
                    }
                    // an error message may itself contain text; positions come last in the envelope,
                    // so keep them all (messages of RuntimeError never contain "Position {")
                    o.set("pos", J::Arr(pos));
                    o.set("err", J::s(format!("{:?}", e.err())));
                    ro.set("result", o);
                }
            }
        }
    }
    {
        let m = state.borrow();
        ro.set("steps", J::Int(m.steps as i64));
        ro.set("budget_exhausted", J::Bool(m.budget_exhausted));
        ro.set("wall_exhausted", J::Bool(m.wall_exhausted));
        let mut mo = J::obj();
        if m.want_hist {
            let mut h = J::obj();
            for (k, v) in m.hist.iter() {
                h.set(k, J::Int(*v as i64));
            }
            mo.set("hist", h);
        }
        if m.want_c15 {
            mo.set("c15", J::Arr(m.c15.iter().map(|s| J::s(s.clone())).collect()));
            let both = m.jif_taken.values().filter(|v| **v == 3).count();
            mo.set("jif_both", J::Int(both as i64));
            mo.set("jif_seen", J::Int(m.jif_taken.len() as i64));
            mo.set("distinct_states", J::Int(m.distinct_states.len() as i64));
            mo.set("back_jumps", J::Int(m.back_jumps as i64));
            mo.set("calls", J::Int(m.calls as i64));
            mo.set("calib", J::Int(m.calib_checked as i64));
            mo.set(
                "max_depths",
                J::Arr(m.max_depths.iter().map(|d| J::Int(*d as i64)).collect()),
            );
        }
        if m.want_c06 {
            mo.set("c06", J::Arr(m.c06.iter().map(|s| J::s(s.clone())).collect()));
            mo.set("c06_slots", J::Int(m.c06_slots_checked as i64));
            mo.set("c06_walks", J::Int(m.c06_walks as i64));
        }
        if m.want_c03 {
            mo.set("c03", J::Arr(m.c03.iter().map(|s| J::s(s.clone())).collect()));
            mo.set("c03_walks", J::Int(m.c03_walks as i64));
            mo.set("max_states", J::Int(m.max_states as i64));
            mo.set("max_blocks", J::Int(m.max_blocks as i64));
        }
        if m.want_atag {
            mo.set("atags", J::Arr(m.atags.clone()));
        }
        if let Some(d) = &m.end_depths {
            mo.set(
                "end_depths",
                J::Arr(
                    [
                        d.value_stack,
                        d.register_stack,
                        d.var_path_stack,
                        d.by_ref_stack,
                        d.return_address_stack,
                        d.go_sub_address_stack,
                        d.stacktrace,
                        d.states,
                        d.memory_blocks,
                    ]
                    .iter()
                    .map(|x| J::Int(*x as i64))
                    .collect(),
                ),
            );
        }
        out.set("mon", mo);
        if let Some(v) = &m.vars {
            out.set("vars", v.clone());
        }
    }
    out.set("run", ro);
    if uses_files {
        if has(&want, "files") {
            let mut fo = J::obj();
            if let Ok(rd) = std::fs::read_dir(&dir) {
                for e in rd.flatten() {
                    let p = e.path();
                    let name = e.file_name().to_string_lossy().to_string();
                    if p.is_dir() {
                        fo.set(&name, J::s("<dir>"));
                    } else if let Ok(b) = std::fs::read(&p) {
                        // files are rendered as [latin1 text] to tell them from directories
                        fo.set(&name, J::Arr(vec![latin1(&b)]));
                    }
                }
            }
            out.set("files", fo);
        }
        clean_dir(&dir);
    }
    out
}

fn main() {
    install_panic_hook();
    let stack_mb: usize = std::env::var("RBMON_STACK_MB")
        .ok()
        .and_then(|s| s.parse().ok())
        .unwrap_or(8);
    let stdin = std::io::stdin();
    let stdout = std::io::stdout();
    for line in stdin.lock().lines() {
        let line = match line {
            Ok(l) => l,
            Err(_) => break,
        };
        if line.trim().is_empty() {
            continue;
        }
        let req = match Parser::new(&line).parse() {
            Ok(j) => j,
            Err(e) => {
                let mut o = J::obj();
                o.set("bad_request", J::s(e));
                let mut so = stdout.lock();
                let _ = writeln!(so, "{}", o.to_string());
                let _ = so.flush();
                continue;
            }
        };
        // the pipeline runs on a thread with the main-thread stack size of the real binary
        let handle = std::thread::Builder::new()
            .stack_size(stack_mb * 1024 * 1024)
            .spawn(move || {
                let r = catch_unwind(AssertUnwindSafe(|| process(&req)));
                match r {
                    Ok(j) => j.to_string(),
                    Err(_) => {
                        let mut o = J::obj();
                        if let Some(id) = req.get("id") {
                            o.set("id", id.clone());
                        }
                        o.set("panic", take_panic("harness"));
                        o.to_string()
                    }
                }
            })
            .unwrap();
        let reply = handle.join().unwrap_or_else(|_| "{\"panic\":{\"phase\":\"thread\"}}".to_string());
        let mut so = stdout.lock();
        let _ = writeln!(so, "{}", reply);
        let _ = so.flush();
    }
    let d = scratch_dir();
    let _ = std::env::set_current_dir("/");
    let _ = std::fs::remove_dir_all(d);
}
