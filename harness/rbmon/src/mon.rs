//! Monitors that observe the real interpreter through hook H1.
use std::cell::RefCell;
use std::collections::{BTreeMap, HashMap, HashSet};
use std::rc::Rc;

use rusty_basic::instruction_generator::{
    AddressOrLabel, Instruction, InstructionGeneratorResult,
};
use rusty_basic::interpreter::verif::{Context, Depths, ErrorState, Monitor};
use rusty_parser::{ElementType, TypeQualifier, UserDefinedTypes};
use rusty_variant::Variant;

use crate::json::J;

pub fn opcode_name(i: &Instruction) -> String {
    let d = format!("{:?}", i);
    d.split(|c: char| !(c.is_alphanumeric() || c == '_'))
        .next()
        .unwrap_or("")
        .to_string()
}

pub fn tag(v: &Variant) -> &'static str {
    match v {
        Variant::VInteger(_) => "%",
        Variant::VLong(_) => "&",
        Variant::VSingle(_) => "!",
        Variant::VDouble(_) => "#",
        Variant::VString(_) => "$",
        Variant::VUserDefined(_) => "rec",
        Variant::VArray(_) => "arr",
    }
}

fn q_str(q: TypeQualifier) -> &'static str {
    match q {
        TypeQualifier::BangSingle => "!",
        TypeQualifier::HashDouble => "#",
        TypeQualifier::DollarString => "$",
        TypeQualifier::PercentInteger => "%",
        TypeQualifier::AmpersandLong => "&",
    }
}

pub fn f64_j(f: f64) -> J {
    if f.is_finite() {
        J::Num(f)
    } else if f.is_nan() {
        J::s("nan")
    } else if f > 0.0 {
        J::s("inf")
    } else {
        J::s("-inf")
    }
}

/// Renders a value as `[tag, payload]`.
pub fn variant_j(v: &Variant) -> J {
    match v {
        Variant::VInteger(i) => J::Arr(vec![J::s("%"), J::Int(*i as i64)]),
        Variant::VLong(i) => J::Arr(vec![J::s("&"), J::Int(*i)]),
        Variant::VSingle(f) => J::Arr(vec![J::s("!"), f64_j(*f as f64)]),
        Variant::VDouble(f) => J::Arr(vec![J::s("#"), f64_j(*f)]),
        Variant::VString(s) => J::Arr(vec![J::s("$"), J::s(s.clone())]),
        Variant::VUserDefined(u) => {
            let fields: Vec<J> = u
                .names()
                .map(|n| J::Arr(vec![J::s(n.to_string()), variant_j(u.get(n).unwrap())]))
                .collect();
            J::Arr(vec![J::s("rec"), J::Arr(fields)])
        }
        Variant::VArray(a) => {
            let mut dims = vec![];
            let mut k = 0;
            while let Some((lb, ub)) = a.get_dimension_bounds(k) {
                dims.push(J::Arr(vec![J::Int(*lb as i64), J::Int(*ub as i64)]));
                k += 1;
            }
            let els: Vec<J> = (0..a.len()).map(|i| variant_j(a.get(i).unwrap())).collect();
            J::Arr(vec![J::s("arr"), J::Arr(dims), J::Arr(els)])
        }
    }
}

pub fn dump_context(context: &Context) -> J {
    let mut blocks = vec![];
    for b in context.verif_blocks() {
        let mut o = J::obj();
        o.set("rc", J::Int(b.ref_count as i64));
        o.set("static", J::Bool(b.is_static));
        let vars: Vec<J> = b
            .variables
            .iter()
            .map(|(n, v)| {
                J::Arr(vec![
                    J::s(n.to_string()),
                    match n.qualifier() {
                        Some(q) => J::s(q_str(q)),
                        None => J::Null,
                    },
                    variant_j(v),
                ])
            })
            .collect();
        o.set("vars", J::Arr(vars));
        blocks.push(o);
    }
    let mut o = J::obj();
    o.set("blocks", J::Arr(blocks));
    o.set(
        "states",
        J::Arr(
            context
                .verif_states()
                .iter()
                .map(|(i, a)| J::Arr(vec![J::Int(*i as i64), J::Bool(*a)]))
                .collect(),
        ),
    );
    o.set(
        "statics",
        J::Arr(
            context
                .verif_static_blocks()
                .iter()
                .map(|(n, i)| J::Arr(vec![J::s(format!("{:?}", n)), J::Int(*i as i64)]))
                .collect(),
        ),
    );
    o
}

// ---------------------------------------------------------------------------
// C15 static part: structural walk over the generated code
// ---------------------------------------------------------------------------

pub struct Structure {
    pub violations: Vec<String>,
    /// for every instruction, the index of the procedure it belongs to (0 = main module)
    pub proc_of: Vec<usize>,
    pub n_procs: usize,
    pub n_labels: usize,
    pub n_branches: usize,
    pub dup_statement_addresses: usize,
}

fn is_proc_label(s: &str) -> bool {
    s.starts_with(":fun:") || s.starts_with(":sub:")
}

pub fn structure_walk(r: &InstructionGeneratorResult) -> Structure {
    let ins = &r.instructions;
    let n = ins.len();
    let mut v: Vec<String> = vec![];
    // procedure ranges
    let mut proc_of = vec![0usize; n];
    let mut cur = 0usize;
    let mut n_procs = 1usize;
    let mut proc_start: Vec<usize> = vec![0];
    for (i, ip) in ins.iter().enumerate() {
        if let Instruction::Label(l) = &ip.element {
            if is_proc_label(&l.to_string()) {
                cur = n_procs;
                n_procs += 1;
                proc_start.push(i);
            }
        }
        proc_of[i] = cur;
    }
    // every procedure ends in PopRet, main in Halt
    for p in 0..n_procs {
        let end = if p + 1 < n_procs { proc_start[p + 1] } else { n };
        if end == proc_start[p] {
            v.push(format!("empty procedure {}", p));
            continue;
        }
        let last = &ins[end - 1].element;
        if p == 0 {
            if !matches!(last, Instruction::Halt) {
                v.push(format!("main module does not end with Halt but {:?}", last));
            }
        } else if !matches!(last, Instruction::PopRet) {
            v.push(format!("procedure {} does not end with PopRet but {:?}", p, last));
        }
    }
    // labels unique
    let mut labels: HashMap<String, usize> = HashMap::new();
    let mut n_labels = 0;
    for (i, ip) in ins.iter().enumerate() {
        if let Instruction::Label(l) = &ip.element {
            n_labels += 1;
            let k = l.to_string().to_ascii_lowercase();
            if let Some(prev) = labels.insert(k.clone(), i) {
                v.push(format!("label {} defined twice (addresses {} and {})", k, prev, i));
            }
        }
    }
    // targets
    let mut n_branches = 0;
    let mut check = |what: &str, i: usize, t: &AddressOrLabel, same_proc: bool, v: &mut Vec<String>| {
        match t {
            AddressOrLabel::Unresolved(l) => {
                v.push(format!("{} at {} has unresolved target {}", what, i, l));
            }
            AddressOrLabel::Resolved(a) => {
                if *a >= n {
                    v.push(format!("{} at {} targets {} outside the list of {}", what, i, a, n));
                } else if same_proc && proc_of[*a] != proc_of[i] {
                    v.push(format!(
                        "{} at {} (procedure {}) targets {} in procedure {}",
                        what, i, proc_of[i], a, proc_of[*a]
                    ));
                }
            }
        }
    };
    for (i, ip) in ins.iter().enumerate() {
        match &ip.element {
            Instruction::Jump(t) => {
                n_branches += 1;
                // a call is PushRet followed by a jump to a procedure label
                let is_call = i > 0
                    && matches!(ins[i - 1].element, Instruction::PushRet(_))
                    && matches!(t, AddressOrLabel::Resolved(a) if *a < n && matches!(&ins[*a].element, Instruction::Label(l) if is_proc_label(&l.to_string())));
                check("Jump", i, t, !is_call, &mut v);
            }
            Instruction::JumpIfFalse(t) => {
                n_branches += 1;
                check("JumpIfFalse", i, t, true, &mut v);
            }
            Instruction::GoSub(t, ..) => {
                n_branches += 1;
                check("GoSub", i, t, true, &mut v);
            }
            Instruction::Return(Some(t), ..) => {
                n_branches += 1;
                check("Return", i, t, true, &mut v);
            }
            Instruction::ResumeLabel(t, ..) => {
                n_branches += 1;
                check("ResumeLabel", i, t, false, &mut v);
            }
            Instruction::OnErrorGoTo(t) => {
                n_branches += 1;
                check("OnErrorGoTo", i, t, false, &mut v);
            }
            Instruction::PushRet(a) => {
                n_branches += 1;
                if *a >= n {
                    v.push(format!("PushRet at {} targets {} outside the list", i, a));
                } else if proc_of[*a] != proc_of[i] {
                    v.push(format!("PushRet at {} returns into another procedure", i));
                }
                if *a != i + 2 || i + 1 >= n || !matches!(ins[i + 1].element, Instruction::Jump(_)) {
                    v.push(format!("PushRet at {} is not followed by the call jump", i));
                }
            }
            _ => {}
        }
    }
    // statement addresses
    let mut dup = 0;
    let sa = &r.statement_addresses;
    for w in sa.windows(2) {
        if w[1] < w[0] {
            v.push(format!("statement addresses not ascending: {} after {}", w[1], w[0]));
        } else if w[1] == w[0] {
            dup += 1;
        }
    }
    for a in sa {
        if *a >= n {
            v.push(format!("statement address {} outside the list of {}", a, n));
        }
    }
    v.truncate(20);
    Structure {
        violations: v,
        proc_of,
        n_procs,
        n_labels,
        n_branches,
        dup_statement_addresses: dup,
    }
}

// ---------------------------------------------------------------------------
// C15 static part 2: abstract interpretation of the stack depths over all paths
// ---------------------------------------------------------------------------

/// Depth vector of the abstract walk: value stack, register stack, var path stack, context states, by-ref stack,
/// all relative to the entry of the root the walk started from.
pub type Abs5 = [i32; 5];
pub const ABS_NAMES: [&str; 5] = ["value_stack", "register_stack", "var_path_stack", "context_states", "by_ref_stack"];

/// The stack effect of a straight-line instruction; None for instructions that transfer control.
/// The table is calibrated against the real VM at run time (see `calibrate` in c15_step): every executed
/// straight-line instruction that is followed by its successor must change the real depths by exactly this much.
pub fn effect(ins: &Instruction) -> Option<Abs5> {
    Some(match ins {
        Instruction::Jump(_)
        | Instruction::JumpIfFalse(_)
        | Instruction::GoSub(..)
        | Instruction::Return(..)
        | Instruction::Resume
        | Instruction::ResumeNext
        | Instruction::ResumeLabel(..)
        | Instruction::Halt
        | Instruction::PushRet(_)
        | Instruction::PopRet
        | Instruction::Throw(_) => return None,
        Instruction::PushAToValueStack => [1, 0, 0, 0, 0],
        Instruction::PopValueStackIntoA => [-1, 0, 0, 0, 0],
        Instruction::PushRegisters => [0, 1, 0, 0, 0],
        Instruction::PopRegisters => [0, -1, 0, 0, 0],
        Instruction::VarPathName(_) => [0, 0, 1, 0, 0],
        Instruction::CopyAToVarPath | Instruction::PopVarPath | Instruction::PushUnnamedByRef => [0, 0, -1, 0, 0],
        Instruction::BeginCollectArguments => [0, 0, 0, 1, 0],
        Instruction::PopStack | Instruction::AllocateArrayIntoA(_) => [0, 0, 0, -1, 0],
        Instruction::EnqueueToReturnStack(_) => [0, 0, 0, 0, 1],
        Instruction::DequeueFromReturnStack => [0, 0, 0, 0, -1],
        _ => [0, 0, 0, 0, 0],
    })
}

#[derive(Default)]
pub struct AbsWalk {
    pub violations: Vec<String>,
    pub roots: usize,
    pub reached: usize,
    pub joins: usize,
    pub edges: usize,
    pub carried_checked: usize,
}

fn fmt_diff(a: &Abs5, b: &Abs5) -> String {
    (0..5)
        .filter(|k| a[*k] != b[*k])
        .map(|k| format!("{} {} vs {}", ABS_NAMES[k], a[k], b[k]))
        .collect::<Vec<_>>()
        .join(", ")
}

/// Forward data-flow over the instruction list. Every procedure entry (and the start of the main module) is a root
/// with all depths 0; every GOSUB target and every ON ERROR GOTO target is a root of its own (such code runs at the
/// depth of whatever was interrupted, so only its relative behaviour is judged). Within one root every address must
/// be reached with one depth vector on all paths (a back edge that arrives deeper is a stack that grows with the
/// iteration count, a join that disagrees is a path that pushes without popping); a procedure root must never go
/// below its entry depths and must be back at them at every PopRet / at the final Halt. The FOR / SELECT CASE
/// depths carried by GoSub, Return label and ResumeLabel must equal the depths the walk found at those places.
/// Error edges (a failing instruction continuing at a handler or at the next statement) are not followed.
pub fn abstract_walk(r: &InstructionGeneratorResult, st: &Structure) -> AbsWalk {
    let ins = &r.instructions;
    let n = ins.len();
    let mut out = AbsWalk::default();
    if n == 0 || !st.violations.is_empty() {
        // targets may be unresolved or outside the list: the structural walk already reports that
        return out;
    }
    let pos = |i: usize| format!("addr {} ({}:{})", i, ins[i].pos.row() as i64, ins[i].pos.col() as i64);
    let target = |t: &AddressOrLabel| -> Option<usize> {
        match t {
            AddressOrLabel::Resolved(a) if *a < n => Some(*a),
            _ => None,
        }
    };
    // roots
    let mut proc_roots: Vec<usize> = vec![0];
    for (i, ip) in ins.iter().enumerate() {
        if let Instruction::Label(l) = &ip.element {
            if is_proc_label(&l.to_string()) {
                proc_roots.push(i);
            }
        }
    }
    let mut other_roots: Vec<usize> = vec![];
    for ip in ins.iter() {
        match &ip.element {
            Instruction::GoSub(t, ..) | Instruction::OnErrorGoTo(t) => {
                if let Some(a) = target(t) {
                    if !other_roots.contains(&a) {
                        other_roots.push(a);
                    }
                }
            }
            _ => {}
        }
    }
    // the walk of the procedure roots shares one map (procedures do not overlap)
    let mut proc_state: Vec<Option<Abs5>> = vec![None; n];
    let mut push_v = |v: &mut Vec<String>, s: String| {
        if v.len() < 12 && !v.contains(&s) {
            v.push(s);
        }
    };
    let mut run_root = |root: usize, is_proc: bool, state: &mut Vec<Option<Abs5>>, out: &mut AbsWalk| {
        let mut work: Vec<(usize, Abs5, usize)> = vec![(root, [0; 5], root)];
        while let Some((i, s, from)) = work.pop() {
            if i >= n {
                push_v(&mut out.violations, format!("abstract: control runs off the end of the instruction list after {}", pos(from)));
                continue;
            }
            out.edges += 1;
            if is_proc && st.proc_of[i] != st.proc_of[root] {
                push_v(
                    &mut out.violations,
                    format!("abstract: control flows from {} into another procedure at {}", pos(from), pos(i)),
                );
                continue;
            }
            match &state[i] {
                Some(old) => {
                    out.joins += 1;
                    if *old != s {
                        push_v(
                            &mut out.violations,
                            format!(
                                "abstract: two paths reach {} with different stack depths ({}), the second one from {}",
                                pos(i),
                                fmt_diff(old, &s),
                                pos(from)
                            ),
                        );
                    }
                    continue;
                }
                None => {
                    state[i] = Some(s);
                    out.reached += 1;
                }
            }
            let e = &ins[i].element;
            if let Some(d) = effect(e) {
                let mut t = s;
                for k in 0..5 {
                    t[k] += d[k];
                }
                if is_proc && t.iter().any(|x| *x < 0) {
                    push_v(
                        &mut out.violations,
                        format!(
                            "abstract: {} at {} pops below the depths its procedure started with ({:?})",
                            opcode_name(e),
                            pos(i),
                            t
                        ),
                    );
                    continue;
                }
                work.push((i + 1, t, i));
                continue;
            }
            match e {
                Instruction::Jump(t) => {
                    if let Some(a) = target(t) {
                        work.push((a, s, i));
                    }
                }
                Instruction::JumpIfFalse(t) => {
                    if let Some(a) = target(t) {
                        work.push((a, s, i));
                    }
                    work.push((i + 1, s, i));
                }
                Instruction::GoSub(..) => {
                    // the routine is a root of its own; it comes back to the next instruction at these depths
                    work.push((i + 1, s, i));
                }
                Instruction::PushRet(a) => {
                    // the callee is a root of its own; the call returns to `a` at these depths
                    work.push((*a, s, i));
                }
                Instruction::Return(Some(t), for_depth, select_depth) => {
                    if is_proc {
                        if let Some(a) = target(t) {
                            work.push((a, [*select_depth as i32, *for_depth as i32, 0, 0, 0], i));
                        }
                    }
                }
                Instruction::ResumeLabel(t, for_depth, select_depth) => {
                    if is_proc && st.proc_of[i] == 0 {
                        if let Some(a) = target(t) {
                            work.push((a, [*select_depth as i32, *for_depth as i32, 0, 0, 0], i));
                        }
                    }
                }
                Instruction::PopRet => {
                    if is_proc && s != [0; 5] {
                        push_v(
                            &mut out.violations,
                            format!(
                                "abstract: a path reaches the end of the procedure at {} with depths that differ from those at its entry ({})",
                                pos(i),
                                fmt_diff(&s, &[0; 5])
                            ),
                        );
                    }
                }
                Instruction::Halt => {
                    // END may be written inside any block; only the Halt that closes the main module is judged
                    if is_proc && ins[i].pos.row() == u32::MAX && s != [0; 5] {
                        push_v(
                            &mut out.violations,
                            format!("abstract: a path reaches the end of the main module with depths {:?}", s),
                        );
                    }
                }
                _ => {}
            }
        }
    };
    for root in proc_roots.iter() {
        out.roots += 1;
        run_root(*root, true, &mut proc_state, &mut out);
    }
    for root in other_roots.iter() {
        out.roots += 1;
        let mut state: Vec<Option<Abs5>> = vec![None; n];
        run_root(*root, false, &mut state, &mut out);
    }
    // the depths carried by the instructions must be the depths found at those places
    for (i, ip) in ins.iter().enumerate() {
        let (what, at, fd, sd) = match &ip.element {
            Instruction::GoSub(_, fd, sd) => ("GoSub", Some(i), *fd, *sd),
            Instruction::Return(Some(t), fd, sd) => ("Return label", target(t), *fd, *sd),
            Instruction::ResumeLabel(t, fd, sd) => ("ResumeLabel", target(t), *fd, *sd),
            _ => continue,
        };
        if let Some(a) = at {
            if let Some(s) = &proc_state[a] {
                out.carried_checked += 1;
                if s[0] != sd as i32 || s[1] != fd as i32 {
                    push_v(
                        &mut out.violations,
                        format!(
                            "abstract: {} at {} carries FOR depth {} and SELECT depth {}, but the paths of the procedure reach {} with register depth {} and value depth {}",
                            what,
                            pos(i),
                            fd,
                            sd,
                            pos(a),
                            s[1],
                            s[0]
                        ),
                    );
                }
            }
        }
    }
    out
}

// ---------------------------------------------------------------------------
// dynamic monitor
// ---------------------------------------------------------------------------

#[derive(Default)]
pub struct MonState {
    pub steps: u64,
    pub budget: u64,
    pub budget_exhausted: bool,
    /// wall-clock guard (inconclusive, never a verdict): programs whose single instructions are slow
    /// (strings doubling in a loop) would otherwise hold a worker until the client's watchdog fires
    pub started: Option<std::time::Instant>,
    pub wall_exhausted: bool,
    pub hist: BTreeMap<String, u64>,
    pub want_hist: bool,
    pub want_c15: bool,
    pub want_c06: bool,
    pub want_c03: bool,
    pub want_vars: bool,
    pub want_atag: bool,
    pub statement_starts: HashSet<usize>,
    pub proc_of: Vec<usize>,
    pub positions: Vec<(u32, u32)>,
    pub udts: Vec<(Vec<String>, Vec<Option<&'static str>>)>,
    // C15
    pub c15: Vec<String>,
    pub activation_stack: Vec<Activation>,
    pub next_activation_id: u64,
    pub jif_taken: HashMap<usize, u8>,
    pub prev_jif: Option<(usize, usize)>,
    pub distinct_states: HashSet<(usize, [usize; 6])>,
    pub max_depths: [usize; 9],
    pub pending_call: Option<[usize; 6]>,
    /// value / register stack depths that the caller must see right after a procedure returned
    pub pending_return: Option<(usize, usize, usize)>,
    pub back_jumps: u64,
    pub calls: u64,
    pub prev_addr: Option<usize>,
    pub handler_entries: u64,
    pub ended_at_final_halt: bool,
    /// calibration of the abstract walk's effect table against the real VM
    pub calib_prev: Option<(usize, Option<Abs5>, Abs5, Option<i32>)>,
    pub calib_checked: u64,
    pub calib_jump: Option<(usize, usize, Abs5, Option<i32>)>,
    // C06
    pub c06: Vec<String>,
    pub c06_slots_checked: u64,
    pub c06_walks: u64,
    // C03
    pub c03: Vec<String>,
    pub c03_walks: u64,
    pub max_states: usize,
    pub max_blocks: usize,
    // tags of A at PrintValueFromA / CopyAToVarPath
    pub atags: Vec<J>,
    pub vars: Option<J>,
    pub end_depths: Option<Depths>,
}

pub struct Activation {
    pub id: u64,
    pub entry: [usize; 6],
    pub seen: HashMap<usize, [usize; 6]>,
}

fn vec6(d: &Depths) -> [usize; 6] {
    [
        d.value_stack,
        d.register_stack,
        d.var_path_stack,
        d.by_ref_stack,
        d.states,
        d.stacktrace,
    ]
}

const V6_NAMES: [&str; 6] = [
    "value_stack",
    "register_stack",
    "var_path_stack",
    "by_ref_stack",
    "context_states",
    "stacktrace",
];

pub struct Mon(pub Rc<RefCell<MonState>>);

impl Mon {
    fn push_c15(m: &mut MonState, s: String) {
        if m.c15.len() < 12 && !m.c15.contains(&s) {
            m.c15.push(s);
        }
    }
}

impl MonState {
    fn push_v(list: &mut Vec<String>, s: String) {
        if list.len() < 12 && !list.contains(&s) {
            list.push(s);
        }
    }

    fn pos_str(&self, address: usize) -> String {
        match self.positions.get(address) {
            Some((r, c)) => format!("addr {} ({}:{})", address, r, c),
            None => format!("addr {}", address),
        }
    }

    fn c15_step(&mut self, address: usize, ins: &Instruction, d: &Depths, es: &ErrorState) {
        self.ended_at_final_halt = matches!(ins, Instruction::Halt)
            && self.positions.get(address).map(|p| p.0 == u32::MAX).unwrap_or(false)
            && es.last_error_address.is_none();
        // branch outcome bookkeeping
        if let Some((jaddr, target)) = self.prev_jif.take() {
            let e = self.jif_taken.entry(jaddr).or_insert(0);
            if address == target {
                *e |= 1;
            }
            if address == jaddr + 1 {
                *e |= 2;
            }
        }
        if let Some(p) = self.prev_addr {
            if address <= p && !matches!(ins, Instruction::Label(_)) || address < p {
                self.back_jumps += 1;
            }
        }
        self.prev_addr = Some(address);
        if let Instruction::JumpIfFalse(AddressOrLabel::Resolved(t)) = ins {
            self.prev_jif = Some((address, *t));
        }
        // calibration of the static effect table: a straight-line instruction that was followed by its successor
        // (not a statement start, where a trapped error may have landed) changed the real depths by the table's amount
        let now5: Abs5 = [
            d.value_stack as i32,
            d.register_stack as i32,
            d.var_path_stack as i32,
            d.states as i32,
            d.by_ref_stack as i32,
        ];
        if let Some((paddr, Some(eff), before, perr)) = self.calib_prev.take() {
            if address == paddr + 1 && !self.statement_starts.contains(&address) && perr == es.last_error_code {
                self.calib_checked += 1;
                let mut want = before;
                for k in 0..5 {
                    want[k] += eff[k];
                }
                if want != now5 {
                    let s = format!(
                        "effect table: the instruction at {} changed the stack depths {:?} -> {:?}, the abstract walk assumes {:?}",
                        self.pos_str(paddr),
                        before,
                        now5,
                        eff
                    );
                    Self::push_v(&mut self.c15, s);
                }
            }
        }
        // plain jumps move control and nothing else
        if let Some((jaddr, jt, before, perr)) = self.calib_jump.take() {
            if (address == jt || address == jaddr + 1) && perr == es.last_error_code {
                self.calib_checked += 1;
                if before != now5 {
                    let s = format!(
                        "effect table: the jump at {} changed the stack depths {:?} -> {:?}",
                        self.pos_str(jaddr),
                        before,
                        now5
                    );
                    Self::push_v(&mut self.c15, s);
                }
            }
        }
        match ins {
            Instruction::Jump(AddressOrLabel::Resolved(t)) | Instruction::JumpIfFalse(AddressOrLabel::Resolved(t)) => {
                self.calib_jump = Some((address, *t, now5, es.last_error_code));
            }
            _ => {}
        }
        self.calib_prev = Some((address, effect(ins), now5, es.last_error_code));
        let v = vec6(d);
        // the first instruction after a procedure returned: the loop frames and SELECT CASE values of the call are gone
        // (the VM drops them with the call, e.g. after EXIT SUB from a GOSUB routine entered inside a FOR loop)
        if let Some((values, registers, ret_addr)) = self.pending_return.take() {
            if v[0] != values || v[1] != registers {
                let s = format!(
                    "stack depths after the return of a procedure differ from those at its entry, at {}: value_stack {}->{}, register_stack {}->{}",
                    self.pos_str(ret_addr), values, v[0], registers, v[1]
                );
                Self::push_v(&mut self.c15, s);
            }
        }
        // a pending call: this is the first instruction of the callee
        if let Some(caller_v) = self.pending_call.take() {
            let id = self.next_activation_id;
            self.next_activation_id += 1;
            self.calls += 1;
            let _ = caller_v;
            self.activation_stack.push(Activation {
                id,
                entry: v,
                seen: HashMap::new(),
            });
        }
        if self.activation_stack.is_empty() {
            self.activation_stack.push(Activation {
                id: 0,
                entry: v,
                seen: HashMap::new(),
            });
            self.next_activation_id = 1;
        }
        // underflow checks (observed before the real code executes the pop)
        let under = match ins {
            Instruction::PopValueStackIntoA => d.value_stack == 0,
            Instruction::PopRegisters => d.register_stack <= 1,
            Instruction::PopVarPath
            | Instruction::CopyAToVarPath
            | Instruction::CopyVarPathToA
            | Instruction::PushUnnamedByRef
            | Instruction::VarPathIndex
            | Instruction::VarPathProperty(_) => d.var_path_stack == 0,
            Instruction::DequeueFromReturnStack => d.by_ref_stack == 0,
            Instruction::PopRet => d.return_address_stack == 0,
            Instruction::PopStack => d.states <= 1 || d.stacktrace == 0,
            _ => false,
        };
        if under {
            let s = format!("underflow: {} at {} with depths {:?}", opcode_name(ins), self.pos_str(address), d);
            Self::push_v(&mut self.c15, s);
        }
        let in_handler = es.last_error_address.is_some();
        // depth must be a function of the statement address within one activation
        if self.statement_starts.contains(&address) && !in_handler {
            let pos = self.pos_str(address);
            let act = self.activation_stack.last_mut().unwrap();
            self.distinct_states.insert((address, v));
            match act.seen.get(&address) {
                None => {
                    act.seen.insert(address, v);
                }
                Some(old) => {
                    if *old != v {
                        let which: Vec<String> = (0..6)
                            .filter(|k| old[*k] != v[*k])
                            .map(|k| format!("{} {}->{}", V6_NAMES[k], old[k], v[k]))
                            .collect();
                        let s = format!(
                            "stack depth differs between two visits of statement at {}: {}",
                            pos,
                            which.join(", ")
                        );
                        Self::push_v(&mut self.c15, s);
                        // report once per address
                        act.seen.insert(address, v);
                    }
                }
            }
        }
        match ins {
            Instruction::PushRet(_) => {
                self.pending_call = Some(v);
            }
            Instruction::PopRet => {
                if !in_handler {
                    if let Some(act) = self.activation_stack.last() {
                        if act.id != 0 {
                            self.pending_return = Some((act.entry[0], act.entry[1], address));
                        }
                        // the other stacks must be balanced when the procedure ends
                        if act.id != 0 && act.entry[2..] != v[2..] {
                            let which: Vec<String> = (2..6)
                                .filter(|k| act.entry[*k] != v[*k])
                                .map(|k| format!("{} {}->{}", V6_NAMES[k], act.entry[k], v[k]))
                                .collect();
                            let s = format!(
                                "stack depths at procedure return differ from those at its entry, at {}: {}",
                                self.pos_str(address),
                                which.join(", ")
                            );
                            Self::push_v(&mut self.c15, s);
                        }
                    }
                }
                if self.activation_stack.len() > 1 {
                    self.activation_stack.pop();
                }
            }
            _ => {}
        }
        // executed branch must stay in its procedure
        if let Some(t) = match ins {
            Instruction::JumpIfFalse(AddressOrLabel::Resolved(t)) => Some(*t),
            Instruction::GoSub(AddressOrLabel::Resolved(t), ..) => Some(*t),
            _ => None,
        } {
            if self.proc_of.get(t) != self.proc_of.get(address) {
                let s = format!("executed branch at {} leaves its procedure", self.pos_str(address));
                Self::push_v(&mut self.c15, s);
            }
        }
        let all = [
            d.value_stack,
            d.register_stack,
            d.var_path_stack,
            d.by_ref_stack,
            d.return_address_stack,
            d.go_sub_address_stack,
            d.stacktrace,
            d.states,
            d.memory_blocks,
        ];
        for k in 0..9 {
            if all[k] > self.max_depths[k] {
                self.max_depths[k] = all[k];
            }
        }
    }

    fn check_scalar(&mut self, what: &str, q: &'static str, v: &Variant, address: usize) {
        self.c06_slots_checked += 1;
        let bad: Option<String> = match (q, v) {
            ("%", Variant::VInteger(i)) => {
                if (-32768..=32767).contains(i) {
                    None
                } else {
                    Some(format!("INTEGER slot holds {}", i))
                }
            }
            ("&", Variant::VLong(i)) => {
                if (-2147483648i64..=2147483647i64).contains(i) {
                    None
                } else {
                    Some(format!("LONG slot holds {}", i))
                }
            }
            ("!", Variant::VSingle(f)) => {
                if f.is_finite() {
                    None
                } else {
                    Some(format!("SINGLE slot holds {}", f))
                }
            }
            ("#", Variant::VDouble(f)) => {
                if f.is_finite() {
                    None
                } else {
                    Some(format!("DOUBLE slot holds {}", f))
                }
            }
            ("$", Variant::VString(_)) => None,
            (q, v) => Some(format!("slot of type {} holds a value tagged {} ({:?})", q, tag(v), v)),
        };
        if let Some(b) = bad {
            let s = format!("{}: {} [first seen before {}]", what, b, self.pos_str(address));
            // dedupe on slot name + message without the address
            let key = format!("{}: {}", what, b);
            if self.c06.len() < 12 && !self.c06.iter().any(|x| x.starts_with(&key)) {
                self.c06.push(s);
            }
        }
    }

    fn check_record(&mut self, what: &str, u: &rusty_variant::UserDefinedTypeValue, address: usize) {
        let names: Vec<String> = u.names().map(|n| n.to_string().to_ascii_lowercase()).collect();
        let matches: Vec<usize> = self
            .udts
            .iter()
            .enumerate()
            .filter(|(_, (ns, _))| *ns == names)
            .map(|(i, _)| i)
            .collect();
        let types: Option<Vec<Option<&'static str>>> = if matches.is_empty() {
            None
        } else {
            let t0 = self.udts[matches[0]].1.clone();
            if matches.iter().all(|m| self.udts[*m].1 == t0) {
                Some(t0)
            } else {
                None
            }
        };
        for (k, n) in u.names().enumerate() {
            let fv = u.get(n).unwrap();
            let w = format!("{}.{}", what, n);
            match fv {
                Variant::VUserDefined(inner) => self.check_record(&w, inner, address),
                _ => {
                    if let Some(ts) = &types {
                        if let Some(Some(q)) = ts.get(k) {
                            self.check_scalar(&w, q, fv, address);
                        }
                    }
                }
            }
        }
    }

    fn c06_walk(&mut self, context: &Context, address: usize) {
        self.c06_walks += 1;
        for (bi, b) in context.verif_blocks().iter().enumerate() {
            for (name, v) in b.variables.iter() {
                let what = format!("block{}:{}", bi, name);
                match (name.qualifier(), v) {
                    (Some(q), Variant::VArray(a)) => {
                        for k in 0..a.len() {
                            let w = format!("{}[{}]", what, k);
                            self.check_scalar(&w, q_str(q), a.get(k).unwrap(), address);
                        }
                    }
                    (Some(q), v) => self.check_scalar(&what, q_str(q), v, address),
                    (None, Variant::VUserDefined(u)) => self.check_record(&what, u, address),
                    (None, Variant::VArray(a)) => {
                        for k in 0..a.len() {
                            if let Some(Variant::VUserDefined(u)) = a.get(k) {
                                let w = format!("{}[{}]", what, k);
                                self.check_record(&w, u, address);
                            }
                        }
                    }
                    _ => {}
                }
            }
        }
    }

    fn c03_walk(&mut self, context: &Context, d: &Depths, es: &ErrorState, address: usize, at_statement: bool) {
        self.c03_walks += 1;
        let states = context.verif_states();
        let blocks = context.verif_blocks();
        if states.len() > self.max_states {
            self.max_states = states.len();
        }
        if blocks.len() > self.max_blocks {
            self.max_blocks = blocks.len();
        }
        let at = self.pos_str(address);
        for (scope, idx) in context.verif_static_blocks() {
            if idx >= blocks.len() {
                Self::push_v(
                    &mut self.c03,
                    format!("static block index of {:?} is {} but only {} blocks exist, at {}", scope, idx, blocks.len(), at),
                );
            } else if !blocks[idx].is_static {
                Self::push_v(
                    &mut self.c03,
                    format!("static block index of {:?} names a non-static block, at {}", scope, at),
                );
            }
        }
        let mut refs = vec![0usize; blocks.len()];
        for (k, (bi, _)) in states.iter().enumerate() {
            if *bi >= blocks.len() {
                Self::push_v(
                    &mut self.c03,
                    format!("state {} refers to block {} of {}, at {}", k, bi, blocks.len(), at),
                );
            } else {
                refs[*bi] += 1;
            }
        }
        for (bi, b) in blocks.iter().enumerate() {
            let ok = if b.is_static {
                b.ref_count == refs[bi] || b.ref_count == refs[bi] + 1
            } else {
                b.ref_count == refs[bi]
            };
            if !ok {
                Self::push_v(
                    &mut self.c03,
                    format!(
                        "block {} (static={}) has ref_count {} but {} states refer to it, at {}",
                        bi, b.is_static, b.ref_count, refs[bi], at
                    ),
                );
            }
        }
        if at_statement && d.return_address_stack == 0 && es.last_error_address.is_none() {
            if states.len() != 1 || states[0].0 != 0 {
                Self::push_v(
                    &mut self.c03,
                    format!("at a statement boundary of the main module the context stack is {:?} instead of [global], at {}", states, at),
                );
            }
        }
    }
}

impl Monitor for Mon {
    fn on_instruction(
        &mut self,
        address: usize,
        instruction: &Instruction,
        depths: &Depths,
        a: &Variant,
        error_state: &ErrorState,
        context: &Context,
    ) -> bool {
        let mut m = self.0.borrow_mut();
        m.steps += 1;
        if m.steps > m.budget {
            m.budget_exhausted = true;
            return true;
        }
        if let Variant::VString(text) = a {
            // a program that keeps doubling a string is outside every workload's intent
            if text.len() > (1 << 22) {
                m.budget_exhausted = true;
                m.wall_exhausted = true;
                return true;
            }
        }
        if m.steps & 255 == 0 {
            let t0 = *m.started.get_or_insert_with(std::time::Instant::now);
            if t0.elapsed().as_secs() >= 8 {
                m.budget_exhausted = true;
                m.wall_exhausted = true;
                return true;
            }
        }
        if m.want_hist {
            *m.hist.entry(opcode_name(instruction)).or_insert(0) += 1;
        }
        if m.want_c15 {
            m.c15_step(address, instruction, depths, error_state);
        }
        let at_statement = m.statement_starts.contains(&address);
        if at_statement {
            if m.want_c06 {
                m.c06_walk(context, address);
            }
            if m.want_c03 {
                m.c03_walk(context, depths, error_state, address, true);
            }
        }
        if m.want_atag {
            match instruction {
                Instruction::PrintValueFromA => {
                    if m.atags.len() < 4000 {
                        m.atags.push(J::Arr(vec![J::s("print"), J::s(tag(a)), J::Int(address as i64)]));
                    }
                }
                Instruction::CopyAToVarPath => {
                    if m.atags.len() < 4000 {
                        m.atags.push(J::Arr(vec![J::s("store"), J::s(tag(a)), J::Int(address as i64)]));
                    }
                }
                Instruction::PushNamed(_) => {
                    if m.atags.len() < 4000 {
                        m.atags.push(J::Arr(vec![J::s("param"), J::s(tag(a)), J::Int(address as i64)]));
                    }
                }
                _ => {}
            }
        }
        false
    }

    fn on_end(&mut self, depths: &Depths, _a: &Variant, context: &Context) {
        let mut m = self.0.borrow_mut();
        let last = m.prev_addr.unwrap_or(0);
        // a program that runs off the end of its main module (the final Halt, emitted at position
        // u32::MAX) must leave every stack as it found it
        if m.want_c15 && m.ended_at_final_halt {
            let v = vec6(depths);
            let base = [0usize, 1, 0, 0, 1, 0];
            if v != base || depths.return_address_stack != 0 {
                let which: Vec<String> = (0..6)
                    .filter(|k| v[*k] != base[*k])
                    .map(|k| format!("{} {}", V6_NAMES[k], v[k]))
                    .collect();
                let s = format!(
                    "stacks are not back at their base when the main module ends: {} return_address_stack {}",
                    which.join(", "),
                    depths.return_address_stack
                );
                Self::push_c15(&mut m, s);
            }
        }
        if m.want_c06 {
            m.c06_walk(context, last);
        }
        if m.want_c03 {
            m.c03_walk(context, depths, &ErrorState::default(), last, false);
        }
        if m.want_vars {
            m.vars = Some(dump_context(context));
        }
        m.end_depths = Some(depths.clone());
    }
}

pub fn udt_table(udts: &UserDefinedTypes) -> Vec<(Vec<String>, Vec<Option<&'static str>>)> {
    let mut out = vec![];
    for (_, u) in udts.iter() {
        let mut names = vec![];
        let mut types = vec![];
        for e in u.elements() {
            let el = &e.element;
            names.push(el.name.to_string().to_ascii_lowercase());
            types.push(match &el.element_type {
                ElementType::Integer => Some("%"),
                ElementType::Long => Some("&"),
                ElementType::Single => Some("!"),
                ElementType::Double => Some("#"),
                ElementType::FixedLengthString(_, _) => Some("$"),
                ElementType::UserDefined(_) => None,
            });
        }
        out.push((names, types));
    }
    out
}
