fn main(){}
