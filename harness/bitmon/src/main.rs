//! bitmon: runtime monitor for property C19
//! "Bit-level primitives agree with two's complement and IEEE-754".
//!
//! Calls the real public functions of `rusty_variant` (qb_and, qb_or, i32_to_bytes,
//! bytes_to_i32, f64_to_bytes, bytes_to_f64, Variant::and / or / unary_not) and compares
//! every result with the machine operation as the oracle. Doubles are compared by bit pattern.
//! Every call into the code under test is wrapped in catch_unwind; a panic is a violation.

use std::cell::RefCell;
use std::collections::BTreeMap;
use std::fmt::Write as _;
use std::panic::{AssertUnwindSafe, catch_unwind};
use std::time::Instant;

use rusty_variant::{Variant, bytes_to_f64, bytes_to_i32, f64_to_bytes, i32_to_bytes, qb_and, qb_or};

// ---------------------------------------------------------------------------------------------
// panic capture
// ---------------------------------------------------------------------------------------------

#[derive(Clone, Debug, PartialEq)]
struct PanicInfo {
    msg: String,
    file: String,
    line: u32,
}

thread_local! {
    static LAST_PANIC: RefCell<Option<PanicInfo>> = const { RefCell::new(None) };
}

fn install_silent_hook() {
    std::panic::set_hook(Box::new(|info| {
        let msg = if let Some(s) = info.payload().downcast_ref::<&str>() {
            (*s).to_string()
        } else if let Some(s) = info.payload().downcast_ref::<String>() {
            s.clone()
        } else {
            "<non-string panic payload>".to_string()
        };
        let (file, line) = match info.location() {
            Some(l) => (l.file().to_string(), l.line()),
            None => ("<unknown>".to_string(), 0),
        };
        LAST_PANIC.with(|p| *p.borrow_mut() = Some(PanicInfo { msg, file, line }));
    }));
}

fn guarded<T>(f: impl FnOnce() -> T) -> Result<T, PanicInfo> {
    match catch_unwind(AssertUnwindSafe(f)) {
        Ok(v) => Ok(v),
        Err(_) => Err(LAST_PANIC.with(|p| p.borrow_mut().take()).unwrap_or(PanicInfo {
            msg: "<panic without hook record>".into(),
            file: "<unknown>".into(),
            line: 0,
        })),
    }
}

/// Path made independent of where the source tree lives: keep from the last `rusty_*` component.
fn normalize_file(file: &str) -> String {
    let parts: Vec<&str> = file.split('/').collect();
    match parts.iter().rposition(|p| p.starts_with("rusty_")) {
        Some(i) => parts[i..].join("/"),
        None => file.to_string(),
    }
}

/// Digits erased, whitespace collapsed, truncated.
fn normalize_msg(msg: &str) -> String {
    let mut out = String::new();
    let mut last_hash = false;
    let mut last_space = false;
    for c in msg.chars() {
        if c.is_ascii_digit() {
            if !last_hash {
                out.push('#');
            }
            last_hash = true;
            last_space = false;
        } else if c.is_whitespace() {
            if !last_space {
                out.push(' ');
            }
            last_space = true;
            last_hash = false;
        } else {
            out.push(c);
            last_hash = false;
            last_space = false;
        }
        if out.len() >= 100 {
            break;
        }
    }
    out.trim().to_string()
}

// ---------------------------------------------------------------------------------------------
// cases, values, evaluation
// ---------------------------------------------------------------------------------------------

const FN_NAMES: [&str; 12] = [
    "qb_and",
    "qb_or",
    "variant_and",
    "variant_or",
    "variant_not",
    "i32_to_bytes",
    "bytes_to_i32",
    "i32_roundtrip",
    "bytes_roundtrip",
    "f64_to_bytes",
    "bytes_to_f64",
    "f64_roundtrip",
];

#[derive(Clone, Copy, Debug, PartialEq)]
enum Case {
    And(i32, i32),
    Or(i32, i32),
    VAnd(i32, i32),
    VOr(i32, i32),
    VNot(i32),
    I2B(i32),
    B2I(u8, u8),
    /// bytes_to_i32(i32_to_bytes(v)) == v
    IRound(i32),
    /// i32_to_bytes(bytes_to_i32([lo, hi])) == [lo, hi]
    BRound(u8, u8),
    /// argument is the bit pattern of the double
    F2B(u64),
    /// argument is the bit pattern whose little endian bytes are passed
    B2F(u64),
    /// bytes_to_f64(f64_to_bytes(x)) == x
    FRound(u64),
}

impl Case {
    fn fn_id(&self) -> usize {
        match self {
            Case::And(..) => 0,
            Case::Or(..) => 1,
            Case::VAnd(..) => 2,
            Case::VOr(..) => 3,
            Case::VNot(..) => 4,
            Case::I2B(..) => 5,
            Case::B2I(..) => 6,
            Case::IRound(..) => 7,
            Case::BRound(..) => 8,
            Case::F2B(..) => 9,
            Case::B2F(..) => 10,
            Case::FRound(..) => 11,
        }
    }

    fn fn_name(&self) -> &'static str {
        FN_NAMES[self.fn_id()]
    }

    /// Arguments in the textual form accepted by --replay.
    fn args(&self) -> Vec<String> {
        match *self {
            Case::And(a, b) | Case::Or(a, b) | Case::VAnd(a, b) | Case::VOr(a, b) => {
                vec![a.to_string(), b.to_string()]
            }
            Case::VNot(v) | Case::I2B(v) | Case::IRound(v) => vec![v.to_string()],
            Case::B2I(lo, hi) | Case::BRound(lo, hi) => vec![lo.to_string(), hi.to_string()],
            Case::F2B(b) | Case::B2F(b) | Case::FRound(b) => vec![format!("0x{:016x}", b)],
        }
    }

    /// Human readable arguments (doubles also shown as decimal).
    fn args_human(&self) -> String {
        match *self {
            Case::F2B(b) | Case::FRound(b) => {
                format!("x=0x{:016x} ({:e})", b, f64::from_bits(b))
            }
            Case::B2F(b) => format!(
                "bytes={:?} (le bytes of 0x{:016x} = {:e})",
                b.to_le_bytes(),
                b,
                f64::from_bits(b)
            ),
            Case::B2I(lo, hi) | Case::BRound(lo, hi) => format!("bytes=[{}, {}]", lo, hi),
            _ => self.args().join(", "),
        }
    }

    /// Magnitude used for choosing minimal / maximal witnesses.
    fn magnitude(&self) -> f64 {
        match *self {
            Case::And(a, b) | Case::Or(a, b) | Case::VAnd(a, b) | Case::VOr(a, b) => {
                (a as f64).abs() + (b as f64).abs()
            }
            Case::VNot(v) | Case::I2B(v) | Case::IRound(v) => (v as f64).abs(),
            Case::B2I(lo, hi) | Case::BRound(lo, hi) => {
                (i16::from_le_bytes([lo, hi]) as f64).abs()
            }
            Case::F2B(b) | Case::B2F(b) | Case::FRound(b) => f64::from_bits(b).abs(),
        }
    }

    /// Class of the input, part of the failure signature.
    fn input_class(&self) -> &'static str {
        fn unary(v: i32) -> &'static str {
            if v == -32768 {
                "min_integer"
            } else if v < 0 {
                "negative"
            } else {
                "nonnegative"
            }
        }
        match *self {
            Case::And(a, b) | Case::Or(a, b) | Case::VAnd(a, b) | Case::VOr(a, b) => {
                if a == -32768 || b == -32768 {
                    "involves_min_integer"
                } else if a < 0 && b < 0 {
                    "both_negative"
                } else if a >= 0 && b >= 0 {
                    "both_nonnegative"
                } else {
                    "mixed_sign"
                }
            }
            Case::VNot(v) | Case::I2B(v) | Case::IRound(v) => unary(v),
            Case::B2I(lo, hi) | Case::BRound(lo, hi) => unary(i16::from_le_bytes([lo, hi]) as i32),
            Case::F2B(b) | Case::B2F(b) | Case::FRound(b) => f64_class(b),
        }
    }
}

fn f64_class(bits: u64) -> &'static str {
    let exp = (bits >> 52) & 0x7ff;
    let mant = bits & ((1u64 << 52) - 1);
    let neg = bits >> 63 == 1;
    if exp == 0x7ff {
        "nonfinite"
    } else if exp == 0 && mant == 0 {
        if neg { "negzero" } else { "zero" }
    } else if exp == 0 {
        "subnormal"
    } else if exp >= 1023 + 63 {
        "abs>=2^63"
    } else {
        "normal"
    }
}

const DOUBLE_CLASS_NAMES: [&str; 5] = ["zero", "negzero", "subnormal", "normal", "abs>=2^63"];

fn f64_class_id(bits: u64) -> usize {
    let c = f64_class(bits);
    DOUBLE_CLASS_NAMES.iter().position(|n| *n == c).unwrap_or(3)
}

#[derive(Clone, Debug, PartialEq)]
enum Val {
    I(i32),
    B2([u8; 2]),
    B8([u8; 8]),
    /// double by bit pattern
    F(u64),
    /// the Variant API returned something that is not Ok(VInteger(_))
    Other(String),
}

impl Val {
    fn show(&self) -> String {
        match self {
            Val::I(i) => format!("{} (0x{:04x})", i, (*i as u32) & 0xffff),
            Val::B2(b) => format!("{:?}", b),
            Val::B8(b) => format!("{:?} (0x{:016x})", b, u64::from_le_bytes(*b)),
            Val::F(b) => format!("0x{:016x} ({:e})", b, f64::from_bits(*b)),
            Val::Other(s) => s.clone(),
        }
    }
}

fn variant_result_to_val(r: Result<Variant, rusty_variant::VariantError>) -> Val {
    match r {
        Ok(Variant::VInteger(i)) => Val::I(i),
        Ok(other) => Val::Other(format!("Ok({:?})", other)),
        Err(e) => Val::Other(format!("Err({:?})", e)),
    }
}

struct Outcome {
    real: Result<Val, PanicInfo>,
    expected: Val,
}

impl Outcome {
    fn ok(&self) -> bool {
        match &self.real {
            Ok(v) => *v == self.expected,
            Err(_) => false,
        }
    }
}

/// The oracle and the call into the code under test, side by side.
fn eval(case: Case) -> Outcome {
    match case {
        Case::And(a, b) => Outcome {
            real: guarded(|| Val::I(qb_and(a, b))),
            expected: Val::I(((a as i16) & (b as i16)) as i32),
        },
        Case::Or(a, b) => Outcome {
            real: guarded(|| Val::I(qb_or(a, b))),
            expected: Val::I(((a as i16) | (b as i16)) as i32),
        },
        Case::VAnd(a, b) => Outcome {
            real: guarded(|| variant_result_to_val(Variant::VInteger(a).and(Variant::VInteger(b)))),
            expected: Val::I(((a as i16) & (b as i16)) as i32),
        },
        Case::VOr(a, b) => Outcome {
            real: guarded(|| variant_result_to_val(Variant::VInteger(a).or(Variant::VInteger(b)))),
            expected: Val::I(((a as i16) | (b as i16)) as i32),
        },
        Case::VNot(v) => Outcome {
            real: guarded(|| variant_result_to_val(Variant::VInteger(v).unary_not())),
            expected: Val::I((!(v as i16)) as i32),
        },
        Case::I2B(v) => Outcome {
            real: guarded(|| Val::B2(i32_to_bytes(v))),
            expected: Val::B2((v as i16).to_le_bytes()),
        },
        Case::B2I(lo, hi) => Outcome {
            real: guarded(|| Val::I(bytes_to_i32([lo, hi]))),
            expected: Val::I(i16::from_le_bytes([lo, hi]) as i32),
        },
        Case::IRound(v) => Outcome {
            real: guarded(|| Val::I(bytes_to_i32(i32_to_bytes(v)))),
            expected: Val::I(v),
        },
        Case::BRound(lo, hi) => Outcome {
            real: guarded(|| Val::B2(i32_to_bytes(bytes_to_i32([lo, hi])))),
            expected: Val::B2([lo, hi]),
        },
        Case::F2B(bits) => {
            let x = f64::from_bits(bits);
            Outcome {
                real: guarded(|| Val::B8(f64_to_bytes(x))),
                expected: Val::B8(x.to_bits().to_le_bytes()),
            }
        }
        Case::B2F(bits) => {
            let bytes = bits.to_le_bytes();
            Outcome {
                real: guarded(|| Val::F(bytes_to_f64(&bytes).to_bits())),
                expected: Val::F(f64::from_bits(u64::from_le_bytes(bytes)).to_bits()),
            }
        }
        Case::FRound(bits) => {
            let x = f64::from_bits(bits);
            Outcome {
                real: guarded(|| Val::F(bytes_to_f64(&f64_to_bytes(x)).to_bits())),
                expected: Val::F(bits),
            }
        }
    }
}

fn mix64(mut z: u64) -> u64 {
    z = z.wrapping_add(0x9E3779B97F4A7C15);
    z = (z ^ (z >> 30)).wrapping_mul(0xBF58476D1CE4E5B9);
    z = (z ^ (z >> 27)).wrapping_mul(0x94D049BB133111EB);
    z ^ (z >> 31)
}

fn evaluation_hash(case: Case, out: &Outcome) -> u64 {
    let (x, y): (u64, u64) = match case {
        Case::And(a, b) | Case::Or(a, b) | Case::VAnd(a, b) | Case::VOr(a, b) => (a as u32 as u64, b as u32 as u64),
        Case::VNot(v) | Case::I2B(v) | Case::IRound(v) => (v as u32 as u64, 0),
        Case::B2I(lo, hi) | Case::BRound(lo, hi) => (lo as u64, hi as u64),
        Case::F2B(b) | Case::B2F(b) | Case::FRound(b) => (b, 0),
    };
    let r: u64 = match &out.real {
        Ok(Val::I(i)) => *i as u32 as u64,
        Ok(Val::B2(b)) => u16::from_le_bytes(*b) as u64,
        Ok(Val::B8(b)) => u64::from_le_bytes(*b),
        Ok(Val::F(b)) => *b,
        Ok(Val::Other(s)) => s.bytes().fold(7u64, |h, c| mix64(h ^ c as u64)),
        Err(_) => 0xDEAD_BEEF_0BAD_F00D,
    };
    mix64(mix64(mix64(mix64(case.fn_id() as u64) ^ x) ^ y) ^ r)
}

/// Which IEEE fields differ, for the one line description only (not part of the signature).
fn field_diff(real: u64, expected: u64) -> String {
    let mut v = vec![];
    let d = real ^ expected;
    if d >> 63 != 0 {
        v.push("sign");
    }
    if (d >> 52) & 0x7ff != 0 {
        v.push("exponent");
    }
    if d & ((1u64 << 52) - 1) != 0 {
        v.push("mantissa");
    }
    v.join("+")
}

fn failure_class(case: Case, out: &Outcome) -> String {
    match &out.real {
        Err(p) => format!("panic:{}:{}", normalize_file(&p.file), normalize_msg(&p.msg)),
        Ok(real) => {
            let kind = match case {
                Case::IRound(..) | Case::BRound(..) | Case::FRound(..) => "roundtrip",
                Case::I2B(..) | Case::F2B(..) => "wrong_bytes",
                _ => match real {
                    Val::Other(_) => "unexpected_result_kind",
                    _ => "wrong_value",
                },
            };
            format!("{}:{}", kind, case.input_class())
        }
    }
}

fn failure_what(case: Case, out: &Outcome) -> String {
    let real = match &out.real {
        Ok(v) => v.show(),
        Err(p) => format!("PANIC '{}' at {}:{}", p.msg.replace('\n', " "), p.file, p.line),
    };
    let mut s = format!(
        "{}({}) real={} expected={}",
        case.fn_name(),
        case.args_human(),
        real,
        out.expected.show()
    );
    let diff = match (&out.real, &out.expected) {
        (Ok(Val::B8(r)), Val::B8(e)) => Some(field_diff(u64::from_le_bytes(*r), u64::from_le_bytes(*e))),
        (Ok(Val::F(r)), Val::F(e)) => Some(field_diff(*r, *e)),
        _ => None,
    };
    if let Some(d) = diff {
        let _ = write!(s, " differs_in={}", d);
    }
    s
}

// ---------------------------------------------------------------------------------------------
// statistics
// ---------------------------------------------------------------------------------------------

#[derive(Clone)]
struct Failure {
    sig: String,
    what: String,
    case: Case,
}

#[derive(Clone)]
struct SigInfo {
    count: u64,
    min_case: Case,
    min_what: String,
    max_case: Case,
    max_what: String,
}

const PER_SIG_KEEP: usize = 8;
const MAX_FAILURES: usize = 200;

#[derive(Default, Clone)]
struct Stats {
    calls: [u64; 12],
    mismatches: [u64; 12],
    panics: [u64; 12],
    /// number of distinct-or-not doubles checked per input class (counted on f64_to_bytes calls)
    double_classes: [u64; 5],
    /// order independent digest over (case, real result) of every evaluation; equal digests
    /// between two builds mean every single call returned the same thing
    digest: u64,
    /// at most PER_SIG_KEEP failures per signature, in encounter order
    failures: Vec<Failure>,
    sigs: BTreeMap<String, SigInfo>,
}

impl Stats {
    fn check(&mut self, case: Case) {
        let id = case.fn_id();
        self.calls[id] += 1;
        if let Case::F2B(b) = case {
            self.double_classes[f64_class_id(b)] += 1;
        }
        let out = eval(case);
        self.digest = self.digest.wrapping_add(evaluation_hash(case, &out));
        if out.ok() {
            return;
        }
        if out.real.is_err() {
            self.panics[id] += 1;
        } else {
            self.mismatches[id] += 1;
        }
        let sig = format!("{}:{}", case.fn_name(), failure_class(case, &out));
        let mag = case.magnitude();
        match self.sigs.get_mut(&sig) {
            Some(info) => {
                info.count += 1;
                if info.count as usize <= PER_SIG_KEEP {
                    self.failures.push(Failure { sig: sig.clone(), what: failure_what(case, &out), case });
                }
                if mag < info.min_case.magnitude() {
                    info.min_case = case;
                    info.min_what = failure_what(case, &out);
                }
                if mag > info.max_case.magnitude() {
                    info.max_case = case;
                    info.max_what = failure_what(case, &out);
                }
            }
            None => {
                let what = failure_what(case, &out);
                self.failures.push(Failure { sig: sig.clone(), what: what.clone(), case });
                self.sigs.insert(
                    sig,
                    SigInfo { count: 1, min_case: case, min_what: what.clone(), max_case: case, max_what: what },
                );
            }
        }
    }

    fn merge(&mut self, other: Stats) {
        for i in 0..12 {
            self.calls[i] += other.calls[i];
            self.mismatches[i] += other.mismatches[i];
            self.panics[i] += other.panics[i];
        }
        for i in 0..5 {
            self.double_classes[i] += other.double_classes[i];
        }
        self.digest = self.digest.wrapping_add(other.digest);
        for (sig, info) in other.sigs {
            match self.sigs.get_mut(&sig) {
                Some(mine) => {
                    mine.count += info.count;
                    if info.min_case.magnitude() < mine.min_case.magnitude() {
                        mine.min_case = info.min_case;
                        mine.min_what = info.min_what;
                    }
                    if info.max_case.magnitude() > mine.max_case.magnitude() {
                        mine.max_case = info.max_case;
                        mine.max_what = info.max_what;
                    }
                }
                None => {
                    self.sigs.insert(sig, info);
                }
            }
        }
        // keep at most PER_SIG_KEEP per signature over all
        let mut kept: BTreeMap<String, usize> = BTreeMap::new();
        for f in &self.failures {
            *kept.entry(f.sig.clone()).or_default() += 1;
        }
        for f in other.failures {
            let k = kept.entry(f.sig.clone()).or_default();
            if *k < PER_SIG_KEEP {
                *k += 1;
                self.failures.push(f);
            }
        }
    }

    fn check_int_pair(&mut self, a: i32, b: i32) {
        self.check(Case::And(a, b));
        self.check(Case::Or(a, b));
        self.check(Case::VAnd(a, b));
        self.check(Case::VOr(a, b));
    }

    fn check_double(&mut self, bits: u64) {
        self.check(Case::F2B(bits));
        self.check(Case::B2F(bits));
        self.check(Case::FRound(bits));
    }
}

// ---------------------------------------------------------------------------------------------
// workload
// ---------------------------------------------------------------------------------------------

struct SplitMix64(u64);

impl SplitMix64 {
    fn next(&mut self) -> u64 {
        self.0 = self.0.wrapping_add(0x9E3779B97F4A7C15);
        let mut z = self.0;
        z = (z ^ (z >> 30)).wrapping_mul(0xBF58476D1CE4E5B9);
        z = (z ^ (z >> 27)).wrapping_mul(0x94D049BB133111EB);
        z ^ (z >> 31)
    }
}

fn thread_rng(seed: u64, stream: u64, thread: u64) -> SplitMix64 {
    let mut s = SplitMix64(seed ^ stream.wrapping_mul(0xD6E8FEB86659FD93));
    let base = s.next();
    let mut t = SplitMix64(base ^ thread.wrapping_mul(0xA0761D6478BD642F));
    t.next();
    t
}

/// boundary / one-hot / complement / pattern / small set for the binary operations
fn special_ints() -> Vec<i32> {
    let mut v: Vec<i32> = vec![-32768, -32767, -1, 0, 1, 32766, 32767];
    for k in 0..16 {
        let one_hot = (1u16 << k) as i16;
        v.push(one_hot as i32);
        v.push((!one_hot) as i32);
        // low masks and high masks
        let low_mask = ((1u32 << (k + 1)) - 1) as u16 as i16;
        v.push(low_mask as i32);
        v.push((!low_mask) as i32);
    }
    for p in [0x5555u16, 0xAAAA, 0x3333, 0xCCCC, 0x0F0F, 0xF0F0, 0x00FF, 0xFF00, 0x8001, 0x7FFE, 0x0180, 0xFE7F] {
        v.push(p as i16 as i32);
    }
    for s in -8..=8 {
        v.push(s);
    }
    for s in [127, 128, 129, 255, 256, 257, -127, -128, -129, -255, -256, -257, 12345, -12345] {
        v.push(s);
    }
    v.sort();
    v.dedup();
    v
}

fn pow2_bits(e: i32) -> u64 {
    // 2^e for -1074 <= e <= 1023
    if e >= -1022 {
        ((e + 1023) as u64) << 52
    } else {
        1u64 << (e + 1074)
    }
}

/// structured doubles, as bit patterns of non-negative values; both signs are added by the caller
fn special_doubles_abs() -> Vec<u64> {
    let mut v: Vec<u64> = vec![];
    let mant_mask = (1u64 << 52) - 1;
    // zero
    v.push(0);
    // all powers of two, with neighbours
    for e in -1074..=1023 {
        let b = pow2_bits(e);
        v.push(b);
        if b > 0 {
            v.push(b - 1);
        }
        v.push(b + 1);
        // 1.5 * 2^e, 1.75 * 2^e and 1.11..1 * 2^e where representable as normal
        if e >= -1022 {
            v.push(b | (1u64 << 51));
            v.push(b | (3u64 << 50));
            v.push(b | mant_mask);
            v.push(b | 0x5_5555_5555_5555);
            v.push(b | 0xA_AAAA_AAAA_AAAA);
        }
    }
    // boundary mantissas
    v.push(1.0f64.to_bits() + 1);
    v.push(1.0f64.to_bits() - 1);
    v.push(f64::MAX.to_bits());
    v.push(f64::MAX.to_bits() - 1);
    v.push(f64::MIN_POSITIVE.to_bits());
    v.push(f64::MIN_POSITIVE.to_bits() + 1);
    v.push(f64::MIN_POSITIVE.to_bits() - 1); // largest subnormal
    v.push(1); // smallest subnormal
    v.push(2);
    v.push(3);
    v.push(f64::EPSILON.to_bits());
    // subnormals with one mantissa bit and dense patterns
    for k in 0..52 {
        v.push(1u64 << k);
        v.push((1u64 << k) | 1);
        v.push(mant_mask >> k);
    }
    // around and beyond 2^53, 2^63, 2^64
    for e in [52, 53, 54, 62, 63, 64, 65, 100, 127, 128, 511, 1023] {
        let b = pow2_bits(e);
        for d in 1..=4u64 {
            v.push(b - d);
            if e < 1023 {
                v.push(b + d);
            }
        }
    }
    for x in [
        9007199254740991.0f64,
        9007199254740992.0,
        9007199254740994.0,
        4611686018427387904.0,
        9223372036854774784.0,
        9223372036854775807.0,
        9223372036854775808.0,
        9223372036854777856.0,
        18446744073709551615.0,
        18446744073709551616.0,
        36893488147419103232.0,
        1e15,
        1e16,
        1e17,
        1e18,
        9.2e18,
        9.3e18,
        1e19,
        1e20,
        1e22,
        1e23,
        1e100,
        1e200,
        1e300,
        1e308,
        1.7976931348623157e308,
        1e-5,
        1e-10,
        1e-100,
        1e-300,
        1e-307,
        2.2250738585072014e-308,
        1e-308,
        1e-310,
        1e-320,
        5e-324,
        std::f64::consts::PI,
        std::f64::consts::E,
        1.0 / 3.0,
        2.0 / 3.0,
        0.1,
        0.2,
        0.3,
        32767.0,
        32768.0,
        65535.0,
        65536.0,
        2147483647.0,
        2147483648.0,
        4294967295.0,
        4294967296.0,
        16777216.0,
        16777217.0,
        3.4028234663852886e38,
    ] {
        v.push(x.to_bits());
    }
    // integers 0..=4096
    for i in 0..=4096 {
        v.push((i as f64).to_bits());
    }
    // fractions k/1024, k = 1..=4096
    for k in 1..=4096 {
        v.push((k as f64 / 1024.0).to_bits());
    }
    // decimal tenths as in the unit tests of the crate
    for i in 0..=100 {
        v.push((i as f64 * 0.1).to_bits());
    }
    v.retain(|b| (b >> 52) & 0x7ff != 0x7ff && b >> 63 == 0);
    v.sort();
    v.dedup();
    v
}

fn random_finite_double(rng: &mut SplitMix64) -> u64 {
    loop {
        let r = rng.next();
        // one in eight draws is forced into the subnormal range (exponent field 0)
        let sel = rng.next() & 7;
        let bits = if sel == 0 { r & !(0x7ffu64 << 52) } else { r };
        if (bits >> 52) & 0x7ff != 0x7ff {
            return bits;
        }
    }
}

struct Tier {
    name: &'static str,
    random_pairs: u64,
    random_doubles: u64,
    threads: u64,
}

struct RunResult {
    stats: Stats,
    exhaustive: Vec<(&'static str, bool)>,
    distinct: Vec<(&'static str, u64)>,
}

fn run_exhaustive_ints(stats: &mut Stats) {
    for v in -32768i32..=32767 {
        stats.check(Case::VNot(v));
        stats.check(Case::I2B(v));
        stats.check(Case::IRound(v));
    }
    for hi in 0..=255u8 {
        for lo in 0..=255u8 {
            stats.check(Case::B2I(lo, hi));
            stats.check(Case::BRound(lo, hi));
        }
    }
}

fn pair_key(a: i32, b: i32) -> u32 {
    (((a as i16 as u16) as u32) << 16) | ((b as i16 as u16) as u32)
}

fn count_distinct_nontrivial_pairs(keys: &mut Vec<u32>) -> (u64, u64, u64) {
    keys.sort_unstable();
    keys.dedup();
    let mut and_nt = 0;
    let mut or_nt = 0;
    for k in keys.iter() {
        let a = (k >> 16) as u16;
        let b = (k & 0xffff) as u16;
        let r = a & b;
        if r != a && r != b {
            and_nt += 1;
        }
        let r = a | b;
        if r != a && r != b {
            or_nt += 1;
        }
    }
    (keys.len() as u64, and_nt, or_nt)
}

fn run_full(tier: &Tier, seed: u64) -> RunResult {
    let mut stats = Stats::default();

    // exhaustive unary / conversion part
    run_exhaustive_ints(&mut stats);

    // structured pairs
    let specials = special_ints();
    let mut pair_keys: Vec<u32> = Vec::new();
    for &a in &specials {
        for &b in &specials {
            stats.check_int_pair(a, b);
            pair_keys.push(pair_key(a, b));
        }
    }

    // structured doubles
    let mut double_keys: Vec<u64> = Vec::new();
    for b in special_doubles_abs() {
        for bits in [b, b | (1u64 << 63)] {
            stats.check_double(bits);
            double_keys.push(bits);
        }
    }

    // random parts, fixed amount of work per thread so the result does not depend on scheduling
    let threads = tier.threads;
    let results: Vec<(Stats, Vec<u32>, Vec<u64>)> = std::thread::scope(|scope| {
        let handles: Vec<_> = (0..threads)
            .map(|t| {
                let n_pairs = tier.random_pairs / threads + if t < tier.random_pairs % threads { 1 } else { 0 };
                let n_doubles =
                    tier.random_doubles / threads + if t < tier.random_doubles % threads { 1 } else { 0 };
                scope.spawn(move || {
                    let mut st = Stats::default();
                    let mut pk = Vec::with_capacity(n_pairs as usize);
                    let mut dk = Vec::with_capacity(n_doubles as usize);
                    let mut rng = thread_rng(seed, 1, t);
                    for _ in 0..n_pairs {
                        let r = rng.next();
                        let a = (r as u16) as i16 as i32;
                        let b = ((r >> 16) as u16) as i16 as i32;
                        st.check_int_pair(a, b);
                        pk.push(pair_key(a, b));
                    }
                    let mut rng = thread_rng(seed, 2, t);
                    for _ in 0..n_doubles {
                        let bits = random_finite_double(&mut rng);
                        st.check_double(bits);
                        dk.push(bits);
                    }
                    (st, pk, dk)
                })
            })
            .collect();
        handles.into_iter().map(|h| h.join().expect("worker thread failed")).collect()
    });
    for (st, pk, dk) in results {
        stats.merge(st);
        pair_keys.extend(pk);
        double_keys.extend(dk);
    }

    let (distinct_pairs, and_nt, or_nt) = count_distinct_nontrivial_pairs(&mut pair_keys);
    double_keys.sort_unstable();
    double_keys.dedup();
    let doubles_nonzero = double_keys.iter().filter(|b| *b << 1 != 0).count() as u64;

    RunResult {
        stats,
        exhaustive: vec![
            ("not_i16", true),
            ("i32_to_bytes_i16", true),
            ("i32_bytes_roundtrip", true),
            ("bytes_to_i32_all_byte_pairs", true),
            ("bytes_i32_roundtrip_all_byte_pairs", true),
            ("and_or_all_pairs", false),
            ("doubles", false),
        ],
        distinct: vec![
            ("pairs_distinct", distinct_pairs),
            ("and_pairs_result_differs_from_both_inputs", and_nt),
            ("or_pairs_result_differs_from_both_inputs", or_nt),
            ("not_values", 65536),
            ("int_conversion_values_nonzero", 65535),
            ("byte_pairs_nonzero", 65535),
            ("doubles_distinct", double_keys.len() as u64),
            ("doubles_nonzero", doubles_nonzero),
        ],
    }
}

/// ~4000 evaluations, single threaded, deterministic; meant to run under Miri.
fn run_miri_subset() -> RunResult {
    let mut stats = Stats::default();
    // 16-bit values with a stride coprime to 65536, plus the boundaries: ~ 140 values * 5 checks
    let mut ints: Vec<i32> = vec![-32768, -32767, -1, 0, 1, 255, 256, 32766, 32767];
    let mut v: i32 = -32768;
    while v <= 32767 {
        ints.push(v);
        v += 499;
    }
    ints.sort();
    ints.dedup();
    for &v in &ints {
        stats.check(Case::VNot(v));
        stats.check(Case::I2B(v));
        stats.check(Case::IRound(v));
        let [lo, hi] = (v as i16).to_le_bytes();
        stats.check(Case::B2I(lo, hi));
        stats.check(Case::BRound(lo, hi));
    }
    // pairs: 24 x 24 x 4 checks
    let sp = special_ints();
    let step = sp.len() / 24 + 1;
    let sub: Vec<i32> = sp.iter().copied().step_by(step).chain([-32768, 32767, -1]).collect();
    let mut pair_keys = vec![];
    for &a in &sub {
        for &b in &sub {
            stats.check_int_pair(a, b);
            pair_keys.push(pair_key(a, b));
        }
    }
    // doubles: ~ 200 patterns x 3 checks
    let mut doubles: Vec<u64> = vec![0, 1 << 63, 1, f64::MIN_POSITIVE.to_bits() - 1, f64::MIN_POSITIVE.to_bits(), f64::MAX.to_bits()];
    let mut e = -1074;
    while e <= 1023 {
        doubles.push(pow2_bits(e));
        e += 37;
    }
    for e in [-1023, -1022, -2, -1, 0, 1, 2, 52, 53, 62, 63, 64, 1023] {
        doubles.push(pow2_bits(e));
        doubles.push(pow2_bits(e) | (1u64 << 63));
        doubles.push(pow2_bits(e) + 1);
    }
    for i in 0..=20 {
        doubles.push((i as f64).to_bits());
        doubles.push((-(i as f64) * 0.1).to_bits());
        doubles.push((i as f64 / 1024.0).to_bits());
    }
    let mut rng = thread_rng(12345, 3, 0);
    for _ in 0..60 {
        doubles.push(random_finite_double(&mut rng));
    }
    doubles.sort();
    doubles.dedup();
    for &b in &doubles {
        stats.check_double(b);
    }
    let (distinct_pairs, and_nt, or_nt) = count_distinct_nontrivial_pairs(&mut pair_keys);
    let nonzero = doubles.iter().filter(|b| *b << 1 != 0).count() as u64;
    RunResult {
        stats,
        exhaustive: vec![
            ("not_i16", false),
            ("i32_to_bytes_i16", false),
            ("i32_bytes_roundtrip", false),
            ("bytes_to_i32_all_byte_pairs", false),
            ("bytes_i32_roundtrip_all_byte_pairs", false),
            ("and_or_all_pairs", false),
            ("doubles", false),
        ],
        distinct: vec![
            ("pairs_distinct", distinct_pairs),
            ("and_pairs_result_differs_from_both_inputs", and_nt),
            ("or_pairs_result_differs_from_both_inputs", or_nt),
            ("not_values", ints.len() as u64),
            ("int_conversion_values_nonzero", ints.iter().filter(|v| **v != 0).count() as u64),
            ("byte_pairs_nonzero", ints.iter().filter(|v| **v != 0).count() as u64),
            ("doubles_distinct", doubles.len() as u64),
            ("doubles_nonzero", nonzero),
        ],
    }
}

// ---------------------------------------------------------------------------------------------
// JSON
// ---------------------------------------------------------------------------------------------

fn jstr(s: &str) -> String {
    let mut o = String::with_capacity(s.len() + 2);
    o.push('"');
    for c in s.chars() {
        match c {
            '"' => o.push_str("\\\""),
            '\\' => o.push_str("\\\\"),
            '\n' => o.push_str("\\n"),
            '\r' => o.push_str("\\r"),
            '\t' => o.push_str("\\t"),
            c if (c as u32) < 0x20 => {
                let _ = write!(o, "\\u{:04x}", c as u32);
            }
            c => o.push(c),
        }
    }
    o.push('"');
    o
}

fn jcase(case: Case) -> String {
    let args: Vec<String> = case.args().iter().map(|a| jstr(a)).collect();
    format!("{{\"fn\": {}, \"args\": [{}]}}", jstr(case.fn_name()), args.join(", "))
}

fn jsample(case: Case) -> String {
    let out = eval(case);
    let real = match &out.real {
        Ok(v) => v.show(),
        Err(p) => format!("PANIC {}", p.msg),
    };
    let args: Vec<String> = case.args().iter().map(|a| jstr(a)).collect();
    format!(
        "{{\"function\": {}, \"args\": [{}], \"real\": {}, \"expected\": {}}}",
        jstr(case.fn_name()),
        args.join(", "),
        jstr(&real),
        jstr(&out.expected.show())
    )
}

fn to_json(mode: &str, seed: u64, threads: u64, elapsed_ms: u128, r: &RunResult) -> String {
    let st = &r.stats;
    let evaluations: u64 = st.calls.iter().sum();
    // headline number: distinct non-trivial argument tuples
    let get = |k: &str| r.distinct.iter().find(|(n, _)| *n == k).map(|(_, v)| *v).unwrap_or(0);
    let distinct_nontrivial = get("and_pairs_result_differs_from_both_inputs")
        + get("or_pairs_result_differs_from_both_inputs")
        + get("not_values")
        + get("int_conversion_values_nonzero")
        + get("byte_pairs_nonzero")
        + get("doubles_nonzero");

    let mut s = String::new();
    s.push_str("{\n");
    let _ = writeln!(s, "  \"monitor\": \"bitmon\",");
    let _ = writeln!(s, "  \"property\": \"C19\",");
    let _ = writeln!(s, "  \"mode\": {},", jstr(mode));
    let _ = writeln!(s, "  \"seed\": {},", seed);
    let _ = writeln!(s, "  \"threads\": {},", threads);
    let _ = writeln!(s, "  \"debug_assertions\": {},", cfg!(debug_assertions));
    let _ = writeln!(s, "  \"miri\": {},", cfg!(miri));
    let _ = writeln!(s, "  \"elapsed_ms\": {},", elapsed_ms);
    let _ = writeln!(s, "  \"evaluations\": {},", evaluations);
    let _ = writeln!(s, "  \"evaluation_digest\": \"{:016x}\",", st.digest);
    let _ = writeln!(s, "  \"distinct_nontrivial\": {},", distinct_nontrivial);
    s.push_str("  \"distinct_nontrivial_breakdown\": {");
    s.push_str(&r.distinct.iter().map(|(k, v)| format!("{}: {}", jstr(k), v)).collect::<Vec<_>>().join(", "));
    s.push_str("},\n");
    s.push_str("  \"exhaustive\": {");
    s.push_str(&r.exhaustive.iter().map(|(k, v)| format!("{}: {}", jstr(k), v)).collect::<Vec<_>>().join(", "));
    s.push_str("},\n");
    s.push_str("  \"per_function\": {\n");
    for (i, name) in FN_NAMES.iter().enumerate() {
        let _ = writeln!(
            s,
            "    {}: {{\"calls\": {}, \"mismatches\": {}, \"panics\": {}}}{}",
            jstr(name),
            st.calls[i],
            st.mismatches[i],
            st.panics[i],
            if i + 1 < FN_NAMES.len() { "," } else { "" }
        );
    }
    s.push_str("  },\n");
    s.push_str("  \"double_input_classes_checked\": {");
    s.push_str(
        &DOUBLE_CLASS_NAMES
            .iter()
            .enumerate()
            .map(|(i, n)| format!("{}: {}", jstr(n), st.double_classes[i]))
            .collect::<Vec<_>>()
            .join(", "),
    );
    s.push_str("},\n");
    let total_failures: u64 = st.mismatches.iter().sum::<u64>() + st.panics.iter().sum::<u64>();
    let _ = writeln!(s, "  \"total_failures\": {},", total_failures);
    // samples
    let mut rng = thread_rng(seed, 1, 0);
    let r0 = rng.next();
    let mut rng2 = thread_rng(seed, 2, 0);
    let samples = [
        Case::And((r0 as u16) as i16 as i32, ((r0 >> 16) as u16) as i16 as i32),
        Case::I2B(-2),
        Case::F2B(random_finite_double(&mut rng2)),
    ];
    s.push_str("  \"samples\": [\n");
    for (i, c) in samples.iter().enumerate() {
        let _ = writeln!(s, "    {}{}", jsample(*c), if i + 1 < samples.len() { "," } else { "" });
    }
    s.push_str("  ],\n");
    // failures: round robin is not needed, per-signature cap already applied; cut at MAX_FAILURES
    let shown: Vec<&Failure> = st.failures.iter().take(MAX_FAILURES).collect();
    s.push_str("  \"failures\": [\n");
    for (i, f) in shown.iter().enumerate() {
        let _ = writeln!(
            s,
            "    {{\"sig\": {}, \"what\": {}, \"case\": {}}}{}",
            jstr(&f.sig),
            jstr(&f.what),
            jcase(f.case),
            if i + 1 < shown.len() { "," } else { "" }
        );
    }
    s.push_str("  ],\n");
    s.push_str("  \"failure_signature_counts\": {\n");
    let n = st.sigs.len();
    for (i, (sig, info)) in st.sigs.iter().enumerate() {
        let _ = writeln!(s, "    {}: {}{}", jstr(sig), info.count, if i + 1 < n { "," } else { "" });
    }
    s.push_str("  },\n");
    s.push_str("  \"signature_witnesses\": {\n");
    for (i, (sig, info)) in st.sigs.iter().enumerate() {
        let _ = writeln!(
            s,
            "    {}: {{\"smallest_magnitude\": {{\"what\": {}, \"case\": {}}}, \"largest_magnitude\": {{\"what\": {}, \"case\": {}}}}}{}",
            jstr(sig),
            jstr(&info.min_what),
            jcase(info.min_case),
            jstr(&info.max_what),
            jcase(info.max_case),
            if i + 1 < n { "," } else { "" }
        );
    }
    s.push_str("  }\n");
    s.push_str("}\n");
    s
}

// ---------------------------------------------------------------------------------------------
// replay and CLI
// ---------------------------------------------------------------------------------------------

fn parse_i16ish(s: &str) -> Result<i32, String> {
    let v: i64 = parse_int(s)?;
    if !(-32768..=32767).contains(&v) {
        return Err(format!("'{}' is outside the INTEGER range", s));
    }
    Ok(v as i32)
}

fn parse_int(s: &str) -> Result<i64, String> {
    let t = s.trim();
    let r = if let Some(h) = t.strip_prefix("0x").or_else(|| t.strip_prefix("0X")) {
        i64::from_str_radix(h, 16)
    } else {
        t.parse::<i64>()
    };
    r.map_err(|e| format!("cannot parse integer '{}': {}", s, e))
}

fn parse_byte(s: &str) -> Result<u8, String> {
    let v = parse_int(s)?;
    if !(0..=255).contains(&v) {
        return Err(format!("'{}' is not a byte", s));
    }
    Ok(v as u8)
}

fn parse_bits(s: &str) -> Result<u64, String> {
    let t = s.trim();
    let h = t.strip_prefix("0x").or_else(|| t.strip_prefix("0X")).unwrap_or(t);
    u64::from_str_radix(h, 16).map_err(|e| format!("cannot parse hex bit pattern '{}': {}", s, e))
}

fn parse_case(name: &str, args: &[String]) -> Result<Case, String> {
    let need = |n: usize| -> Result<(), String> {
        if args.len() == n {
            Ok(())
        } else {
            Err(format!("{} takes {} argument(s), got {}", name, n, args.len()))
        }
    };
    match name {
        "qb_and" | "qb_or" | "variant_and" | "variant_or" => {
            need(2)?;
            let a = parse_i16ish(&args[0])?;
            let b = parse_i16ish(&args[1])?;
            Ok(match name {
                "qb_and" => Case::And(a, b),
                "qb_or" => Case::Or(a, b),
                "variant_and" => Case::VAnd(a, b),
                _ => Case::VOr(a, b),
            })
        }
        "variant_not" | "i32_to_bytes" | "i32_roundtrip" => {
            need(1)?;
            let v = parse_i16ish(&args[0])?;
            Ok(match name {
                "variant_not" => Case::VNot(v),
                "i32_to_bytes" => Case::I2B(v),
                _ => Case::IRound(v),
            })
        }
        "bytes_to_i32" | "bytes_roundtrip" => {
            need(2)?;
            let lo = parse_byte(&args[0])?;
            let hi = parse_byte(&args[1])?;
            Ok(if name == "bytes_to_i32" { Case::B2I(lo, hi) } else { Case::BRound(lo, hi) })
        }
        "f64_to_bytes" | "bytes_to_f64" | "f64_roundtrip" => {
            need(1)?;
            let b = parse_bits(&args[0])?;
            Ok(match name {
                "f64_to_bytes" => Case::F2B(b),
                "bytes_to_f64" => Case::B2F(b),
                _ => Case::FRound(b),
            })
        }
        _ => Err(format!("unknown function '{}'; known: {}", name, FN_NAMES.join(", "))),
    }
}

fn replay(args: &[String]) -> i32 {
    if args.is_empty() {
        eprintln!("usage: bitmon --replay <fn> <args...>   (doubles as hex bit patterns)");
        return 2;
    }
    let case = match parse_case(&args[0], &args[1..]) {
        Ok(c) => c,
        Err(e) => {
            eprintln!("bitmon: {}", e);
            return 2;
        }
    };
    let out = eval(case);
    let real = match &out.real {
        Ok(v) => v.show(),
        Err(p) => format!("PANIC '{}' at {}:{}", p.msg.replace('\n', " "), p.file, p.line),
    };
    println!("case:     {}({})", case.fn_name(), case.args_human());
    println!("real:     {}", real);
    println!("expected: {}", out.expected.show());
    if out.ok() {
        println!("verdict:  OK");
        0
    } else {
        println!("verdict:  MISMATCH sig={}:{}", case.fn_name(), failure_class(case, &out));
        1
    }
}

fn usage() -> ! {
    eprintln!(
        "usage:\n  bitmon --tier quick|thorough [--seed N] [--out FILE] [--threads N]\n  bitmon --miri-subset [--out FILE]\n  bitmon --replay <fn> <args...>\nfunctions: {}",
        FN_NAMES.join(", ")
    );
    std::process::exit(2);
}

fn main() {
    install_silent_hook();
    let argv: Vec<String> = std::env::args().skip(1).collect();
    let mut tier_name: Option<String> = None;
    let mut seed: u64 = 1;
    let mut out: Option<String> = None;
    let mut threads: u64 = 16;
    let mut miri = false;
    let mut i = 0;
    while i < argv.len() {
        match argv[i].as_str() {
            "--replay" => {
                std::process::exit(replay(&argv[i + 1..]));
            }
            "--tier" => {
                i += 1;
                tier_name = Some(argv.get(i).cloned().unwrap_or_else(|| usage()));
            }
            "--seed" => {
                i += 1;
                seed = argv.get(i).and_then(|s| s.parse().ok()).unwrap_or_else(|| usage());
            }
            "--out" => {
                i += 1;
                out = Some(argv.get(i).cloned().unwrap_or_else(|| usage()));
            }
            "--threads" => {
                i += 1;
                threads = argv.get(i).and_then(|s| s.parse().ok()).filter(|t| *t >= 1).unwrap_or_else(|| usage());
            }
            "--miri-subset" => miri = true,
            _ => usage(),
        }
        i += 1;
    }

    let start = Instant::now();
    let (mode, result, used_threads) = if miri {
        ("miri-subset".to_string(), run_miri_subset(), 1)
    } else {
        let tier = match tier_name.as_deref() {
            Some("quick") => Tier { name: "quick", random_pairs: 200_000, random_doubles: 200_000, threads },
            Some("thorough") => Tier { name: "thorough", random_pairs: 5_000_000, random_doubles: 2_000_000, threads },
            _ => usage(),
        };
        (tier.name.to_string(), run_full(&tier, seed), threads)
    };
    let elapsed = start.elapsed().as_millis();
    let json = to_json(&mode, seed, used_threads, elapsed, &result);
    match &out {
        Some(path) => {
            if let Err(e) = std::fs::write(path, &json) {
                eprintln!("bitmon: cannot write {}: {}", path, e);
                std::process::exit(3);
            }
        }
        None => print!("{}", json),
    }
    let st = &result.stats;
    if cfg!(miri) {
        // Miri adds a random error of a few ULP to float intrinsics such as powi (which
        // bytes_to_f64 uses) unless told otherwise; results are only comparable with native
        // runs under MIRIFLAGS=-Zmiri-deterministic-floats.
        eprintln!(
            "bitmon: running under Miri; use MIRIFLAGS=-Zmiri-deterministic-floats, otherwise powi gets random rounding error"
        );
    }
    eprintln!(
        "bitmon {}: {} evaluations, {} mismatches, {} panics, {} signatures, {} ms",
        mode,
        st.calls.iter().sum::<u64>(),
        st.mismatches.iter().sum::<u64>(),
        st.panics.iter().sum::<u64>(),
        st.sigs.len(),
        elapsed
    );
    for (sig, info) in &st.sigs {
        eprintln!("  {:>9}  {}", info.count, sig);
    }
}
