//! Denotational model of the DOCUMENTED semantics of the rusty_pc combinators.
//!
//! Sources: the doc comments in rusty_pc/src/*.rs and the property statement (C20):
//!  * a soft failure under and / or / filter / filter_map / peek / to_option / or_default /
//!    many / many_ctx / optional surround leaves the input where the combinator started
//!    (`restore` below), whatever the failing child did with the position;
//!  * a fatal error always propagates unchanged (except `map_fatal_err`, which replaces it);
//!  * choice tries every alternative from the original position, first success wins;
//!  * repetition returns the maximal run of successes;
//!  * delimited lists reject a trailing delimiter with the given fatal error.
//! Documented exceptions: `and_then` / `and_then_err` do not backtrack when the mapper fails
//! softly; `seqN`, `then_with_in_context` and mandatory `surround` turn later errors into fatal.
//! Where the documentation is silent (position after a soft failure of seq / then_with /
//! mandatory surround / delimited, which soft error a choice reports, a missing optional
//! boundary) the child's position / error simply flows through.
use crate::expr::{Expr, Op};
use crate::types::*;

/// Model outcome: like `Res` but private to the evaluation (Div = fuel exhausted).
pub enum M {
    Ok(Val, usize),
    Soft(u8, usize),
    Fatal(u8),
    Div,
}
use M::*;

pub fn run(e: &Expr, input: &[char], fuel: u32) -> Res {
    let mut fuel = fuel;
    let ctx = root_ctx();
    match eval(e, input, 0, Some(&ctx), &mut fuel) {
        Ok(v, p) => Res::Ok(v, p),
        Soft(e, p) => Res::Soft(e, p),
        Fatal(e) => Res::Fatal(e),
        Div => Res::Diverged,
    }
}

fn in_set(c: char, set: &str) -> bool {
    set.contains(c)
}

fn one_of(input: &[char], pos: usize, set: &str) -> M {
    match input.get(pos) {
        Some(c) if in_set(*c, set) => Ok(Val::C(*c), pos + 1),
        _ => Soft(E_DEFAULT, pos),
    }
}

fn many_str(input: &[char], pos: usize, set: &str) -> M {
    let mut p = pos;
    let mut s = String::new();
    while p < input.len() && in_set(input[p], set) {
        s.push(input[p]);
        p += 1;
    }
    if s.is_empty() { Soft(E_DEFAULT, pos) } else { Ok(Val::S(s), p) }
}

/// Repetition: the maximal run of successes; a soft failure of the element ends the run and
/// leaves the input after the last success.
fn many(kid: &Expr, input: &[char], pos: usize, ctx: Option<&Val>, fuel: &mut u32, allow_none: bool, with_ctx: bool) -> M {
    let mut cur = pos;
    let mut vals: Vec<Val> = vec![];
    let mut kid_ctx = Val::default();
    loop {
        let c = if with_ctx { Some(&kid_ctx) } else { ctx };
        match eval(kid, input, cur, c, fuel) {
            Ok(v, p) => {
                if shortcut() && p == cur && (!with_ctx || ctx_project(&v) == kid_ctx) {
                    return Div; // the identical iteration (same position, same context) would repeat forever
                }
                cur = p;
                if with_ctx {
                    kid_ctx = ctx_project(&v);
                }
                vals.push(v);
            }
            Soft(e, _) => {
                return if vals.is_empty() && !allow_none { Soft(e, pos) } else { Ok(Val::L(vals), cur) };
            }
            Fatal(e) => return Fatal(e),
            Div => return Div,
        }
    }
}

/// `element (delimiter element)*`; a delimiter that is not followed by an element is the
/// trailing delimiter (fatal). With `allow_missing` every element is optional, but the list
/// must still end with an element. Nothing at all is a soft failure (default parse error).
fn delimited(e: &Expr, input: &[char], pos: usize, ctx: Option<&Val>, fuel: &mut u32, allow_missing: bool) -> M {
    let mut cur = pos;
    let mut vals: Vec<Val> = vec![];
    let mut last_was_delimiter = false;
    loop {
        let iteration_start = cur;
        // element
        let mut have_element = false;
        match eval(&e.kids[0], input, cur, ctx, fuel) {
            Ok(v, p) => {
                vals.push(if allow_missing { Val::O(Some(Box::new(v))) } else { v });
                cur = p;
                have_element = true;
                last_was_delimiter = false;
            }
            Soft(_, p) => cur = p,
            Fatal(e) => return Fatal(e),
            Div => return Div,
        }
        // delimiter
        match eval(&e.kids[1], input, cur, ctx, fuel) {
            Ok(_, p) => {
                if !have_element {
                    if allow_missing {
                        vals.push(Val::O(None));
                    } else {
                        // a delimiter without an element before it
                        return Fatal(E_TRAILING);
                    }
                }
                cur = p;
                last_was_delimiter = true;
                if shortcut() && cur == iteration_start {
                    return Div; // the identical iteration would repeat forever
                }
            }
            Soft(_, p) => {
                cur = p;
                break;
            }
            Fatal(e) => return Fatal(e),
            Div => return Div,
        }
    }
    if last_was_delimiter {
        Fatal(E_TRAILING)
    } else if vals.is_empty() {
        Soft(E_DEFAULT, cur)
    } else {
        Ok(Val::L(vals), cur)
    }
}

pub fn eval(e: &Expr, input: &[char], pos: usize, ctx: Option<&Val>, fuel: &mut u32) -> M {
    if *fuel == 0 {
        return Div;
    }
    *fuel -= 1;
    // shorthand: evaluate child i with the context it sees
    macro_rules! kid {
        ($i:expr, $pos:expr) => {
            eval(&e.kids[$i], input, $pos, ctx, fuel)
        };
    }
    match e.op {
        // ---------------- primitives
        Op::Any => match input.get(pos) {
            Some(c) => Ok(Val::C(*c), pos + 1),
            None => Soft(E_DEFAULT, pos),
        },
        Op::PeekAny => match input.get(pos) {
            Some(c) => Ok(Val::C(*c), pos),
            None => Soft(E_DEFAULT, pos),
        },
        Op::OneA => one_of(input, pos, "a"),
        Op::OneB => one_of(input, pos, "b"),
        Op::OneOfAB => one_of(input, pos, "ab"),
        Op::ManyStrA => many_str(input, pos, "a"),
        Op::ManyStrAB => many_str(input, pos, "ab"),
        Op::StrA => match one_of(input, pos, "a") {
            Ok(_, p) => Ok(Val::S("a".to_string()), p),
            other => other,
        },
        Op::Sup => Ok(Val::C('k'), pos),
        Op::ErrSoft => Soft(E_SOFT_LEAF, pos),
        Op::ErrFatal => Fatal(E_FATAL_LEAF),
        Op::Ctx => Ok(ctx.expect("ctx without context: invalid expression").clone(), pos),

        // ---------------- unary
        Op::FilterHasA | Op::FilterNever | Op::FilterMapHasA => match kid!(0, pos) {
            Ok(v, p) => {
                let keep = e.op != Op::FilterNever && has_a(&v);
                if !keep {
                    Soft(E_DEFAULT, pos)
                } else if e.op == Op::FilterMapHasA {
                    Ok(Val::S(v.to_string()), p)
                } else {
                    Ok(v, p)
                }
            }
            Soft(err, _) => Soft(err, pos), // restore
            other => other,
        },
        Op::Peek => match kid!(0, pos) {
            Ok(v, _) => Ok(v, pos),
            Soft(err, _) => Soft(err, pos), // restore
            other => other,
        },
        Op::Opt => match kid!(0, pos) {
            Ok(v, p) => Ok(Val::O(Some(Box::new(v))), p),
            Soft(_, _) => Ok(Val::O(None), pos), // restore
            other => other,
        },
        Op::Dflt => match kid!(0, pos) {
            Soft(_, _) => Ok(Val::N, pos), // restore
            other => other,
        },
        Op::Many | Op::OneOrMore => many(&e.kids[0], input, pos, ctx, fuel, false, false),
        Op::Many0 => many(&e.kids[0], input, pos, ctx, fuel, true, false),
        Op::Many0C => match many(&e.kids[0], input, pos, ctx, fuel, true, false) {
            // with a custom combiner "none" is the default value of the output type
            Ok(Val::L(v), p) if v.is_empty() => Ok(Val::N, p),
            other => other,
        },
        Op::ManyCtx => many(&e.kids[0], input, pos, ctx, fuel, false, true),
        Op::ManyCtx0 => match many(&e.kids[0], input, pos, ctx, fuel, true, true) {
            Ok(Val::L(v), p) if v.is_empty() => Ok(Val::N, p),
            other => other,
        },
        // documented: no backtracking when the mapper fails softly
        Op::AndThenS | Op::AndThenF => match kid!(0, pos) {
            Ok(v, p) => {
                if has_a(&v) {
                    Ok(v, p)
                } else if e.op == Op::AndThenS {
                    Soft(E_ANDTHEN_S, p)
                } else {
                    Fatal(E_ANDTHEN_F)
                }
            }
            other => other,
        },
        Op::AndThenErrOk | Op::AndThenErrS | Op::AndThenErrF => match kid!(0, pos) {
            Soft(_, p) => match e.op {
                Op::AndThenErrOk => Ok(Val::S("r".to_string()), p),
                Op::AndThenErrS => Soft(E_ANDTHENERR_S, p),
                _ => Fatal(E_ANDTHENERR_F),
            },
            other => other,
        },
        Op::Map => match kid!(0, pos) {
            Ok(v, p) => Ok(Val::S(v.to_string()), p),
            other => other,
        },
        Op::Unit => match kid!(0, pos) {
            Ok(_, p) => Ok(Val::N, p),
            other => other,
        },
        Op::ExpectS | Op::ExpectF | Op::WithSoftErr | Op::OrFail => match kid!(0, pos) {
            Soft(_, p) => match e.op {
                Op::ExpectS => Soft(E_EXPECT_S, p),
                Op::ExpectF => Fatal(E_EXPECT_F),
                Op::WithSoftErr => Soft(E_WITH_SOFT, p),
                _ => Fatal(E_OR_FAIL),
            },
            other => other,
        },
        // "If the parser returns a soft error, the error is returned as-is."
        Op::MapFatal => match kid!(0, pos) {
            Fatal(_) => Fatal(E_MAPFATAL),
            other => other,
        },
        Op::ToFatal => match kid!(0, pos) {
            Soft(err, _) => Fatal(err),
            other => other,
        },
        Op::Lazy | Op::Boxed => kid!(0, pos),
        Op::NoCtx => eval(&e.kids[0], input, pos, None, fuel),
        Op::MapCtx => {
            let c = ctx.map(ctx_flip);
            eval(&e.kids[0], input, pos, c.as_ref(), fuel)
        }

        // ---------------- binary
        Op::And | Op::AndL | Op::AndR => match kid!(0, pos) {
            Ok(l, p1) => match kid!(1, p1) {
                Ok(r, p2) => Ok(
                    match e.op {
                        Op::And => Val::T(Box::new(l), Box::new(r)),
                        Op::AndL => l,
                        _ => r,
                    },
                    p2,
                ),
                Soft(err, _) => Soft(err, pos), // documented: parsing of the left side is undone
                other => other,
            },
            Soft(err, _) => Soft(err, pos), // restore
            other => other,
        },
        Op::Or | Op::OrList => {
            let mut last = Soft(E_DEFAULT, pos);
            for i in 0..e.kids.len() {
                // every alternative starts from the original position
                match kid!(i, pos) {
                    Soft(err, _) => last = Soft(err, pos), // restore
                    other => return other,
                }
            }
            last
        }
        Op::ThenWith => match kid!(0, pos) {
            Ok(l, p1) => match eval(&e.kids[1], input, p1, Some(&l), fuel) {
                Ok(r, p2) => Ok(Val::T(Box::new(l), Box::new(r)), p2),
                Soft(err, _) | Fatal(err) => Fatal(err), // right side is 'complete'
                Div => Div,
            },
            other => other,
        },
        Op::Delim => delimited(e, input, pos, ctx, fuel, false),
        Op::Delim0 => delimited(e, input, pos, ctx, fuel, true),
        Op::Iif | Op::Flatten => {
            let truth = ctx_truth(ctx.expect("iif/flatten without context: invalid expression"));
            eval(&e.kids[if truth { 0 } else { 1 }], input, pos, None, fuel)
        }

        // ---------------- n-ary
        Op::Seq => {
            let mut cur = pos;
            let mut vals = vec![];
            for i in 0..e.kids.len() {
                match eval(&e.kids[i], input, cur, None, fuel) {
                    Ok(v, p) => {
                        vals.push(v);
                        cur = p;
                    }
                    Soft(err, p) => return if i == 0 { Soft(err, p) } else { Fatal(err) },
                    other => return other,
                }
            }
            Ok(Val::L(vals), cur)
        }
        Op::SurroundM => match kid!(0, pos) {
            // left boundary missing: soft
            Ok(_, p1) => match kid!(1, p1) {
                Ok(v, p2) => match kid!(2, p2) {
                    Ok(_, p3) => Ok(v, p3),
                    Soft(err, _) | Fatal(err) => Fatal(err),
                    Div => Div,
                },
                Soft(err, _) | Fatal(err) => Fatal(err),
                Div => Div,
            },
            other => other,
        },
        Op::SurroundO => {
            let p1 = match kid!(0, pos) {
                Ok(_, p) => p,
                Soft(_, p) => p, // boundary missing, parse the content anyway
                other => return other,
            };
            match kid!(1, p1) {
                Ok(v, p2) => match kid!(2, p2) {
                    Ok(_, p3) => Ok(v, p3),
                    Soft(_, p3) => Ok(v, p3),
                    other => other,
                },
                Soft(err, _) => Soft(err, pos), // documented: the left boundary is reverted
                other => other,
            }
        }
    }
}
