//! Builds the REAL rusty_pc parser for an expression; every node is wrapped in an observer
//! (`Obs`) that counts fuel, records the node trace and checks the local contract clauses online.
use std::cell::{Cell, RefCell};
use std::panic::{AssertUnwindSafe, catch_unwind};
use std::rc::Rc;

use rusty_pc::boxed::BoxedParser;
use rusty_pc::many::ManyCombiner;
use rusty_pc::many_ctx::ManyCtxParser;
use rusty_pc::text::{many_str, one_char_to_str};
use rusty_pc::{
    IifCtxParser, Or, OrParser, Parser, SurroundMode, ctx_parser, err_supplier, lazy, one_of_p, one_p, peek_p, read_p, seq2, seq3, seq4, seq5, seq6, supplier, surround
};

use crate::expr::{Expr, N_OPS, Op};
use crate::types::*;

pub type P = BoxedParser<Inp, Val, Val, PErr>;
type DynP = Box<dyn Parser<Inp, Val, Output = Val, Error = PErr>>;

pub const OK: u8 = 0;
pub const SOFT: u8 = 1;
pub const FATAL: u8 = 2;

pub fn class_name(c: u8) -> &'static str {
    ["ok", "soft", "fatal"][c as usize]
}

/// One observation of a node invocation.
#[derive(Clone, Debug)]
pub struct Ev {
    pub id: usize,
    pub depth: usize,
    pub before: usize,
    pub after: usize,
    pub class: u8,
    pub err: u8,
    pub val: Option<Val>,
}

/// What a parent remembers about one invocation of a child.
struct KidEv {
    idx: usize,
    before: usize,
    after: usize,
    class: u8,
    err: u8,
    /// structural hash of the value (only recorded for parents whose monitor needs it)
    val: u64,
    /// many_ctx parents: the context projection of the value is 'a'
    proj_a: bool,
}

struct Frame {
    id: usize,
    before: usize,
    kids: Vec<KidEv>,
    /// a strict descendant returned a soft error with position-after != position-before
    desc_moved_soft: bool,
}

/// A local contract violation, reported by the node that commits it.
#[derive(Clone, Debug)]
pub struct Viol {
    pub op: Op,
    pub clause: &'static str,
    pub moved_soft_child: bool,
    pub node: usize,
    pub before: usize,
    pub after: usize,
    pub class: u8,
}

impl Viol {
    pub fn what(&self) -> String {
        format!(
            "node {} ({}) violates '{}': entered at {}, returned {} at {}{}",
            self.node,
            self.op.name(),
            self.clause,
            self.before,
            class_name(self.class),
            self.after,
            if self.moved_soft_child { " (a descendant failed softly after consuming)" } else { "" }
        )
    }
}

#[derive(Clone, Copy, Default)]
pub struct Stat {
    pub runs: u64,
    pub ok: u64,
    pub soft: u64,
    pub fatal: u64,
    pub backtracks: u64,
}

/// State shared by all observers of one compiled parser.
pub struct St {
    ops: Vec<Op>,
    kidx: Vec<usize>,
    arity: Vec<usize>,
    fuel: Cell<u32>,
    pub exhausted: Cell<bool>,
    stack: RefCell<Vec<Frame>>,
    pool: RefCell<Vec<Vec<KidEv>>>,
    pub trace_on: Cell<bool>,
    pub trace: RefCell<Vec<Ev>>,
    pub viol: RefCell<Vec<Viol>>,
    pub stats: RefCell<Vec<Stat>>,
    pub events: Cell<u64>,
    /// some combinator node observed a child failure or a backtrack (sticky over runs)
    pub nontrivial: Cell<bool>,
    /// some node of the current run returned a soft error after moving the position
    pub moved_soft: Cell<bool>,
}

fn needs_kid_values(op: Op) -> bool {
    matches!(op, Op::Or | Op::OrList | Op::Many | Op::OneOrMore | Op::Many0 | Op::Many0C | Op::ManyCtx | Op::ManyCtx0)
}

/// Combinators for which the property demands "a soft failure leaves the input where it started".
fn restores_on_soft(op: Op) -> bool {
    matches!(
        op,
        Op::And
            | Op::AndL
            | Op::AndR
            | Op::Or
            | Op::OrList
            | Op::FilterHasA
            | Op::FilterNever
            | Op::FilterMapHasA
            | Op::Peek
            | Op::Opt
            | Op::Dflt
            | Op::Many
            | Op::OneOrMore
            | Op::Many0
            | Op::Many0C
            | Op::ManyCtx
            | Op::ManyCtx0
            | Op::SurroundO
    )
}

impl St {
    fn new(e: &Expr) -> St {
        let n = e.size();
        let mut ops = vec![Op::Any; n];
        let mut kidx = vec![0; n];
        let mut arity = vec![0; n];
        fn fill(e: &Expr, ops: &mut [Op], kidx: &mut [usize], arity: &mut [usize]) {
            ops[e.id] = e.op;
            arity[e.id] = e.kids.len();
            for (i, k) in e.kids.iter().enumerate() {
                kidx[k.id] = i;
                fill(k, ops, kidx, arity);
            }
        }
        fill(e, &mut ops, &mut kidx, &mut arity);
        St {
            ops,
            kidx,
            arity,
            fuel: Cell::new(0),
            exhausted: Cell::new(false),
            stack: RefCell::new(Vec::new()),
            pool: RefCell::new(Vec::new()),
            trace_on: Cell::new(false),
            trace: RefCell::new(Vec::new()),
            viol: RefCell::new(Vec::new()),
            stats: RefCell::new(vec![Stat::default(); N_OPS]),
            events: Cell::new(0),
            nontrivial: Cell::new(false),
            moved_soft: Cell::new(false),
        }
    }

    pub fn fuel_left(&self) -> u32 {
        self.fuel.get()
    }

    fn reset(&self, fuel: u32) {
        self.fuel.set(fuel);
        self.exhausted.set(false);
        self.moved_soft.set(false);
        self.stack.borrow_mut().clear();
        self.trace.borrow_mut().clear();
        self.viol.borrow_mut().clear();
    }

    /// Called when a node is about to run at `pos`: is the parent a repetition that has just
    /// completed an iteration without any progress and is now starting the identical iteration
    /// again? The sub-parsers are deterministic in (position, context) and the context of a plain
    /// `many` / `delimited_by` element cannot change during the loop, so the loop can never end.
    /// The real loop has demonstrably continued (this very invocation), so nothing is assumed
    /// about the combinator under test. For `many_ctx` the context of the iteration is part of the state.
    fn no_progress(&self, pos: usize) -> bool {
        let stack = self.stack.borrow();
        let Some(parent) = stack.last() else { return false };
        match self.ops[parent.id] {
            Op::Many | Op::OneOrMore | Op::Many0 | Op::Many0C => {
                matches!(parent.kids.last(), Some(k) if k.class == OK && k.before == pos && k.after == pos)
            }
            // many_ctx: the last iteration ran with the context projected from the one before;
            // if it produced the same projection without progress, the next one is identical
            Op::ManyCtx | Op::ManyCtx0 => {
                let n = parent.kids.len();
                n >= 2 && {
                    let (k1, k2) = (&parent.kids[n - 2], &parent.kids[n - 1]);
                    k1.class == OK
                        && k2.class == OK
                        && k1.after == pos
                        && k2.before == pos
                        && k2.after == pos
                        && k1.proj_a == k2.proj_a
                }
            }
            Op::Delim | Op::Delim0 => {
                let n = parent.kids.len();
                n >= 2 && {
                    let (el, d) = (&parent.kids[n - 2], &parent.kids[n - 1]);
                    el.idx == 0 && d.idx == 1 && d.class == OK && el.before == pos && d.after == pos
                }
            }
            _ => false,
        }
    }

    fn enter(&self, id: usize, before: usize) {
        let kids = self.pool.borrow_mut().pop().unwrap_or_default();
        self.stack.borrow_mut().push(Frame { id, before, kids, desc_moved_soft: false });
    }

    fn exit(&self, result: &Result<Val, PErr>, after: usize) {
        let mut frame = self.stack.borrow_mut().pop().expect("observer stack underflow");
        let depth = self.stack.borrow().len();
        if !self.exhausted.get() {
            let op = self.ops[frame.id];
            let (class, err) = match result {
                Ok(_) => (OK, 0),
                Err(PErr::Soft(e)) => (SOFT, *e),
                Err(PErr::Fatal(e)) => (FATAL, *e),
            };
            self.events.set(self.events.get() + 1);
            let moved_soft_here = class == SOFT && after != frame.before;
            if moved_soft_here {
                self.moved_soft.set(true);
            }
            // statistics
            let mut backtrack = false;
            let mut kid_failed = false;
            let mut prev_after = frame.before;
            for k in frame.kids.iter() {
                if k.after > after || k.before < prev_after {
                    backtrack = true;
                }
                if k.class != OK {
                    kid_failed = true;
                }
                prev_after = k.after;
            }
            {
                let mut stats = self.stats.borrow_mut();
                let s = &mut stats[op as usize];
                s.runs += 1;
                match class {
                    OK => s.ok += 1,
                    SOFT => s.soft += 1,
                    _ => s.fatal += 1,
                }
                if backtrack {
                    s.backtracks += 1;
                }
            }
            if backtrack || kid_failed {
                self.nontrivial.set(true);
            }
            // local contract clauses
            self.check(op, &frame, result, class, err, after);
            // tell the parent
            if let Some(parent) = self.stack.borrow_mut().last_mut() {
                let val = match result {
                    Ok(v) if needs_kid_values(self.ops[parent.id]) => vhash(v),
                    _ => 0,
                };
                parent.desc_moved_soft |= frame.desc_moved_soft || moved_soft_here;
                let proj_a = match result {
                    Ok(v) if matches!(self.ops[parent.id], Op::ManyCtx | Op::ManyCtx0) => has_a(v),
                    _ => false,
                };
                parent.kids.push(KidEv { idx: self.kidx[frame.id], before: frame.before, after, class, err, val, proj_a });
            }
            if self.trace_on.get() {
                self.trace.borrow_mut().push(Ev {
                    id: frame.id,
                    depth,
                    before: frame.before,
                    after,
                    class,
                    err,
                    val: result.as_ref().ok().cloned(),
                });
            }
        }
        frame.kids.clear();
        self.pool.borrow_mut().push(frame.kids);
    }

    /// The per-node monitor. `f.kids` are the invocations of the children during this invocation.
    fn check(&self, op: Op, f: &Frame, result: &Result<Val, PErr>, class: u8, err: u8, after: usize) {
        let before = f.before;
        let kids = &f.kids;
        let report = |clause: &'static str| {
            self.viol.borrow_mut().push(Viol {
                op,
                clause,
                moved_soft_child: f.desc_moved_soft,
                node: f.id,
                before,
                after,
                class,
            });
        };

        // (b) a child's fatal error is never swallowed or downgraded, and nothing runs after it
        for (i, k) in kids.iter().enumerate() {
            if k.class == FATAL && (i + 1 != kids.len() || class != FATAL) {
                report("fatal-not-propagated");
                break;
            }
        }
        // (c) a success never moves the position backwards; peek does not move it at all
        if class == OK {
            if op == Op::Peek {
                if after != before {
                    report("peek-moved");
                }
            } else if after < before {
                report("ok-moved-back");
            }
        }
        // (a) a soft failure leaves the position where it started
        if class == SOFT && restores_on_soft(op) && after != before {
            report("soft-moved");
        }

        match op {
            // (a) for the absorbing decorators: the child's soft failure becomes a success at the start
            Op::Opt | Op::Dflt => {
                if let Some(k) = kids.last() {
                    if k.class == SOFT {
                        if class != OK {
                            report("soft-not-absorbed");
                        } else if after != before {
                            report("absorbed-soft-moved");
                        }
                    }
                }
            }
            // (d) first alternative that succeeds from the original position
            Op::Or | Op::OrList => {
                for (i, k) in kids.iter().enumerate() {
                    if k.idx != i {
                        report("alternatives-out-of-order");
                        break;
                    }
                    if k.before != before {
                        report("alternative-not-from-origin");
                        break;
                    }
                    let last = i + 1 == kids.len();
                    if k.class == OK {
                        let same = matches!(result, Ok(v) if vhash(v) == k.val) && after == k.after;
                        if !last || !same {
                            report("not-first-success");
                            break;
                        }
                    } else if k.class == SOFT {
                        if last && class != SOFT {
                            report("all-soft-but-not-soft");
                            break;
                        }
                    }
                }
                // every alternative must have been tried before giving up softly
                if class == SOFT {
                    let tried = kids.len();
                    let total = self.arity_of(f.id);
                    if tried < total {
                        report("alternative-skipped");
                    }
                }
            }
            // (e) exactly the maximal run of successes
            Op::Many | Op::OneOrMore | Op::Many0 | Op::Many0C | Op::ManyCtx | Op::ManyCtx0 => {
                let allow_none = matches!(op, Op::Many0 | Op::Many0C | Op::ManyCtx0);
                let mut cur = before;
                let mut vals: Vec<u64> = vec![];
                let mut terminal: Option<u8> = None;
                let mut shape_ok = true;
                for k in kids.iter() {
                    if terminal.is_some() {
                        shape_ok = false; // something ran after the element had failed
                        break;
                    }
                    if k.before != cur {
                        report("run-not-contiguous");
                        shape_ok = false;
                        break;
                    }
                    if k.class == OK {
                        cur = k.after;
                        vals.push(k.val);
                    } else {
                        terminal = Some(k.class);
                    }
                }
                if !shape_ok && terminal.is_some() {
                    report("continued-after-failure");
                }
                if shape_ok && class == OK {
                    if terminal != Some(SOFT) {
                        report("stopped-before-failure"); // not maximal
                    }
                    let value_ok = match result {
                        Ok(Val::L(v)) => v.len() == vals.len() && v.iter().zip(vals.iter()).all(|(a, b)| vhash(a) == *b),
                        Ok(Val::N) => vals.is_empty(),
                        _ => false,
                    };
                    if !value_ok {
                        report("value-not-the-run");
                    }
                    if after != cur {
                        report("end-not-after-last-success");
                    }
                    if vals.is_empty() && !allow_none {
                        report("empty-run-accepted");
                    }
                }
                if shape_ok && terminal == Some(SOFT) {
                    if vals.is_empty() && !allow_none {
                        if class != SOFT {
                            report("empty-run-not-soft");
                        }
                    } else if class != OK {
                        report("run-not-returned");
                    }
                }
            }
            // (f) a trailing delimiter is rejected fatally
            Op::Delim | Op::Delim0 => {
                let child_fatal = kids.iter().any(|k| k.class == FATAL);
                if !child_fatal {
                    let last_ok = kids.iter().rev().find(|k| k.class == OK);
                    match last_ok {
                        Some(k) if k.idx == 1 => {
                            // the last thing parsed was a delimiter
                            if class == OK {
                                report("trailing-delimiter-accepted");
                            } else if class == SOFT {
                                report("trailing-delimiter-soft");
                            } else if err != E_TRAILING {
                                report("trailing-delimiter-wrong-error");
                            }
                        }
                        Some(_) => {
                            if class != OK {
                                report("list-not-returned");
                            }
                        }
                        None => {
                            if class == OK {
                                report("empty-list-accepted");
                            }
                        }
                    }
                }
            }
            // documented: soft and ok are returned as-is, a fatal error is replaced
            Op::MapFatal => {
                if let Some(k) = kids.last() {
                    if k.class == SOFT && !(class == SOFT && err == k.err) {
                        report("soft-not-returned-as-is");
                    }
                    if k.class == FATAL && !(class == FATAL && err == E_MAPFATAL) {
                        report("fatal-not-replaced");
                    }
                }
            }
            // documented: a soft error becomes fatal (the same error)
            Op::ToFatal => {
                if let Some(k) = kids.last() {
                    if k.class == SOFT && !(class == FATAL && err == k.err) {
                        report("soft-not-made-fatal");
                    }
                }
            }
            // documented: a soft error is replaced by the given error
            Op::ExpectS | Op::ExpectF | Op::WithSoftErr | Op::OrFail => {
                if let Some(k) = kids.last() {
                    let expected = match op {
                        Op::ExpectS => (SOFT, E_EXPECT_S),
                        Op::ExpectF => (FATAL, E_EXPECT_F),
                        Op::WithSoftErr => (SOFT, E_WITH_SOFT),
                        _ => (FATAL, E_OR_FAIL),
                    };
                    if k.class == SOFT && (class, err) != expected {
                        report("soft-not-replaced");
                    }
                }
            }
            // primitives: a failure does not consume; the non-reading ones never move
            Op::Any | Op::OneA | Op::OneB | Op::OneOfAB | Op::ManyStrA | Op::ManyStrAB | Op::StrA => {
                if class != OK && after != before {
                    report("failed-but-consumed");
                }
            }
            Op::PeekAny | Op::Sup | Op::ErrSoft | Op::ErrFatal | Op::Ctx => {
                if after != before {
                    report("moved");
                }
            }
            // documented: any error after the first part is fatal
            Op::Seq | Op::ThenWith | Op::SurroundM => {
                if kids.iter().any(|k| k.idx > 0 && k.class == SOFT) && class != FATAL {
                    report("later-soft-not-fatal");
                }
            }
            _ => {}
        }
    }

    fn arity_of(&self, id: usize) -> usize {
        self.arity[id]
    }
}

// ---------------------------------------------------------------------------------------------
// The observer
// ---------------------------------------------------------------------------------------------

struct Obs {
    id: usize,
    inner: P,
    st: Rc<St>,
}

impl Parser<Inp, Val> for Obs {
    type Output = Val;
    type Error = PErr;

    fn parse(&mut self, input: &mut Inp) -> Result<Val, PErr> {
        let st = &*self.st;
        // logical fuel: once exhausted every node fails fatally, which stops every loop
        if st.fuel.get() == 0 || (shortcut() && !st.exhausted.get() && st.no_progress(input.pos)) {
            st.fuel.set(0);
            st.exhausted.set(true);
            return Err(PErr::Fatal(E_FUEL));
        }
        st.fuel.set(st.fuel.get() - 1);
        st.enter(self.id, input.pos);
        let r = self.inner.parse(input);
        st.exit(&r, input.pos);
        r
    }

    fn set_context(&mut self, ctx: &Val) {
        self.inner.set_context(ctx)
    }
}

// ---------------------------------------------------------------------------------------------
// The builder
// ---------------------------------------------------------------------------------------------

/// Combines repeated values into a `Val::L` (a custom `ManyCombiner`).
struct ValMany;

impl ManyCombiner<Val, Val> for ValMany {
    fn seed(&self, element: Val) -> Val {
        Val::L(vec![element])
    }
    fn accumulate(&self, result: Val, element: Val) -> Val {
        match result {
            Val::L(mut v) => {
                v.push(element);
                Val::L(v)
            }
            _ => unreachable!(),
        }
    }
}

/// Pins all the type parameters and boxes.
fn bx(p: impl Parser<Inp, Val, Output = Val, Error = PErr> + 'static) -> P {
    p.boxed()
}

fn pair(a: Val, b: Val) -> Val {
    Val::T(Box::new(a), Box::new(b))
}

static AB: [char; 2] = ['a', 'b'];

pub fn build(e: &Expr, st: &Rc<St>) -> P {
    let k = |i: usize| build(&e.kids[i], st);
    let inner: P = match e.op {
        // primitives (they have the unit context, `no_context` adapts them)
        Op::Any => bx(read_p::<Inp, PErr>().map(Val::C).no_context::<Val>()),
        Op::PeekAny => bx(peek_p::<Inp, PErr>().map(Val::C).no_context::<Val>()),
        Op::OneA => bx(one_p::<Inp, char, PErr>('a').map(Val::C).no_context::<Val>()),
        Op::OneB => bx(one_p::<Inp, char, PErr>('b').map(Val::C).no_context::<Val>()),
        Op::OneOfAB => bx(one_of_p::<Inp, char, PErr>(&AB).map(Val::C).no_context::<Val>()),
        Op::ManyStrA => bx(many_str::<Inp, PErr, _>(|c: &char| *c == 'a').map(Val::S).no_context::<Val>()),
        Op::ManyStrAB => {
            bx(many_str::<Inp, PErr, _>(|c: &char| *c == 'a' || *c == 'b').map(Val::S).no_context::<Val>())
        }
        Op::StrA => bx(one_char_to_str::<Inp, PErr>('a').map(Val::S).no_context::<Val>()),
        Op::Sup => bx(supplier::<Inp, Val, _, Val, PErr>(|| Val::C('k'))),
        Op::ErrSoft => bx(err_supplier::<Inp, Val, _, Val, PErr>(|| PErr::Soft(E_SOFT_LEAF))),
        Op::ErrFatal => bx(err_supplier::<Inp, Val, _, Val, PErr>(|| PErr::Fatal(E_FATAL_LEAF))),
        Op::Ctx => bx(ctx_parser::<Inp, Val, PErr>()),

        // unary
        Op::FilterHasA => bx(k(0).filter(|v: &Val| has_a(v))),
        Op::FilterNever => bx(k(0).filter(|_v: &Val| false)),
        Op::FilterMapHasA => {
            bx(k(0).filter_map(|v: &Val| if has_a(v) { Some(Val::S(v.to_string())) } else { None }))
        }
        Op::Peek => bx(k(0).peek()),
        Op::Opt => bx(k(0).to_option().map(|o: Option<Val>| Val::O(o.map(Box::new)))),
        Op::Dflt => bx(k(0).or_default()),
        Op::Many => bx(k(0).many(ValMany)),
        Op::OneOrMore => bx(k(0).one_or_more().map(Val::L)),
        Op::Many0 => bx(k(0).zero_or_more().map(Val::L)),
        Op::Many0C => bx(k(0).many_allow_none(ValMany)),
        Op::ManyCtx => bx(ManyCtxParser::new::<Inp>(k(0), ValMany, |v: &Val| ctx_project(v), false)),
        Op::ManyCtx0 => bx(ManyCtxParser::new::<Inp>(k(0), ValMany, |v: &Val| ctx_project(v), true)),
        Op::AndThenS => bx(k(0).and_then(|v: Val| if has_a(&v) { Ok(v) } else { Err(PErr::Soft(E_ANDTHEN_S)) })),
        Op::AndThenF => bx(k(0).and_then(|v: Val| if has_a(&v) { Ok(v) } else { Err(PErr::Fatal(E_ANDTHEN_F)) })),
        Op::AndThenErrOk => bx(k(0).and_then_err(|_e: PErr| Ok(Val::S("r".to_string())))),
        Op::AndThenErrS => bx(k(0).and_then_err(|_e: PErr| Err(PErr::Soft(E_ANDTHENERR_S)))),
        Op::AndThenErrF => bx(k(0).and_then_err(|_e: PErr| Err(PErr::Fatal(E_ANDTHENERR_F)))),
        Op::Map => bx(k(0).map(|v: Val| Val::S(v.to_string()))),
        Op::Unit => bx(k(0).map_to_unit().map(|_: ()| Val::N)),
        Op::ExpectS => bx(k(0).with_expected_message(E_EXPECT_S)),
        Op::ExpectF => bx(k(0).or_expected(E_EXPECT_F)),
        Op::WithSoftErr => bx(k(0).with_soft_err(PErr::Soft(E_WITH_SOFT))),
        Op::OrFail => bx(k(0).or_fail(PErr::Fatal(E_OR_FAIL))),
        Op::MapFatal => bx(k(0).map_fatal_err(PErr::Fatal(E_MAPFATAL))),
        Op::ToFatal => bx(k(0).to_fatal()),
        Op::Lazy => {
            let (kid, st2) = (e.kids[0].clone(), st.clone());
            bx(lazy::<Inp, Val, _, P>(move || build(&kid, &st2)))
        }
        Op::Boxed => bx(k(0).boxed()),
        Op::NoCtx => bx(k(0).no_context::<Val>()),
        Op::MapCtx => bx(k(0).map_ctx(|v: &Val| ctx_flip(v))),

        // binary
        Op::And => bx(k(0).and_tuple(k(1)).map(|(a, b): (Val, Val)| pair(a, b))),
        Op::AndL => bx(k(0).and_keep_left(k(1))),
        Op::AndR => bx(k(0).and_keep_right(k(1))),
        Op::Or => bx(k(0).or(k(1))),
        Op::ThenWith => bx(k(0).then_with_in_context(k(1), |a: Val, b: Val| pair(a, b))),
        Op::Delim => bx(k(0).delimited_by(k(1), PErr::Fatal(E_TRAILING)).map(Val::L)),
        Op::Delim0 => bx(k(0).delimited_by_allow_missing(k(1), PErr::Fatal(E_TRAILING)).map(
            |v: Vec<Option<Val>>| Val::L(v.into_iter().map(|o| Val::O(o.map(Box::new))).collect()),
        )),
        Op::Iif => bx(IifCtxParser::new::<Inp>(k(0).no_context::<()>(), k(1).no_context::<()>())
            .map_ctx(|v: &Val| ctx_truth(v))),
        Op::Flatten => {
            // the documented use: ctx_parser + map producing a parser + flatten
            let (e0, e1, st2) = (e.kids[0].clone(), e.kids[1].clone(), st.clone());
            bx(ctx_parser::<Inp, Val, PErr>()
                .map(move |v: Val| build(if ctx_truth(&v) { &e0 } else { &e1 }, &st2).no_context::<()>())
                .flatten::<()>())
        }

        // n-ary; seqN does not implement set_context (unimplemented!), so it is isolated
        Op::Seq => match e.kids.len() {
            2 => bx(seq2(k(0), k(1), |a, b| Val::L(vec![a, b])).no_context::<Val>()),
            3 => bx(seq3(k(0), k(1), k(2), |a, b, c| Val::L(vec![a, b, c])).no_context::<Val>()),
            4 => bx(seq4(k(0), k(1), k(2), k(3), |a, b, c, d| Val::L(vec![a, b, c, d])).no_context::<Val>()),
            5 => bx(seq5(k(0), k(1), k(2), k(3), k(4), |a, b, c, d, e| Val::L(vec![a, b, c, d, e]))
                .no_context::<Val>()),
            _ => bx(seq6(k(0), k(1), k(2), k(3), k(4), k(5), |a, b, c, d, e, f| Val::L(vec![a, b, c, d, e, f]))
                .no_context::<Val>()),
        },
        Op::OrList => bx(OrParser::new((0..e.kids.len()).map(|i| Box::new(k(i)) as DynP).collect())),
        Op::SurroundM => bx(surround(k(0), k(1), k(2), SurroundMode::Mandatory)),
        Op::SurroundO => bx(surround(k(0), k(1), k(2), SurroundMode::Optional)),
    };
    bx(Obs { id: e.id, inner, st: st.clone() })
}

// ---------------------------------------------------------------------------------------------
// Running
// ---------------------------------------------------------------------------------------------

/// A compiled expression: the real parser plus the monitor state.
pub struct Real {
    parser: P,
    pub st: Rc<St>,
    input: Inp,
}

impl Real {
    /// `e` must be numbered. May panic if building / set_context panics (caller catches).
    pub fn compile(e: &Expr) -> Real {
        let st = Rc::new(St::new(e));
        let mut parser = build(e, &st);
        parser.set_context(&root_ctx());
        Real { parser, st, input: Inp { chars: vec![], pos: 0 } }
    }

    /// Runs the real parser on the input; local violations are left in `st.viol`.
    pub fn run(&mut self, input: &[char], fuel: u32) -> Res {
        self.st.reset(fuel);
        self.input.chars.clear();
        self.input.chars.extend_from_slice(input);
        self.input.pos = 0;
        let (parser, inp) = (&mut self.parser, &mut self.input);
        let r = catch_unwind(AssertUnwindSafe(|| parser.parse(inp)));
        match r {
            Err(p) => {
                let msg = p
                    .downcast_ref::<String>()
                    .cloned()
                    .or_else(|| p.downcast_ref::<&str>().map(|s| s.to_string()))
                    .unwrap_or_else(|| "?".to_string());
                Res::Panic(msg)
            }
            Ok(_) if self.st.exhausted.get() => Res::Diverged,
            Ok(Ok(v)) => Res::Ok(v, self.input.pos),
            Ok(Err(PErr::Soft(e))) => Res::Soft(e, self.input.pos),
            Ok(Err(PErr::Fatal(e))) => Res::Fatal(e),
        }
    }
}
