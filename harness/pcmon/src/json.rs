//! Minimal hand-written JSON value and writer.
use std::fmt::Write;

pub enum J {
    Bool(bool),
    Num(u64),
    Float(f64),
    Str(String),
    Arr(Vec<J>),
    Obj(Vec<(String, J)>),
}

impl J {
    pub fn s(x: impl Into<String>) -> J {
        J::Str(x.into())
    }
    pub fn obj(fields: Vec<(&str, J)>) -> J {
        J::Obj(fields.into_iter().map(|(k, v)| (k.to_string(), v)).collect())
    }
    pub fn write(&self, out: &mut String) {
        match self {
            J::Bool(b) => out.push_str(if *b { "true" } else { "false" }),
            J::Num(n) => {
                let _ = write!(out, "{}", n);
            }
            J::Float(f) => {
                if f.is_finite() {
                    let _ = write!(out, "{:e}", f);
                } else {
                    out.push_str("null");
                }
            }
            J::Str(s) => escape(s, out),
            J::Arr(v) => {
                out.push('[');
                for (i, x) in v.iter().enumerate() {
                    if i > 0 {
                        out.push(',');
                    }
                    x.write(out);
                }
                out.push(']');
            }
            J::Obj(v) => {
                out.push('{');
                for (i, (k, x)) in v.iter().enumerate() {
                    if i > 0 {
                        out.push(',');
                    }
                    escape(k, out);
                    out.push(':');
                    x.write(out);
                }
                out.push('}');
            }
        }
    }
}

fn escape(s: &str, out: &mut String) {
    out.push('"');
    for c in s.chars() {
        match c {
            '"' => out.push_str("\\\""),
            '\\' => out.push_str("\\\\"),
            '\n' => out.push_str("\\n"),
            '\r' => out.push_str("\\r"),
            '\t' => out.push_str("\\t"),
            c if (c as u32) < 0x20 => {
                let _ = write!(out, "\\u{:04x}", c as u32);
            }
            c => out.push(c),
        }
    }
    out.push('"');
}
