//! pcmon: runtime monitor for property C20 "parser combinators honour their backtracking and
//! error contract". Runs the real rusty_pc combinators on generated parser expressions, watches
//! every node with an observer (local contract clauses) and compares the root result with a
//! denotational model of the documented semantics.
//!
//!   pcmon --tier quick|thorough --seed N --out FILE
//!         [--threads T]        worker threads (default 16)
//!         [--random N]         number of random expressions of depth 2-4 (quick 300000, thorough 2000000)
//!         [--depth2-budget N]  how many expressions of the fixed depth<=2 enumeration order to run (thorough)
//!         [--fuel N]           logical fuel = node invocations per run (default 10000)
//!         [--no-shortcut]      burn the fuel literally instead of stopping a repetition that is provably
//!                              repeating an identical iteration (results are identical, only slower)
//!   pcmon --replay '<expr>' '<input>'     exit code 1 if the case violates
//!   pcmon --miri-subset                   ~2000 expressions x 4 inputs, single thread (for cargo miri run)
//!
//! Verdicts never depend on wall-clock time.
mod expr;
mod json;
mod model;
mod real;
mod types;

use std::cell::Cell;
use std::collections::{BTreeMap, HashMap, HashSet};
use std::hash::{Hash, Hasher};
use std::panic::{AssertUnwindSafe, catch_unwind};
use std::sync::atomic::{AtomicU64, Ordering};
use std::time::Instant;

use expr::{Expr, N_OPS, OPS, Op, Rng};
use json::J;
use real::{Real, Stat, Viol};
use types::Res;

/// Logical fuel: node invocations per run (real and model alike).
static FUEL_CFG: std::sync::atomic::AtomicU32 = std::sync::atomic::AtomicU32::new(10_000);
#[allow(non_snake_case)]
fn FUEL() -> u32 {
    FUEL_CFG.load(Ordering::Relaxed)
}
/// thresholds of the "fuel used by terminating runs" histogram
const FUEL_BUCKETS: [u32; 6] = [50, 100, 250, 500, 1000, 2500];
const MOVED: &str = ":after-moved-soft-child";

// ---------------------------------------------------------------------------------------------
// Judging one (expression, input) run
// ---------------------------------------------------------------------------------------------

/// Stable failure signature.
#[derive(Clone, PartialEq, Eq, Hash, PartialOrd, Ord, Debug)]
struct Sig {
    /// root mismatch: (outermost combinator, kind)
    root: Option<(&'static str, &'static str)>,
    /// local violation (or, for a root mismatch, the first local violation of the same run)
    local: Option<(&'static str, &'static str)>,
    /// a descendant of the offending node failed softly after moving the position
    moved: bool,
}

impl Sig {
    fn render(&self) -> String {
        let mut s = String::new();
        match (self.root, self.local) {
            (Some((op, kind)), via) => {
                s.push_str(&format!("root:{}:{}", op, kind));
                if let Some((c, clause)) = via {
                    s.push_str(&format!(":via:{}:{}", c, clause));
                }
            }
            (None, Some((c, clause))) => s.push_str(&format!("{}:{}", c, clause)),
            (None, None) => s.push_str("?"),
        }
        if self.moved {
            s.push_str(MOVED);
        }
        s
    }
}

enum Verdict {
    BothDiverged,
    Judged(Vec<(Sig, String)>),
}

/// Compares the real outcome with the model and turns the local violations into signatures.
fn judge(e: &Expr, real: &Res, model: &Res, viols: &[Viol], moved_soft_in_run: bool) -> Verdict {
    let root_op = e.op.comb();
    let mut out: Vec<(Sig, String)> = vec![];
    let root_sig = |kind: &'static str, via: Option<&Viol>| Sig {
        root: Some((root_op, kind)),
        local: via.map(|v| (v.op.comb(), v.clause)),
        moved: moved_soft_in_run,
    };
    match (real, model) {
        (Res::Diverged, Res::Diverged) => return Verdict::BothDiverged,
        (Res::Panic(m), _) => {
            out.push((root_sig("panic", None), format!("real parser panicked: {}", m)));
            return Verdict::Judged(out);
        }
        _ => {}
    }
    // local violations (when only the real run diverged these are the ones seen before the fuel ran out)
    for v in viols {
        out.push((Sig { root: None, local: Some((v.op.comb(), v.clause)), moved: v.moved_soft_child }, v.what()));
    }
    let kind = match (real, model) {
        (Res::Diverged, _) => Some("only-real-diverges"),
        (_, Res::Diverged) => Some("only-model-diverges"),
        (Res::Ok(v1, p1), Res::Ok(v2, p2)) => {
            if v1 != v2 {
                Some("value")
            } else if p1 != p2 {
                Some("position")
            } else {
                None
            }
        }
        (Res::Soft(e1, p1), Res::Soft(e2, p2)) => {
            if e1 != e2 {
                Some("error-id")
            } else if p1 != p2 {
                Some("position")
            } else {
                None
            }
        }
        (Res::Fatal(e1), Res::Fatal(e2)) => {
            if e1 != e2 {
                Some("error-id")
            } else {
                None
            }
        }
        _ => Some("class"),
    };
    if let Some(kind) = kind {
        out.push((root_sig(kind, viols.first()), format!("root mismatch ({}): real {}, model {}", kind, real, model)));
    }
    Verdict::Judged(out)
}

// ---------------------------------------------------------------------------------------------
// Accumulators
// ---------------------------------------------------------------------------------------------

#[derive(Clone, PartialEq, Eq, PartialOrd, Ord)]
struct Witness {
    size: usize,
    input_len: usize,
    expr: String,
    input: String,
    what: String,
}

const WITNESSES_PER_SIG: usize = 3;

#[derive(Default)]
struct Acc {
    evaluations: u64,
    expressions: u64,
    skipped_invalid: u64,
    both_diverged: u64,
    node_events: u64,
    max_fuel_used: u32,
    fuel_hist: [u64; 6],
    stats: Vec<Stat>,
    nontrivial_enumerated: u64,
    sig_counts: HashMap<Sig, u64>,
    witnesses: HashMap<Sig, Vec<Witness>>,
    nontrivial: HashSet<u64>,
}

impl Acc {
    fn new() -> Acc {
        Acc { stats: vec![Stat::default(); N_OPS], ..Default::default() }
    }

    fn record(&mut self, sig: Sig, e: &Expr, size: usize, input: &[char], what: String) {
        *self.sig_counts.entry(sig.clone()).or_insert(0) += 1;
        let list = self.witnesses.entry(sig).or_default();
        if list.len() == WITNESSES_PER_SIG {
            let worst = list.last().unwrap();
            if (size, input.len()) >= (worst.size, worst.input_len) {
                return;
            }
        }
        let w = Witness { size, input_len: input.len(), expr: e.render(), input: input.iter().collect(), what };
        if !list.contains(&w) {
            list.push(w);
            list.sort();
            list.truncate(WITNESSES_PER_SIG);
        }
    }

    fn merge(&mut self, o: Acc) {
        self.evaluations += o.evaluations;
        self.expressions += o.expressions;
        self.skipped_invalid += o.skipped_invalid;
        self.both_diverged += o.both_diverged;
        self.node_events += o.node_events;
        self.nontrivial_enumerated += o.nontrivial_enumerated;
        self.max_fuel_used = self.max_fuel_used.max(o.max_fuel_used);
        for (a, b) in self.fuel_hist.iter_mut().zip(o.fuel_hist.iter()) {
            *a += b;
        }
        for (a, b) in self.stats.iter_mut().zip(o.stats.iter()) {
            a.runs += b.runs;
            a.ok += b.ok;
            a.soft += b.soft;
            a.fatal += b.fatal;
            a.backtracks += b.backtracks;
        }
        for (k, v) in o.sig_counts {
            *self.sig_counts.entry(k).or_insert(0) += v;
        }
        for (k, v) in o.witnesses {
            let list = self.witnesses.entry(k).or_default();
            for w in v {
                if !list.contains(&w) {
                    list.push(w);
                }
            }
            list.sort();
            list.truncate(WITNESSES_PER_SIG);
        }
        self.nontrivial.extend(o.nontrivial);
    }
}

thread_local! {
    /// true while the code under test runs: its panics are findings, not internal errors
    static IN_REAL: Cell<bool> = const { Cell::new(false) };
}

fn compile(e: &Expr) -> Result<Real, String> {
    IN_REAL.with(|f| f.set(true));
    let r = catch_unwind(AssertUnwindSafe(|| Real::compile(e)));
    IN_REAL.with(|f| f.set(false));
    r.map_err(|p| {
        p.downcast_ref::<String>().cloned().or_else(|| p.downcast_ref::<&str>().map(|s| s.to_string())).unwrap_or_default()
    })
}

fn run_real(real: &mut Real, input: &[char]) -> Res {
    IN_REAL.with(|f| f.set(true));
    let r = real.run(input, FUEL());
    IN_REAL.with(|f| f.set(false));
    r
}

/// Runs one expression over all inputs and judges every run.
fn process(e: &mut Expr, inputs: &[Vec<char>], acc: &mut Acc, enumerated: bool) {
    let size = e.number();
    acc.expressions += 1;
    let mut real = match compile(e) {
        Ok(r) => r,
        Err(msg) => {
            let sig = Sig { root: Some((e.op.comb(), "panic-on-build")), local: None, moved: false };
            acc.record(sig, e, size, &[], format!("building the real parser panicked: {}", msg));
            return;
        }
    };
    for input in inputs {
        let r = run_real(&mut real, input);
        let m = model::run(e, input, FUEL());
        let verdict = {
            let viols = real.st.viol.borrow();
            judge(e, &r, &m, &viols, real.st.moved_soft.get())
        };
        match verdict {
            Verdict::BothDiverged => acc.both_diverged += 1,
            Verdict::Judged(list) => {
                acc.evaluations += 1;
                if !matches!(r, Res::Diverged | Res::Panic(_)) {
                    let used = FUEL() - real.st.fuel_left();
                    acc.max_fuel_used = acc.max_fuel_used.max(used);
                    for (b, t) in acc.fuel_hist.iter_mut().zip(FUEL_BUCKETS.iter()) {
                        if used > *t {
                            *b += 1;
                        }
                    }
                }
                for (sig, what) in list {
                    acc.record(sig, e, size, input, what);
                }
            }
        }
        if matches!(r, Res::Panic(_)) {
            // the parser state is unknown after a panic: rebuild
            fold_stats(&real, acc);
            match compile(e) {
                Ok(r2) => real = r2,
                Err(_) => return,
            }
        }
    }
    if real.st.nontrivial.get() {
        if enumerated {
            // enumerated expressions are distinct by construction
            acc.nontrivial_enumerated += 1;
        } else {
            let mut h = std::collections::hash_map::DefaultHasher::new();
            e.render().hash(&mut h);
            acc.nontrivial.insert(h.finish());
        }
    }
    fold_stats(&real, acc);
}

fn fold_stats(real: &Real, acc: &mut Acc) {
    acc.node_events += real.st.events.get();
    for (a, b) in acc.stats.iter_mut().zip(real.st.stats.borrow().iter()) {
        a.runs += b.runs;
        a.ok += b.ok;
        a.soft += b.soft;
        a.fatal += b.fatal;
        a.backtracks += b.backtracks;
    }
}

// ---------------------------------------------------------------------------------------------
// Workload
// ---------------------------------------------------------------------------------------------

/// All strings over {a,b,c} of length <= max_len, shortest first (1093 for max_len 6).
fn all_inputs(max_len: usize) -> Vec<Vec<char>> {
    let mut out: Vec<Vec<char>> = vec![vec![]];
    let mut start = 0;
    for _ in 0..max_len {
        let end = out.len();
        for i in start..end {
            for c in ['a', 'b', 'c'] {
                let mut s = out[i].clone();
                s.push(c);
                out.push(s);
            }
        }
        start = end;
    }
    out
}

/// One block of the exhaustive enumeration: `op` applied to every combination of its child pools.
struct Stratum {
    op: Op,
    /// per child: 0 = primitives (depth 0), 1 = expressions of depth exactly 1
    pools: Vec<u8>,
    size: u128,
    offset: u128,
    label: &'static str,
}

struct Workload {
    d0: Vec<Expr>,
    d1: Vec<Expr>,
    strata: Vec<Stratum>,
    /// size of the complete space up to `depth`
    total: u128,
    /// number of expressions of the space that will be enumerated (a prefix of the fixed order)
    enumerated: u64,
    depth: usize,
    random: u64,
    seed: u64,
}

impl Workload {
    fn new(depth: usize, budget: u64, random: u64, seed: u64) -> Workload {
        let d0 = expr::depth0();
        let d1 = expr::depth1_exact();
        let mut strata: Vec<Stratum> = vec![];
        let mut offset: u128 = (d0.len() + d1.len()) as u128; // depth <= 1 comes first, as plain lists
        if depth >= 2 {
            let combs = expr::enum_combinators();
            // fixed deterministic order: parent x child pairs first, then ever more deep children
            let mut add = |label: &'static str, arity: usize, deep: usize| {
                for (op, ar) in combs.iter().filter(|c| c.1 == arity) {
                    // all placements of `deep` depth-1 children among `ar` positions
                    for mask in 0u32..(1 << ar) {
                        if mask.count_ones() as usize != deep {
                            continue;
                        }
                        let pools: Vec<u8> = (0..*ar).map(|i| ((mask >> (ar - 1 - i)) & 1) as u8).collect();
                        let size: u128 =
                            pools.iter().map(|p| if *p == 0 { d0.len() } else { d1.len() } as u128).product();
                        strata.push(Stratum { op: *op, pools, size, offset, label });
                        offset += size;
                    }
                }
            };
            add("unary(depth1)", 1, 1);
            add("binary(one depth1 child)", 2, 1);
            add("ternary(one depth1 child)", 3, 1);
            add("binary(two depth1 children)", 2, 2);
            add("ternary(two depth1 children)", 3, 2);
            add("ternary(three depth1 children)", 3, 3);
        }
        let total = offset;
        let enumerated = if (budget as u128) < total { budget } else { total as u64 };
        Workload { d0, d1, strata, total, enumerated, depth, random, seed }
    }

    fn items(&self) -> u64 {
        self.enumerated + self.random
    }

    /// The i-th work item; None if the expression is outside the documented domain (no context).
    fn get(&self, i: u64) -> Option<Expr> {
        let e = if i < self.enumerated {
            let i = i as usize;
            if i < self.d0.len() {
                self.d0[i].clone()
            } else if i < self.d0.len() + self.d1.len() {
                self.d1[i - self.d0.len()].clone()
            } else {
                let idx = self.strata.partition_point(|s| s.offset + s.size <= i as u128);
                let s = &self.strata[idx];
                let pools: Vec<&[Expr]> =
                    s.pools.iter().map(|p| if *p == 0 { &self.d0[..] } else { &self.d1[..] }).collect();
                expr::unrank(s.op, &pools, i - s.offset as usize)
            }
        } else {
            // random expression j: its own generator state, independent of thread scheduling
            let j = i - self.enumerated;
            let mut rng = Rng(self.seed ^ j.wrapping_mul(0xD1B5_4A32_D192_ED03));
            rng.next();
            let depth = 2 + (j % 3) as usize;
            expr::random_expr(&mut rng, depth, true)
        };
        if e.valid(true) { Some(e) } else { None }
    }

    /// Could this expression be a member of the exhaustively enumerated space?
    fn in_enumerated_space(&self, e: &Expr) -> bool {
        fn ops_ok(e: &Expr) -> bool {
            let i = e.op.info();
            i.enumerated
                && (!matches!(e.op, Op::Seq | Op::OrList) || e.kids.len() == 2 || e.kids.len() == 3)
                && e.kids.iter().all(ops_ok)
        }
        e.depth() <= self.depth && ops_ok(e)
    }

    /// Which strata are complete / partial given the enumerated prefix.
    fn strata_report(&self) -> Vec<J> {
        let mut out = vec![];
        let mut agg: Vec<(&'static str, u128, u128)> = vec![("depth<=1", (self.d0.len() + self.d1.len()) as u128, 0)];
        agg[0].2 = agg[0].1.min(self.enumerated as u128);
        for s in &self.strata {
            if agg.last().unwrap().0 != s.label {
                agg.push((s.label, 0, 0));
            }
            let done = (self.enumerated as u128).saturating_sub(s.offset).min(s.size);
            let a = agg.last_mut().unwrap();
            a.1 += s.size;
            a.2 += done;
        }
        for (label, size, done) in agg {
            out.push(J::obj(vec![
                ("stratum", J::s(label)),
                ("size", J::Float(size as f64)),
                ("enumerated", J::Float(done as f64)),
                ("complete", J::Bool(done == size)),
            ]));
        }
        out
    }
}

fn run_workload(w: &Workload, inputs: &[Vec<char>], threads: usize) -> Acc {
    let next = AtomicU64::new(0);
    let total = w.items();
    let chunk: u64 = 8;
    let accs: Vec<Acc> = std::thread::scope(|s| {
        let handles: Vec<_> = (0..threads)
            .map(|_| {
                s.spawn(|| {
                    let mut acc = Acc::new();
                    loop {
                        let start = next.fetch_add(chunk, Ordering::Relaxed);
                        if start >= total {
                            break;
                        }
                        for i in start..(start + chunk).min(total) {
                            match w.get(i) {
                                // a random expression that may also be part of the enumerated space is
                                // not counted as "distinct" (conservative: never counted twice)
                                Some(mut e) => {
                                    let counted_elsewhere = i >= w.enumerated && w.in_enumerated_space(&e);
                                    let before = acc.nontrivial.len();
                                    process(&mut e, inputs, &mut acc, i < w.enumerated);
                                    if counted_elsewhere && acc.nontrivial.len() > before {
                                        let mut h = std::collections::hash_map::DefaultHasher::new();
                                        e.render().hash(&mut h);
                                        acc.nontrivial.remove(&h.finish());
                                    }
                                }
                                None => acc.skipped_invalid += 1,
                            }
                        }
                    }
                    acc
                })
            })
            .collect();
        handles.into_iter().map(|h| h.join().expect("worker thread failed (internal error)")).collect()
    });
    let mut all = Acc::new();
    for a in accs {
        all.merge(a);
    }
    all
}

// ---------------------------------------------------------------------------------------------
// Reporting
// ---------------------------------------------------------------------------------------------

fn trace_json(e: &Expr, real: &Real) -> J {
    let mut ops = vec![Op::Any; e.size()];
    fn fill(e: &Expr, ops: &mut [Op]) {
        ops[e.id] = e.op;
        for k in &e.kids {
            fill(k, ops);
        }
    }
    fill(e, &mut ops);
    J::Arr(
        real.st
            .trace
            .borrow()
            .iter()
            .map(|ev| {
                J::obj(vec![
                    ("node", J::Num(ev.id as u64)),
                    ("op", J::s(ops[ev.id].name())),
                    ("depth", J::Num(ev.depth as u64)),
                    ("before", J::Num(ev.before as u64)),
                    ("class", J::s(real::class_name(ev.class))),
                    ("after", J::Num(ev.after as u64)),
                ])
            })
            .collect(),
    )
}

fn sample(e: &mut Expr, input: &str) -> J {
    e.number();
    let chars: Vec<char> = input.chars().collect();
    let mut real = compile(e).expect("sample build");
    real.st.trace_on.set(true);
    let r = run_real(&mut real, &chars);
    let m = model::run(e, &chars, FUEL());
    J::obj(vec![
        ("expr", J::s(e.render())),
        ("input", J::s(input)),
        ("real", J::s(r.to_string())),
        ("model", J::s(m.to_string())),
        ("trace", trace_json(e, &real)),
    ])
}

fn report(w: &Workload, acc: &Acc, tier: &str, seed: u64, secs: f64, threads: usize) -> J {
    // per combinator statistics, merged by library combinator name
    let mut per: BTreeMap<&'static str, Stat> = BTreeMap::new();
    for info in OPS {
        let s = acc.stats[info.op as usize];
        let t = per.entry(info.comb).or_default();
        t.runs += s.runs;
        t.ok += s.ok;
        t.soft += s.soft;
        t.fatal += s.fatal;
        t.backtracks += s.backtracks;
    }
    let per_json = J::Obj(
        per.iter()
            .map(|(k, s)| {
                (
                    k.to_string(),
                    J::obj(vec![
                        ("runs", J::Num(s.runs)),
                        ("soft", J::Num(s.soft)),
                        ("fatal", J::Num(s.fatal)),
                        ("ok", J::Num(s.ok)),
                        ("backtracks", J::Num(s.backtracks)),
                    ]),
                )
            })
            .collect(),
    );
    // signatures in a stable order
    let mut sigs: Vec<(String, &Sig)> = acc.sig_counts.keys().map(|s| (s.render(), s)).collect();
    sigs.sort();
    let counts_sorted = sigs.clone();
    let counts = J::Obj(counts_sorted.iter().map(|(name, s)| (name.clone(), J::Num(acc.sig_counts[*s]))).collect());
    // witnesses: the local (per-node) signatures first, then the root mismatches, most frequent first
    sigs.sort_by_key(|(name, s)| (s.root.is_some(), std::cmp::Reverse(acc.sig_counts[*s]), name.clone()));
    // failures: round-robin over the signatures (smallest witness of each first), at most 200
    let mut failures = vec![];
    'outer: for round in 0..WITNESSES_PER_SIG {
        for (name, s) in &sigs {
            if let Some(wit) = acc.witnesses.get(*s).and_then(|l| l.get(round)) {
                if failures.len() >= 200 {
                    break 'outer;
                }
                failures.push(J::obj(vec![
                    ("sig", J::s(name.clone())),
                    ("what", J::s(wit.what.clone())),
                    ("case", J::obj(vec![("expr", J::s(wit.expr.clone())), ("input", J::s(wit.input.clone()))])),
                ]));
            }
        }
    }
    // three fixed samples: the first three valid random expressions of this seed
    let mut samples = vec![];
    let sample_inputs = ["abcabc", "aab", "ba"];
    let mut j = 0u64;
    while samples.len() < 3 && j < 1000 {
        let mut rng = Rng(seed ^ j.wrapping_mul(0xD1B5_4A32_D192_ED03));
        rng.next();
        let mut e = expr::random_expr(&mut rng, 2 + (j % 3) as usize, true);
        if e.valid(true) && e.size() <= 12 {
            samples.push(sample(&mut e, sample_inputs[samples.len()]));
        }
        j += 1;
    }
    let complete = (w.enumerated as u128) == w.total;
    J::obj(vec![
        ("tool", J::s("pcmon")),
        ("property", J::s("C20")),
        ("tier", J::s(tier)),
        ("seed", J::Num(seed)),
        ("threads", J::Num(threads as u64)),
        ("seconds", J::Float(secs)),
        ("fuel", J::Num(FUEL() as u64)),
        ("no_progress_shortcut", J::Bool(types::shortcut())),
        ("max_fuel_used_by_terminating_run", J::Num(acc.max_fuel_used as u64)),
        (
            "terminating_runs_using_more_fuel_than",
            J::Obj(FUEL_BUCKETS.iter().zip(acc.fuel_hist.iter()).map(|(t, n)| (t.to_string(), J::Num(*n))).collect()),
        ),
        ("inputs", J::Num(1093)),
        ("evaluations", J::Num(acc.evaluations)),
        ("expressions", J::Num(acc.expressions)),
        ("skipped_without_context", J::Num(acc.skipped_invalid)),
        ("random_expressions", J::Num(w.random)),
        ("distinct_nontrivial", J::Num(acc.nontrivial_enumerated + acc.nontrivial.len() as u64)),
        ("both_diverged", J::Num(acc.both_diverged)),
        ("exhaustive_depth", J::Num(w.depth as u64)),
        ("exhaustive_complete", J::Bool(complete)),
        ("exhaustive_space", J::Float(w.total as f64)),
        ("exhaustive_enumerated", J::Num(w.enumerated)),
        ("exhaustive_fraction", J::Float(w.enumerated as f64 / w.total as f64)),
        ("exhaustive_strata", J::Arr(w.strata_report())),
        ("node_events", J::Num(acc.node_events)),
        ("per_combinator", per_json),
        ("samples", J::Arr(samples)),
        ("failures", J::Arr(failures)),
        ("failure_signature_counts", counts),
    ])
}

// ---------------------------------------------------------------------------------------------
// Replay
// ---------------------------------------------------------------------------------------------

fn replay(expr_text: &str, input: &str) -> i32 {
    let mut e = match Expr::parse(expr_text) {
        Ok(e) => e,
        Err(m) => {
            eprintln!("cannot parse expression: {}", m);
            return 2;
        }
    };
    if !e.valid(true) {
        eprintln!("expression uses a context where none is available (ctx_parser would panic)");
        return 2;
    }
    let size = e.number();
    let chars: Vec<char> = input.chars().collect();
    println!("expr   : {}   ({} nodes, depth {})", e.render(), size, e.depth());
    println!("input  : {:?}", input);
    let mut real = match compile(&e) {
        Ok(r) => r,
        Err(m) => {
            println!("VIOLATION root:{}:panic-on-build  {}", e.op.comb(), m);
            return 1;
        }
    };
    real.st.trace_on.set(true);
    let r = run_real(&mut real, &chars);
    let m = model::run(&e, &chars, FUEL());
    let mut ops = vec![Op::Any; size];
    fn fill(e: &Expr, ops: &mut [Op]) {
        ops[e.id] = e.op;
        for k in &e.kids {
            fill(k, ops);
        }
    }
    fill(&e, &mut ops);
    println!("trace (in order of completion; node id, operator, position before -> result @ position after):");
    let trace = real.st.trace.borrow();
    let shown = trace.len().min(80);
    for ev in trace.iter().take(shown) {
        let res = match ev.class {
            real::OK => format!("Ok({})", ev.val.as_ref().map(|v| v.to_string()).unwrap_or_default()),
            real::SOFT => format!("Soft({})", ev.err),
            _ => format!("Fatal({})", ev.err),
        };
        println!("  {}#{} {} : {} -> {} @{}", "  ".repeat(ev.depth), ev.id, ops[ev.id].name(), ev.before, res, ev.after);
    }
    if trace.len() > shown {
        println!("  ... {} more events", trace.len() - shown);
    }
    println!("real   : {}", r);
    println!("model  : {}", m);
    let viols = real.st.viol.borrow();
    match judge(&e, &r, &m, &viols, real.st.moved_soft.get()) {
        Verdict::BothDiverged => {
            println!("both diverged (fuel {}): not judged", FUEL());
            0
        }
        Verdict::Judged(list) => {
            for (sig, what) in &list {
                println!("VIOLATION {}  {}", sig.render(), what);
            }
            if list.is_empty() {
                println!("no violation");
                0
            } else {
                1
            }
        }
    }
}

// ---------------------------------------------------------------------------------------------
// Miri subset: ~2000 expressions x 4 small inputs, single thread
// ---------------------------------------------------------------------------------------------

fn miri_subset() -> i32 {
    FUEL_CFG.store(500, Ordering::Relaxed); // the interpreter is ~1000x slower; 500 is still > 3x the largest terminating run
    let inputs: Vec<Vec<char>> = ["", "ab", "aabc", "cba"].iter().map(|s| s.chars().collect()).collect();
    let mut acc = Acc::new();
    let d1 = expr::depth1_exact();
    let mut n = 0;
    for e in expr::depth0() {
        process(&mut e.clone(), &inputs, &mut acc, true);
        n += 1;
    }
    // every 4th depth-1 expression (~1700), then 300 random deeper ones
    for e in d1.iter().step_by(4) {
        if e.valid(true) {
            process(&mut e.clone(), &inputs, &mut acc, true);
            n += 1;
        }
    }
    let mut j = 0u64;
    let mut r = 0;
    while r < 300 {
        let mut rng = Rng(7 ^ j.wrapping_mul(0xD1B5_4A32_D192_ED03));
        rng.next();
        let mut e = expr::random_expr(&mut rng, 2 + (j % 2) as usize, true);
        j += 1;
        if e.valid(true) && e.size() <= 20 {
            process(&mut e, &inputs, &mut acc, false);
            r += 1;
            n += 1;
        }
    }
    println!(
        "miri-subset: {} expressions, {} evaluations, {} both-diverged, {} node events, {} failure signatures",
        n,
        acc.evaluations,
        acc.both_diverged,
        acc.node_events,
        acc.sig_counts.len()
    );
    0
}

// ---------------------------------------------------------------------------------------------
// main
// ---------------------------------------------------------------------------------------------

fn main() {
    // panics of the code under test are findings and are reported as such; keep them quiet
    let default_hook = std::panic::take_hook();
    std::panic::set_hook(Box::new(move |info| {
        if !IN_REAL.with(|f| f.get()) {
            default_hook(info);
        }
    }));

    let args: Vec<String> = std::env::args().skip(1).collect();
    let mut tier = "quick".to_string();
    let mut seed: u64 = 1;
    let mut out: Option<String> = None;
    let mut threads: usize = 16;
    let mut random: Option<u64> = None;
    let mut budget: Option<u64> = None;
    let mut i = 0;
    while i < args.len() {
        let need = |i: usize| -> &String {
            args.get(i + 1).unwrap_or_else(|| {
                eprintln!("missing value for {}", args[i]);
                std::process::exit(2)
            })
        };
        match args[i].as_str() {
            "--replay" => {
                let e = need(i).clone();
                let input = args.get(i + 2).cloned().unwrap_or_default();
                std::process::exit(replay(&e, &input));
            }
            "--miri-subset" => std::process::exit(miri_subset()),
            "--tier" => {
                tier = need(i).clone();
                i += 1;
            }
            "--seed" => {
                seed = need(i).parse().expect("--seed N");
                i += 1;
            }
            "--out" => {
                out = Some(need(i).clone());
                i += 1;
            }
            "--fuel" => {
                FUEL_CFG.store(need(i).parse().expect("--fuel N"), Ordering::Relaxed);
                i += 1;
            }
            "--no-shortcut" => types::SHORTCUT.store(false, Ordering::Relaxed),
            "--threads" => {
                threads = need(i).parse().expect("--threads N");
                i += 1;
            }
            "--random" => {
                random = Some(need(i).parse().expect("--random N"));
                i += 1;
            }
            "--depth2-budget" => {
                budget = Some(need(i).parse().expect("--depth2-budget N"));
                i += 1;
            }
            other => {
                eprintln!("unknown argument {}", other);
                std::process::exit(2);
            }
        }
        i += 1;
    }
    let (depth, default_random, default_budget) = match tier.as_str() {
        "quick" => (1, 300_000, u64::MAX),
        "thorough" => (2, 2_000_000, 36_000_000),
        _ => {
            eprintln!("--tier quick|thorough");
            std::process::exit(2);
        }
    };
    let w = Workload::new(depth, budget.unwrap_or(default_budget), random.unwrap_or(default_random), seed);
    let inputs = all_inputs(6);
    assert_eq!(inputs.len(), 1093);
    let t0 = Instant::now();
    let acc = run_workload(&w, &inputs, threads);
    let secs = t0.elapsed().as_secs_f64();
    let j = report(&w, &acc, &tier, seed, secs, threads);
    let mut text = String::new();
    j.write(&mut text);
    text.push('\n');
    match out {
        Some(path) => {
            if let Err(e) = std::fs::write(&path, &text) {
                eprintln!("cannot write {}: {}", path, e);
                std::process::exit(3);
            }
        }
        None => print!("{}", text),
    }
    eprintln!(
        "pcmon {}: {} expressions, {} evaluations, {} both-diverged, {} signatures, {:.1}s",
        tier,
        acc.expressions,
        acc.evaluations,
        acc.both_diverged,
        acc.sig_counts.len(),
        secs
    );
}
