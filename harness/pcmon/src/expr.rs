//! Parser expressions: the operator table, rendering / parsing of the replay syntax,
//! static context validity, exhaustive enumeration and random generation.

/// Every primitive and combinator (with its parameter variant) that can appear in an expression.
#[derive(Clone, Copy, PartialEq, Eq, Hash, Debug)]
#[repr(u8)]
pub enum Op {
    // ---- primitives
    Any,       // read_p
    PeekAny,   // peek_p
    OneA,      // one_p('a')
    OneB,      // one_p('b')
    OneOfAB,   // one_of_p(['a','b'])
    ManyStrA,  // many_str(|c| c=='a')
    ManyStrAB, // many_str(|c| c=='a'||c=='b')
    StrA,      // one_char_to_str('a')
    Sup,       // supplier
    ErrSoft,   // err_supplier (soft)
    ErrFatal,  // err_supplier (fatal)
    Ctx,       // ctx_parser
    // ---- unary
    FilterHasA,
    FilterNever,
    FilterMapHasA,
    Peek,
    Opt,
    Dflt,
    Many,        // many(custom combiner)
    OneOrMore,   // one_or_more()
    Many0,       // zero_or_more()
    Many0C,      // many_allow_none(custom combiner)
    ManyCtx,     // ManyCtxParser allow_none = false
    ManyCtx0,    // ManyCtxParser allow_none = true
    AndThenS,    // and_then, mapper fails softly unless has_a
    AndThenF,    // and_then, mapper fails fatally unless has_a
    AndThenErrOk, // and_then_err, mapper recovers
    AndThenErrS, // and_then_err, mapper returns another soft error
    AndThenErrF, // and_then_err, mapper returns a fatal error
    Map,
    Unit,       // map_to_unit
    ExpectS,    // with_expected_message
    ExpectF,    // or_expected
    WithSoftErr, // with_soft_err(soft)
    OrFail,     // or_fail(fatal)
    MapFatal,   // map_fatal_err
    ToFatal,
    Lazy,
    Boxed,
    NoCtx,
    MapCtx,
    // ---- binary
    And,  // and_tuple
    AndL, // and_keep_left
    AndR, // and_keep_right
    Or,   // Or::or (two-way)
    ThenWith,
    Delim,  // delimited_by
    Delim0, // delimited_by_allow_missing
    Iif,    // IifCtxParser under map_ctx
    Flatten, // ctx_parser().map(..).flatten()
    // ---- n-ary
    Seq,    // seq2..seq6
    OrList, // OrParser::new(vec)
    SurroundM,
    SurroundO,
}

pub const N_OPS: usize = Op::SurroundO as usize + 1;

pub struct OpInfo {
    pub op: Op,
    /// name in the replay syntax
    pub name: &'static str,
    /// name of the library combinator (used in signatures and per_combinator statistics)
    pub comb: &'static str,
    pub min: usize,
    pub max: usize,
    /// part of the exhaustively enumerated space (aliases of the same parser struct are random-only)
    pub enumerated: bool,
}

macro_rules! ops {
    ($( $op:ident $name:literal $comb:literal $min:literal $max:literal $en:literal ; )*) => {
        pub const OPS: &[OpInfo] = &[ $( OpInfo { op: Op::$op, name: $name, comb: $comb, min: $min, max: $max, enumerated: $en } ),* ];
    };
}

ops! {
    Any "any" "read_p" 0 0 true;
    PeekAny "peekany" "peek_p" 0 0 true;
    OneA "one_a" "one_p" 0 0 true;
    OneB "one_b" "one_p" 0 0 true;
    OneOfAB "oneof_ab" "one_of_p" 0 0 true;
    ManyStrA "manystr_a" "many_str" 0 0 true;
    ManyStrAB "manystr_ab" "many_str" 0 0 true;
    StrA "str_a" "one_char_to_str" 0 0 false;
    Sup "ok" "supplier" 0 0 true;
    ErrSoft "soft" "err_supplier" 0 0 true;
    ErrFatal "fatal" "err_supplier" 0 0 true;
    Ctx "ctx" "ctx_parser" 0 0 true;
    FilterHasA "filter_hasa" "filter" 1 1 true;
    FilterNever "filter_never" "filter" 1 1 true;
    FilterMapHasA "fmap_hasa" "filter_map" 1 1 true;
    Peek "peek" "peek" 1 1 true;
    Opt "opt" "to_option" 1 1 true;
    Dflt "dflt" "or_default" 1 1 true;
    Many "many" "many" 1 1 true;
    OneOrMore "one_or_more" "many" 1 1 false;
    Many0 "many0" "many_allow_none" 1 1 true;
    Many0C "many0c" "many_allow_none" 1 1 false;
    ManyCtx "manyctx" "many_ctx" 1 1 true;
    ManyCtx0 "manyctx0" "many_ctx_allow_none" 1 1 true;
    AndThenS "andthen_s" "and_then" 1 1 true;
    AndThenF "andthen_f" "and_then" 1 1 true;
    AndThenErrOk "andthenerr_ok" "and_then_err" 1 1 true;
    AndThenErrS "andthenerr_s" "and_then_err" 1 1 true;
    AndThenErrF "andthenerr_f" "and_then_err" 1 1 true;
    Map "map" "map" 1 1 true;
    Unit "unit" "map_to_unit" 1 1 true;
    ExpectS "expect_s" "with_expected_message" 1 1 true;
    ExpectF "expect_f" "or_expected" 1 1 true;
    WithSoftErr "softerr_s" "with_soft_err" 1 1 false;
    OrFail "orfail" "or_fail" 1 1 false;
    MapFatal "mapfatal" "map_fatal_err" 1 1 true;
    ToFatal "tofatal" "to_fatal" 1 1 true;
    Lazy "lazy" "lazy" 1 1 true;
    Boxed "boxed" "boxed" 1 1 true;
    NoCtx "noctx" "no_context" 1 1 true;
    MapCtx "mapctx" "map_ctx" 1 1 true;
    And "and" "and" 2 2 true;
    AndL "andl" "and" 2 2 false;
    AndR "andr" "and" 2 2 false;
    Or "or" "or" 2 2 true;
    ThenWith "thenwith" "then_with_in_context" 2 2 true;
    Delim "delim" "delimited_by" 2 2 true;
    Delim0 "delim0" "delimited_by_allow_missing" 2 2 true;
    Iif "iif" "iif_ctx" 2 2 true;
    Flatten "flatten" "flatten" 2 2 true;
    Seq "seq" "seq" 2 6 true;
    OrList "orlist" "or_list" 1 4 true;
    SurroundM "surround_m" "surround_mandatory" 3 3 true;
    SurroundO "surround_o" "surround_optional" 3 3 true;
}

impl Op {
    pub fn info(self) -> &'static OpInfo {
        &OPS[self as usize]
    }
    pub fn name(self) -> &'static str {
        self.info().name
    }
    pub fn comb(self) -> &'static str {
        self.info().comb
    }
    pub fn from_name(s: &str) -> Option<Op> {
        OPS.iter().find(|i| i.name == s).map(|i| i.op)
    }
    /// Arities used by the exhaustive enumeration (n-ary operators: 2 and 3 children).
    fn enum_arities(self) -> &'static [usize] {
        match self {
            Op::Seq | Op::OrList => &[2, 3],
            _ => match self.info().min {
                0 => &[0],
                1 => &[1],
                2 => &[2],
                _ => &[3],
            },
        }
    }
}

#[derive(Clone, PartialEq, Eq, Debug)]
pub struct Expr {
    pub op: Op,
    pub kids: Vec<Expr>,
    /// preorder node id, assigned by `number`
    pub id: usize,
}

impl Expr {
    pub fn new(op: Op, kids: Vec<Expr>) -> Expr {
        Expr { op, kids, id: 0 }
    }
    pub fn leaf(op: Op) -> Expr {
        Expr::new(op, vec![])
    }
    /// Assigns preorder ids; returns the number of nodes.
    pub fn number(&mut self) -> usize {
        fn go(e: &mut Expr, next: &mut usize) {
            e.id = *next;
            *next += 1;
            for k in e.kids.iter_mut() {
                go(k, next);
            }
        }
        let mut n = 0;
        go(self, &mut n);
        n
    }
    pub fn size(&self) -> usize {
        1 + self.kids.iter().map(|k| k.size()).sum::<usize>()
    }
    pub fn depth(&self) -> usize {
        self.kids.iter().map(|k| k.depth() + 1).max().unwrap_or(0)
    }
    pub fn render(&self) -> String {
        let mut s = String::new();
        self.render_into(&mut s);
        s
    }
    fn render_into(&self, s: &mut String) {
        s.push_str(self.op.name());
        if !self.kids.is_empty() {
            s.push('(');
            for (i, k) in self.kids.iter().enumerate() {
                if i > 0 {
                    s.push(',');
                }
                k.render_into(s);
            }
            s.push(')');
        }
    }

    /// Parses the replay syntax `name(arg,arg,...)`.
    pub fn parse(text: &str) -> Result<Expr, String> {
        let chars: Vec<char> = text.chars().filter(|c| !c.is_whitespace()).collect();
        let mut pos = 0;
        let e = Self::parse_at(&chars, &mut pos)?;
        if pos != chars.len() {
            return Err(format!("trailing text at {}", pos));
        }
        Ok(e)
    }
    fn parse_at(c: &[char], pos: &mut usize) -> Result<Expr, String> {
        let start = *pos;
        while *pos < c.len() && (c[*pos].is_ascii_alphanumeric() || c[*pos] == '_') {
            *pos += 1;
        }
        let name: String = c[start..*pos].iter().collect();
        let op = Op::from_name(&name).ok_or_else(|| format!("unknown operator '{}'", name))?;
        let mut kids = vec![];
        if *pos < c.len() && c[*pos] == '(' {
            *pos += 1;
            loop {
                kids.push(Self::parse_at(c, pos)?);
                match c.get(*pos) {
                    Some(',') => *pos += 1,
                    Some(')') => {
                        *pos += 1;
                        break;
                    }
                    _ => return Err(format!("expected , or ) at {}", pos)),
                }
            }
        }
        let i = op.info();
        if kids.len() < i.min || kids.len() > i.max {
            return Err(format!("'{}' takes {}..={} arguments", name, i.min, i.max));
        }
        Ok(Expr::new(op, kids))
    }

    /// Is a context available to child `i` if it is available (or not) to this node?
    /// Follows the documented `set_context` propagation rules: `no_context` stops it, `seqN` does
    /// not implement it (the builder isolates it with `no_context`), `many_ctx` and the right
    /// side of `then_with_in_context` provide their own, `iif_ctx` / `flatten` sub-parsers
    /// have the unit context.
    pub fn kid_has_ctx(&self, i: usize, has_ctx: bool) -> bool {
        match self.op {
            Op::NoCtx | Op::Seq | Op::Iif | Op::Flatten => false,
            Op::ManyCtx | Op::ManyCtx0 => true,
            Op::ThenWith => i == 1 || has_ctx,
            _ => has_ctx,
        }
    }

    /// `ctx_parser` panics without a context ("context was not set"); such expressions are
    /// outside the documented domain and are never generated.
    pub fn valid(&self, has_ctx: bool) -> bool {
        if matches!(self.op, Op::Ctx | Op::Iif | Op::Flatten) && !has_ctx {
            return false;
        }
        self.kids.iter().enumerate().all(|(i, k)| k.valid(self.kid_has_ctx(i, has_ctx)))
    }
}

// ---------------------------------------------------------------------------------------------
// PRNG
// ---------------------------------------------------------------------------------------------

/// splitmix64
pub struct Rng(pub u64);

impl Rng {
    pub fn next(&mut self) -> u64 {
        self.0 = self.0.wrapping_add(0x9E37_79B9_7F4A_7C15);
        let mut z = self.0;
        z = (z ^ (z >> 30)).wrapping_mul(0xBF58_476D_1CE4_E5B9);
        z = (z ^ (z >> 27)).wrapping_mul(0x94D0_49BB_1331_11EB);
        z ^ (z >> 31)
    }
    pub fn below(&mut self, n: usize) -> usize {
        (self.next() % n as u64) as usize
    }
}

// ---------------------------------------------------------------------------------------------
// Enumeration
// ---------------------------------------------------------------------------------------------

/// All expressions of depth 0 (primitives of the enumerated operator set).
pub fn depth0() -> Vec<Expr> {
    OPS.iter().filter(|i| i.enumerated && i.max == 0).map(|i| Expr::leaf(i.op)).collect()
}

/// (operator, arity) pairs of the enumerated combinators.
pub fn enum_combinators() -> Vec<(Op, usize)> {
    let mut v = vec![];
    for i in OPS.iter().filter(|i| i.enumerated && i.max > 0) {
        for a in i.op.enum_arities() {
            v.push((i.op, *a));
        }
    }
    v
}

/// Builds `op(pools[0][d0], pools[1][d1], ...)` where the digits d_k are the mixed-radix
/// representation of `i` (last child varies fastest). `i` must be below the product of the pool sizes.
pub fn unrank(op: Op, pools: &[&[Expr]], mut i: usize) -> Expr {
    let mut kids: Vec<Expr> = Vec::with_capacity(pools.len());
    for p in pools.iter().rev() {
        kids.push(p[i % p.len()].clone());
        i /= p.len();
    }
    kids.reverse();
    Expr::new(op, kids)
}

/// All expressions of depth exactly 1 (every child is a primitive), context validity not yet applied.
pub fn depth1_exact() -> Vec<Expr> {
    let d0 = depth0();
    let mut out = vec![];
    for (op, ar) in enum_combinators() {
        let pools: Vec<&[Expr]> = (0..ar).map(|_| &d0[..]).collect();
        for i in 0..d0.len().pow(ar as u32) {
            out.push(unrank(op, &pools, i));
        }
    }
    out
}

// ---------------------------------------------------------------------------------------------
// Random generation
// ---------------------------------------------------------------------------------------------

const LEAF_WEIGHTS: &[(Op, usize)] = &[
    (Op::Any, 4),
    (Op::OneA, 4),
    (Op::OneB, 3),
    (Op::OneOfAB, 2),
    (Op::ManyStrA, 2),
    (Op::ManyStrAB, 1),
    (Op::StrA, 1),
    (Op::PeekAny, 1),
    (Op::Sup, 1),
    (Op::ErrSoft, 1),
    (Op::ErrFatal, 1),
    (Op::Ctx, 2),
];

fn random_leaf(rng: &mut Rng, has_ctx: bool) -> Expr {
    let total: usize = LEAF_WEIGHTS.iter().map(|w| w.1).sum();
    loop {
        let mut r = rng.below(total);
        for (op, w) in LEAF_WEIGHTS {
            if r < *w {
                if *op == Op::Ctx && !has_ctx {
                    break;
                }
                return Expr::leaf(*op);
            }
            r -= w;
        }
    }
}

/// A random expression of depth exactly `depth` (one random child carries the full depth,
/// the others get a random smaller depth), valid for the given context availability.
pub fn random_expr(rng: &mut Rng, depth: usize, has_ctx: bool) -> Expr {
    if depth == 0 {
        return random_leaf(rng, has_ctx);
    }
    let combs: Vec<&OpInfo> = OPS.iter().filter(|i| i.max > 0).collect();
    let info = loop {
        let i = combs[rng.below(combs.len())];
        if matches!(i.op, Op::Iif | Op::Flatten) && !has_ctx {
            continue;
        }
        break i;
    };
    let arity = if info.op == Op::Seq {
        // seq2/seq3 are the common ones, seq4..6 are the same macro
        [2, 2, 3, 3, 4, 5, 6][rng.below(7)]
    } else {
        info.min + rng.below(info.max - info.min + 1)
    };
    let mut e = Expr::new(info.op, vec![]);
    let deep = rng.below(arity);
    // Workload shaping only: a repetition over an element that can succeed without consuming
    // diverges on every input (both sides burn their fuel and the run is not judged), so
    // most of the time such an element is drawn again. 15% are kept as they come.
    let avoid_nullable = matches!(
        info.op,
        Op::Many | Op::OneOrMore | Op::Many0 | Op::Many0C | Op::ManyCtx | Op::ManyCtx0 | Op::Delim | Op::Delim0
    ) && rng.below(100) >= 15;
    for i in 0..arity {
        let kid_ctx = e.kid_has_ctx(i, has_ctx);
        let d = if i == deep { depth - 1 } else { rng.below(depth) };
        let mut kid = random_expr(rng, d, kid_ctx);
        let mut tries = 0;
        while avoid_nullable && tries < 8 && nullable(&kid) {
            kid = random_expr(rng, d, kid_ctx);
            tries += 1;
        }
        e.kids.push(kid);
    }
    e
}

/// Syntactic approximation of "can succeed without consuming input" (used for workload shaping only).
pub fn nullable(e: &Expr) -> bool {
    match e.op {
        Op::PeekAny | Op::Sup | Op::Ctx => true,
        Op::Opt | Op::Dflt | Op::Many0 | Op::Many0C | Op::ManyCtx0 | Op::Peek | Op::AndThenErrOk => true,
        Op::And | Op::AndL | Op::AndR | Op::ThenWith | Op::Seq | Op::SurroundM => e.kids.iter().all(nullable),
        Op::SurroundO => nullable(&e.kids[1]),
        Op::Or | Op::OrList | Op::Iif | Op::Flatten => e.kids.iter().any(nullable),
        Op::Delim | Op::Delim0 => nullable(&e.kids[0]),
        _ => e.kids.first().map(nullable).unwrap_or(false),
    }
}
