//! Shared test types: the input, the error type, the dynamic value and the result shape.
use std::fmt;

use rusty_pc::{InputTrait, ParserErrorTrait};

/// Test input: a char vector with a cursor.
pub struct Inp {
    pub chars: Vec<char>,
    pub pos: usize,
}

impl InputTrait for Inp {
    type Output = char;
    fn peek(&self) -> char {
        self.chars.get(self.pos).copied().unwrap_or('\0')
    }
    fn read(&mut self) -> char {
        match self.chars.get(self.pos) {
            Some(c) => {
                self.pos += 1;
                *c
            }
            None => '\0',
        }
    }
    fn get_position(&self) -> usize {
        self.pos
    }
    fn is_eof(&self) -> bool {
        self.pos >= self.chars.len()
    }
    fn set_position(&mut self, position: usize) {
        self.pos = position;
    }
}

/// Error ids, so that "which error came out" can be compared.
pub const E_DEFAULT: u8 = 0; // default_parse_error (filter rejection, EOF, empty delimited list)
pub const E_SOFT_LEAF: u8 = 1;
pub const E_FATAL_LEAF: u8 = 2;
pub const E_ANDTHEN_S: u8 = 3;
pub const E_ANDTHEN_F: u8 = 4;
pub const E_ANDTHENERR_S: u8 = 5;
pub const E_ANDTHENERR_F: u8 = 6;
pub const E_WITH_SOFT: u8 = 7;
pub const E_OR_FAIL: u8 = 8;
pub const E_EXPECT_S: u8 = 9;
pub const E_EXPECT_F: u8 = 10;
pub const E_MAPFATAL: u8 = 11;
pub const E_TRAILING: u8 = 12;
pub const E_FUEL: u8 = 255;

#[derive(Clone, Copy, PartialEq, Eq, Debug)]
pub enum PErr {
    Soft(u8),
    Fatal(u8),
}

impl Default for PErr {
    fn default() -> Self {
        PErr::Soft(E_DEFAULT)
    }
}

impl ParserErrorTrait for PErr {
    fn is_fatal(&self) -> bool {
        matches!(self, PErr::Fatal(_))
    }
    fn to_fatal(self) -> Self {
        match self {
            PErr::Soft(n) | PErr::Fatal(n) => PErr::Fatal(n),
        }
    }
}

/// `with_expected_message` / `or_expected` convert a message with `From`; the message is the id.
impl From<u8> for PErr {
    fn from(id: u8) -> Self {
        PErr::Soft(id)
    }
}

/// Dynamic value so that every parser in a generated tree has the same output type.
#[derive(Clone, PartialEq, Eq, Debug, Default)]
pub enum Val {
    /// unit / `Default::default()`
    #[default]
    N,
    C(char),
    S(String),
    L(Vec<Val>),
    O(Option<Box<Val>>),
    T(Box<Val>, Box<Val>),
}

impl fmt::Display for Val {
    fn fmt(&self, f: &mut fmt::Formatter<'_>) -> fmt::Result {
        match self {
            Val::N => write!(f, "_"),
            Val::C(c) => write!(f, "{}", c),
            Val::S(s) => write!(f, "\"{}\"", s),
            Val::L(v) => {
                write!(f, "[")?;
                for (i, x) in v.iter().enumerate() {
                    if i > 0 {
                        write!(f, ",")?;
                    }
                    write!(f, "{}", x)?;
                }
                write!(f, "]")
            }
            Val::O(None) => write!(f, "?-"),
            Val::O(Some(x)) => write!(f, "?{}", x),
            Val::T(a, b) => write!(f, "({},{})", a, b),
        }
    }
}

/// The data-dependent predicate used by filter / filter_map / and_then: "the rendering contains an a".
pub fn has_a(v: &Val) -> bool {
    match v {
        Val::N => false,
        Val::C(c) => *c == 'a',
        Val::S(s) => s.contains('a'),
        Val::L(v) => v.iter().any(has_a),
        Val::O(None) => false,
        Val::O(Some(x)) => has_a(x),
        Val::T(a, b) => has_a(a) || has_a(b),
    }
}

/// Cheap structural hash (the monitors compare values by hash to avoid cloning them).
pub fn vhash(v: &Val) -> u64 {
    fn mix(h: u64, x: u64) -> u64 {
        (h ^ x).wrapping_mul(0x0000_0100_0000_01B3).rotate_left(23)
    }
    match v {
        Val::N => 0x11,
        Val::C(c) => mix(0x22, *c as u64),
        Val::S(s) => s.bytes().fold(0x33, |h, b| mix(h, b as u64)),
        Val::L(l) => l.iter().fold(0x44, |h, x| mix(h, vhash(x))),
        Val::O(None) => 0x55,
        Val::O(Some(x)) => mix(0x66, vhash(x)),
        Val::T(a, b) => mix(mix(0x77, vhash(a)), vhash(b)),
    }
}

/// The boolean projection of a context (iif_ctx, flatten).
pub fn ctx_truth(v: &Val) -> bool {
    *v == Val::C('a')
}

/// map_ctx projection: a <-> b, anything else -> a.
pub fn ctx_flip(v: &Val) -> Val {
    if *v == Val::C('a') { Val::C('b') } else { Val::C('a') }
}

/// many_ctx context projection: a bounded summary of the previous element (keeps the values
/// from doubling on every iteration of a diverging repetition).
pub fn ctx_project(v: &Val) -> Val {
    if has_a(v) { Val::C('a') } else { Val::C('b') }
}

/// The context given to the root parser.
pub fn root_ctx() -> Val {
    Val::C('a')
}

/// Outcome of a parse (real or model). The position after a fatal error is not documented
/// anywhere and nothing can observe it through the combinators, so it is not part of the result.
#[derive(Clone, PartialEq, Eq, Debug)]
pub enum Res {
    Ok(Val, usize),
    Soft(u8, usize),
    Fatal(u8),
    /// logical fuel exhausted
    Diverged,
    /// the real parser panicked
    Panic(String),
}

impl fmt::Display for Res {
    fn fmt(&self, f: &mut fmt::Formatter<'_>) -> fmt::Result {
        match self {
            Res::Ok(v, p) => write!(f, "Ok({})@{}", v, p),
            Res::Soft(e, p) => write!(f, "Soft({})@{}", e, p),
            Res::Fatal(e) => write!(f, "Fatal({})", e),
            Res::Diverged => write!(f, "Diverged"),
            Res::Panic(m) => write!(f, "Panic({})", m),
        }
    }
}

/// Proven-divergence shortcut (see real.rs `no_progress` and model.rs): when a plain repetition
/// or a delimited list is about to repeat an iteration that made no progress, the remaining
/// fuel is dropped at once instead of being burnt one identical iteration at a time.
/// `--no-shortcut` switches it off (pure fuel); the results must be identical.
pub static SHORTCUT: std::sync::atomic::AtomicBool = std::sync::atomic::AtomicBool::new(true);

pub fn shortcut() -> bool {
    SHORTCUT.load(std::sync::atomic::Ordering::Relaxed)
}
