import sys, cProfile, pstats, time
sys.path.insert(0,'/verif')
from rv.checks import c01
from rv.driver import ShardResult
from rv.worker import Worker
w=Worker()
r=ShardResult()
def go():
    for i in range(300):
        c01.run_case(w,None,1,i,r)
t=time.time()
cProfile.run('go()','/tmp/prof.out')
print('wall',time.time()-t)
p=pstats.Stats('/tmp/prof.out'); p.sort_stats('cumulative').print_stats(25)
