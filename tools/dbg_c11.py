"""Prints the first failing C11 case of each signature with the full parse/lint reply."""
import sys, random, collections
sys.path.insert(0, '/verif')
from rv import driver
from rv.driver import ShardResult
from rv.worker import Worker, outcome
from rv.checks import c11
driver.build()
want = sys.argv[1] if len(sys.argv) > 1 else None
w = Worker(); seen = set()
for index in range(int(sys.argv[2]) if len(sys.argv) > 2 else 600):
    r = ShardResult()
    c11.run_case(w, random.Random("C11/1/%d" % index), r)
    for f in r.failures:
        if f['sig'] in seen or (want and want not in f['sig']):
            continue
        seen.add(f['sig'])
        rep = w.run(f['case']['src'], budget=600000)
        print('=====', f['sig'], index); print(f['what'][:300]); print('parse', rep.get('parse'), 'lint', rep.get('lint'), 'run', (rep.get('run') or {}).get('result'))
        rows = c11.line_table(f['case']['src'])
        for i, l in enumerate(rows[:int(sys.argv[3]) if len(sys.argv) > 3 else 60]):
            print('%3d|%s' % (i + 1, l))
w.close()
