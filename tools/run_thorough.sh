#!/bin/sh
# Runs the thorough tier of every check in turn (evidence/thorough/<ID>.json is kept by the driver).
cd /verif
SEED=${1:-1}
for c in C17 C19 C10 C20 C04 C13 C16 C18 C05 C14 C06 C03 C09 C07 C01 C11 C15 C12 C02 C08; do
  echo "== $c $(date -u +%H:%M:%S)"
  ./check $c --tier thorough --seed $SEED 2>&1 | grep -v "^KNOWN-FINDING" | tail -6 | cut -c1-600
  echo "exit=$?"
done
echo "== done $(date -u +%H:%M:%S)"
