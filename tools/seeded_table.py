"""Fills the table between <!-- SEEDED-TABLE --> markers in DESIGN.md from seeded/*/meta.json."""
import glob, json, os, re
ROOT = os.path.dirname(os.path.dirname(os.path.abspath(__file__)))
NOTES = json.load(open(os.path.join(ROOT, 'seeded', 'strengthened.json')))
rows = ["| Seeded change | Needs | Detected by (quick tier) | Missed by | Check strengthened because of it |", "|---|---|---|---|---|"]
for d in sorted(glob.glob(os.path.join(ROOT, 'seeded', 'C*-*'))):
    m = json.load(open(os.path.join(d, 'meta.json')))
    name = os.path.basename(d)
    det = m.get('detected_by', {})
    hit = [c for c, v in sorted(det.items()) if v.get('violations', 0) > 0 and v.get('exit') == 1]
    miss = [c for c, v in sorted(det.items()) if not (v.get('violations', 0) > 0 and v.get('exit') == 1)]
    needs = re.sub(r'\s+', ' ', m.get('needs', ''))[:150]
    rows.append("| %s | %s | %s | %s | %s |" % (name, needs.replace('|', '/'), ", ".join(hit) or "-", ", ".join(miss) or "-", NOTES.get(name, "")))
table = "\n".join(rows)
p = os.path.join(ROOT, 'DESIGN.md')
s = open(p).read()
a = s.index("<!-- SEEDED-TABLE -->")
if "<!-- /SEEDED-TABLE -->" in s:
    b = s.index("<!-- /SEEDED-TABLE -->") + len("<!-- /SEEDED-TABLE -->")
else:
    b = a + len("<!-- SEEDED-TABLE -->")
s = s[:a] + "<!-- SEEDED-TABLE -->\n" + table + "\n<!-- /SEEDED-TABLE -->" + s[b:]
open(p, 'w').write(s)
print(len(rows) - 2, "rows")
