"""Runs shard 0 of a check with a small n in-process and prints failure signatures (debugging aid)."""
import collections, importlib, json, sys
sys.path.insert(0, '/verif')
from rv import driver
from rv.driver import Ctx
pid = sys.argv[1]; params = json.loads(sys.argv[2]); tier = sys.argv[3] if len(sys.argv) > 3 else "quick"
driver.build()
mod = importlib.import_module('rv.checks.' + pid.lower())
r = mod.shard(Ctx(pid, tier, 1, 0, 16, params))
print('evaluations', r.evaluations, 'nontrivial', len(r.nontrivial), 'discards', r.discards, 'inconclusive', r.inconclusive)
print({k: v for k, v in r.stats.items() if k not in ('failure_signatures',)})
sigs = collections.Counter(f['sig'] for f in r.failures)
for s, c in sigs.most_common():
    print(c, s)
seen = set()
for f in r.failures:
    if f['sig'] in seen:
        continue
    seen.add(f['sig'])
    print('----'); print(f['what'][:int(sys.argv[4]) if len(sys.argv) > 4 else 900])
