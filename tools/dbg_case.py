"""dbg_case.py <PID> <index>: prints program, expected and observed for one generated case of a reference-based check."""
import importlib, sys
sys.path.insert(0,'/verif')
from rv.worker import Worker, outcome
from rv.ref import Interp
pid=sys.argv[1]; index=int(sys.argv[2]); seed=int(sys.argv[3]) if len(sys.argv)>3 else 1
mod=importlib.import_module('rv.checks.'+pid.lower())
res=mod.make_case(seed,index)
g,prog,src,spans=res[:4]
for i,l in enumerate(src.split('\n')): print('%3d %s'%(i+1,l))
it=Interp(prog,max_steps=6000)
r=it.execute()
print('REF outcome',r, 'row', spans.get(r[2]) if len(r)>2 else None)
print('REF stdout',repr(it.screen.text()))
w=Worker()
rep=w.run(src, want=['c03','vars'])
print('OBS', outcome(rep), rep.get('run',{}).get('result'))
print('OBS stdout',repr(rep.get('run',{}).get('stdout')))
print(rep.get('mon'))
