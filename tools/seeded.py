"""Seeded-change tooling (self-validation of the checks, never part of a registered command).

  seeded.py import <worktree> <PID>     verify every <worktree>/seeded/<name>/ (suite passes with the change, the demo
                                         fails with it and passes without it) and copy it to /verif/seeded/<PID>-<name>/
  seeded.py eval <seed-dir-name> <CHECK> [<CHECK> ...]
                                         run the quick checks against an isolated copy of /repo with the change applied
                                         (/tmp/mutenv: copy of /repo + copy of the harness pointing at it) and record
                                         in meta.json which checks report a violation
"""
import glob, json, os, shutil, subprocess, sys, time

VERIF = '/verif'
MUT = os.environ.get('VERIF_MUTENV', '/tmp/mutenv')


def sh(cmd, cwd=None, env=None, timeout=3600):
    r = subprocess.run(cmd, shell=True, cwd=cwd, env=env, stdout=subprocess.PIPE, stderr=subprocess.STDOUT, text=True, timeout=timeout)
    return r.returncode, r.stdout


def run_demo(wt, d):
    demo = os.path.join(d, 'demo.bas')
    if not os.path.exists(demo):
        return None
    stdin = os.path.join(d, 'stdin.txt')
    cmd = 'cargo run --offline -q -p rusty_basic -- %s' % demo
    if os.path.exists(stdin):
        cmd += ' < %s' % stdin
    r = subprocess.run(cmd, shell=True, cwd=wt, stdout=subprocess.PIPE, stderr=subprocess.PIPE, timeout=600)
    return r.stdout, r.stderr


def suite(wt):
    rc, out = sh('cargo test --workspace --no-fail-fast --offline 2>&1 | grep -E "^test result"', cwd=wt)
    passed = failed = 0
    for l in out.splitlines():
        parts = l.split()
        passed += int(parts[3]); failed += int(parts[5])
    return passed, failed


def do_import(wt, pid):
    for d in sorted(glob.glob(os.path.join(wt, 'seeded', '*'))):
        name = os.path.basename(d)
        patch = os.path.join(d, 'patch.diff')
        print('==', pid, name)
        sh('git checkout -- .', cwd=wt)
        rc, out = sh('git apply --check %s' % patch, cwd=wt)
        if rc != 0:
            print('  patch does not apply:', out[:300]); continue
        base = run_demo(wt, d)
        sh('git apply %s' % patch, cwd=wt)
        p, f = suite(wt)
        mut = run_demo(wt, d)
        sh('git checkout -- .', cwd=wt)
        exp = None
        ef = os.path.join(d, 'expected.txt')
        if os.path.exists(ef):
            exp = open(ef, 'rb').read()
        ok_suite = (f == 0 and p >= 1216)
        differs = base is not None and mut is not None and base != mut
        base_matches = exp is None or (base is not None and base[0] == exp)
        print('  suite with change: %d passed %d failed; demo differs with change: %s; baseline matches expected.txt: %s' % (p, f, differs, base_matches))
        if not (ok_suite and differs):
            print('  NOT KEPT'); continue
        dst = os.path.join(VERIF, 'seeded', '%s-%s' % (pid, name))
        if os.path.exists(dst):
            shutil.rmtree(dst)
        shutil.copytree(d, dst)
        meta = json.load(open(os.path.join(dst, 'meta.json')))
        meta['confirmed'] = {'suite_passed': p, 'suite_failed': f, 'demo_stdout_without_change': base[0].decode('latin-1'),
                             'demo_stdout_with_change': mut[0].decode('latin-1'), 'demo_stderr_with_change': mut[1].decode('latin-1')[:400],
                             'how': 'tools/seeded.py import: patch applied in a scratch worktree, cargo test --workspace --offline, demo run with and without the patch'}
        json.dump(meta, open(os.path.join(dst, 'meta.json'), 'w'), indent=1)
        print('  kept as', dst)


def setup_mutenv():
    os.makedirs(MUT, exist_ok=True)
    # the committed HEAD of /repo (not its working tree, which may be mid-edit), compared by content
    sh('rm -rf %s/export && mkdir -p %s/export && git -C /repo archive HEAD | tar -x -C %s/export' % (MUT, MUT, MUT))
    rc, out = sh('rsync -aic --delete --exclude target --exclude .git %s/export/ %s/repo/' % (MUT, MUT))
    # rsync -a restores the old mtime, which cargo takes for 'unchanged': touch whatever was put back
    for l in out.splitlines():
        parts = l.split(' ', 1)
        if len(parts) == 2 and parts[0].startswith('>f'):
            f = os.path.join(MUT, 'repo', parts[1])
            if os.path.exists(f):
                os.utime(f, None)
    sh('rsync -a --delete --exclude target %s/harness/ %s/harness/' % (VERIF, MUT))
    for f in glob.glob(MUT + '/harness/*/Cargo.toml'):
        s = open(f).read().replace('"/repo/', '"%s/repo/' % MUT)
        open(f, 'w').write(s)


def do_eval(seed, checks):
    d = os.path.join(VERIF, 'seeded', seed)
    setup_mutenv()
    rc, out = sh('patch -p1 < %s' % os.path.join(d, 'patch.diff'), cwd=MUT + '/repo')
    if rc != 0:
        print('patch failed', out[:500]); return
    env = dict(os.environ)
    env.update({'VERIF_HARNESS': MUT + '/harness', 'VERIF_REPO': MUT + '/repo', 'VERIF_EVIDENCE': MUT + '/evidence', 'VERIF_REPLAYS': MUT + '/replays'})
    meta = json.load(open(os.path.join(d, 'meta.json')))
    res = meta.setdefault('detected_by', {})
    for c in checks:
        t = time.time()
        rc, out = sh('./check %s --tier quick' % c, cwd=VERIF, env=env, timeout=3600)
        viol = [l for l in out.splitlines() if l.startswith('VIOLATION')]
        fail = [l.strip()[:300] for l in out.splitlines() if l.strip().startswith('failing:')]
        res[c] = {'exit': rc, 'violations': len(viol), 'first': fail[:2], 'wall_s': round(time.time() - t)}
        print('%s on %s: exit %d, %d violation line(s) %s' % (c, seed, rc, len(viol), fail[:1]))
    json.dump(meta, open(os.path.join(d, 'meta.json'), 'w'), indent=1)


if __name__ == '__main__':
    if sys.argv[1] == 'import':
        do_import(sys.argv[2], sys.argv[3])
    elif sys.argv[1] == 'eval':
        do_eval(sys.argv[2], sys.argv[3:])
    elif sys.argv[1] == 'evalall':
        # every seeded change against the check of its own property and every check recorded before
        for d in sorted(os.listdir(os.path.join(VERIF, 'seeded'))):
            if len(sys.argv) > 2 and not any(d.startswith(x) for x in sys.argv[2:]):
                continue
            if not os.path.isdir(os.path.join(VERIF, 'seeded', d)):
                continue
            meta = json.load(open(os.path.join(VERIF, 'seeded', d, 'meta.json')))
            checks = [meta['property']] + [c for c in meta.get('detected_by', {}) if c != meta['property']]
            do_eval(d, checks)
    elif sys.argv[1] == 'evalfinal':
        # the check of the seed's own property plus every check that detected it before
        for d in sorted(os.listdir(os.path.join(VERIF, 'seeded'))):
            if not os.path.isdir(os.path.join(VERIF, 'seeded', d)):
                continue
            if len(sys.argv) > 2 and not any(d.startswith(x) for x in sys.argv[2:]):
                continue
            meta = json.load(open(os.path.join(VERIF, 'seeded', d, 'meta.json')))
            det = meta.get('detected_by', {})
            checks = [meta['property']] + [c for c, v in det.items() if c != meta['property'] and v.get('exit') == 1 and v.get('violations', 0) > 0]
            do_eval(d, checks)
    elif sys.argv[1] == 'evalpending':
        # seeds never evaluated, or whose last evaluation was a harness error (exit 2/3)
        for d in sorted(os.listdir(os.path.join(VERIF, 'seeded'))):
            if not os.path.isdir(os.path.join(VERIF, 'seeded', d)):
                continue
            meta = json.load(open(os.path.join(VERIF, 'seeded', d, 'meta.json')))
            det = meta.get('detected_by', {})
            checks = [c for c, v in det.items() if v.get('exit') not in (0, 1)]
            if meta['property'] not in det:
                checks.insert(0, meta['property'])
            if checks:
                do_eval(d, checks)
