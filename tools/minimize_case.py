"""minimize_case.py <replay.json>: shrinks the program of a crash-type replay case while the panic signature stays the same."""
import json, sys
sys.path.insert(0, '/verif')
from rv.minimize import ddmin_lines
from rv.worker import Worker, outcome
from rv.checks.common import panic_sig
rec = json.load(open(sys.argv[1]))
c = rec['case']
w = Worker()
def sig_of(src):
    rep = w.run(src, want=["files"] if c.get("files") else [], stdin=c.get("stdin", ""), files={} if c.get("files") else None, budget=100000, lpt1=c.get("lpt1"))
    if 'panic' in rep:
        return panic_sig(rep['panic'])
    return str(outcome(rep))
target = sig_of(c['src'])
print('target', target)
m = ddmin_lines(c['src'], lambda t: sig_of(t) == target)
print(m)
print('stdin', repr(c.get('stdin', ''))[:200])
