"""Runs one shard of a check in this process (debugging aid): shard_probe.py C01 quick 1 <k> <n-json>"""
import importlib, json, sys, time
sys.path.insert(0, '/verif')
from rv.driver import Ctx
pid, tier, seed, k, params = sys.argv[1], sys.argv[2], int(sys.argv[3]), int(sys.argv[4]), json.loads(sys.argv[5])
mod = importlib.import_module('rv.checks.' + pid.lower())
t = time.time()
r = mod.shard(Ctx(pid, tier, seed, k, 16, params))
print(k, 'evaluations', r.evaluations, 'failures', len(r.failures), 'discards', sum(r.discards.values()), 'wall', round(time.time() - t, 1))
