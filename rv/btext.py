"""String-, comment- and DATA-aware tokenizer for BASIC text, used by layout transforms and mutations."""
import re

KEYWORDS = set("""ACCESS AND APPEND AS BASE BEEP CALL CASE CLOSE CLS COLOR CONST DATA DECLARE DEF DEFDBL DEFINT DEFLNG
DEFSNG DEFSTR DIM DO DOUBLE ELSE ELSEIF END ENVIRON EQV ERROR EXIT FIELD FOR FUNCTION GET GOSUB GOTO IF IMP INPUT
INTEGER IS KILL LBOUND LET LINE LOCATE LONG LOOP LPRINT LSET MOD NAME NEXT NOT ON OPEN OPTION OR OUTPUT POKE PRINT
PUT RANDOM READ REDIM REM RESUME RETURN SEG SELECT SHARED SINGLE STATIC STEP STOP STRING SUB SYSTEM THEN TO TYPE
UBOUND UNTIL USING VIEW WEND WHILE WIDTH XOR LEN SCREEN ABSOLUTE BINARY LOCK UNLOCK READ WRITE""".split())

BUILTIN_FUNCS = set("""CHR$ CVD ENVIRON$ EOF ERR INKEY$ INSTR LBOUND LCASE$ LEFT$ LEN LTRIM$ MID$ MKD$ PEEK RIGHT$
RTRIM$ SPACE$ STR$ STRING$ UBOUND UCASE$ VAL VARPTR VARSEG""".split())

_word = re.compile(r"[A-Za-z][A-Za-z0-9.]*[%&!#$]?")
_num = re.compile(r"(\d+\.?\d*|\.\d+)[%&!#]?|&[Hh][0-9A-Fa-f]+[%&]?|&[Oo][0-7]+[%&]?")


def tokenize(src):
    """Returns a list of [kind, text]; kinds: ws, eol, str, comment, word, num, sym, data, other."""
    toks = []
    i = 0
    n = len(src)
    in_data = False
    while i < n:
        c = src[i]
        if c == "\r":
            if i + 1 < n and src[i + 1] == "\n":
                toks.append(["eol", "\r\n"])
                i += 2
            else:
                toks.append(["eol", "\r"])
                i += 1
            in_data = False
        elif c == "\n":
            toks.append(["eol", "\n"])
            i += 1
            in_data = False
        elif in_data:
            j = i
            while j < n and src[j] not in "\r\n":
                j += 1
            toks.append(["data", src[i:j]])
            i = j
        elif c in " \t":
            j = i
            while j < n and src[j] in " \t":
                j += 1
            toks.append(["ws", src[i:j]])
            i = j
        elif c == '"':
            j = i + 1
            while j < n and src[j] != '"' and src[j] not in "\r\n":
                j += 1
            if j < n and src[j] == '"':
                j += 1
            toks.append(["str", src[i:j]])
            i = j
        elif c == "'":
            j = i
            while j < n and src[j] not in "\r\n":
                j += 1
            toks.append(["comment", src[i:j]])
            i = j
        else:
            m = _word.match(src, i)
            if m:
                w = m.group(0)
                toks.append(["word", w])
                i = m.end()
                if w.upper() == "DATA":
                    in_data = True
                elif w.upper() == "REM":
                    j = i
                    while j < n and src[j] not in "\r\n":
                        j += 1
                    toks.append(["comment", src[i:j]])
                    i = j
                continue
            m = _num.match(src, i)
            if m:
                toks.append(["num", m.group(0)])
                i = m.end()
                continue
            if src[i:i + 2] in ("<=", ">=", "<>", "=<", "=>", "><"):
                toks.append(["sym", src[i:i + 2]])
                i += 2
            elif ord(c) < 128:
                toks.append(["sym", c])
                i += 1
            else:
                toks.append(["other", c])
                i += 1
    return toks


def untokenize(toks):
    return "".join(t[1] for t in toks)


def is_keyword(word):
    return word.upper().rstrip("$%&!#") in KEYWORDS and word[-1:] not in "%&!#"


def lines_of(toks):
    """Splits a token list into lines (each a token list including its eol token, if any)."""
    out = []
    cur = []
    for t in toks:
        cur.append(t)
        if t[0] == "eol":
            out.append(cur)
            cur = []
    if cur:
        out.append(cur)
    return out
