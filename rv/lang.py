"""Typed program AST for generated BASIC programs and its emitter.

Expressions are tuples:
  ('lit', t, v)            t in % & ! # $ ; v: int | Fraction | str
  ('var', name)            name carries its suffix, e.g. 'A%'
  ('bin', op, l, r)        op in + - * / MOD = <> < <= > >= AND OR
  ('un', op, e)            op in '-' 'NOT'
  ('par', e)
  ('call', fname, args)    built-in or user function
  ('idx', name, args)      array element
  ('fld', base, field)     record field

Statements are dicts with key 'k' (kind); block statements hold lists of statements.
The emitter records for every statement its id -> (row, first column, column just past the end)."""
from fractions import Fraction

PREC = {"OR": 1, "AND": 2, "NOT": 3, "=": 4, "<>": 4, "<": 4, "<=": 4, ">": 4, ">=": 4,
        "+": 5, "-": 5, "MOD": 6, "*": 7, "/": 7, "NEG": 8}
REL = ("=", "<>", "<", "<=", ">", ">=")
NUMT = "%&!#"
RANK = {"%": 0, "&": 1, "!": 2, "#": 3}


def suffix_type(name):
    return name[-1] if name[-1] in "%&!#$" else None


def fmt_fraction(v):
    """Decimal text of a dyadic rational (exact)."""
    v = Fraction(v)
    if v.denominator == 1:
        return str(v.numerator)
    sign = "-" if v < 0 else ""
    v = abs(v)
    whole = v.numerator // v.denominator
    frac = v - whole
    digits = ""
    n = 0
    while frac != 0 and n < 40:
        frac *= 10
        d = frac.numerator // frac.denominator
        digits += str(d)
        frac -= d
        n += 1
    return "%s%d.%s" % (sign, whole, digits)


def lit_text(t, v):
    """BASIC text of a literal. The parser has no type suffix on whole-number literals, so a LONG literal
    must lie outside the INTEGER range and a SINGLE/DOUBLE literal must have a fraction."""
    if t == "$":
        return '"' + v + '"'
    if t == "%":
        assert -32768 < v <= 32767, v
        return str(v)
    if t == "&":
        assert not (-32768 <= v <= 32767), v
        return str(v)
    s = fmt_fraction(v)
    assert "." in s, (t, v)
    return s if t == "!" else s + "#"


def expr_prec(e):
    k = e[0]
    if k == "bin":
        return PREC[e[1]]
    if k == "un":
        return PREC["NEG"] if e[1] == "-" else PREC["NOT"]
    if k == "lit" and e[1] != "$" and e[2] < 0:
        return PREC["NEG"]
    return 9


def emit_expr(e):
    k = e[0]
    if k == "lit":
        return lit_text(e[1], e[2])
    if k == "var":
        return e[1]
    if k == "par":
        return "(" + emit_expr(e[1]) + ")"
    if k == "un":
        inner = e[2]
        s = emit_expr(inner)
        if e[1] == "-":
            if expr_prec(inner) < PREC["NEG"] or s.startswith("-"):
                s = "(" + s + ")"
            return "-" + s
        if expr_prec(inner) < PREC["NOT"]:
            s = "(" + s + ")"
        return "NOT " + s
    if k == "bin":
        op, l, r = e[1], e[2], e[3]
        p = PREC[op]
        ls = emit_expr(l)
        rs = emit_expr(r)
        if expr_prec(l) < p:
            ls = "(" + ls + ")"
        if expr_prec(r) <= p and not (expr_prec(r) == PREC["NEG"] and p < PREC["NEG"]):
            rs = "(" + rs + ")"
        elif expr_prec(r) == PREC["NEG"] and p == PREC["NEG"]:
            rs = "(" + rs + ")"
        return ls + " " + op + " " + rs
    if k == "call":
        if not e[2]:
            return e[1]
        return e[1] + "(" + ", ".join(emit_expr(a) for a in e[2]) + ")"
    if k == "idx":
        return e[1] + "(" + ", ".join(emit_expr(a) for a in e[2]) + ")"
    if k == "fld":
        return emit_expr(e[1]) + "." + e[2]
    raise ValueError(e)


def emit_case_expr(c):
    if c[0] == "val":
        return emit_expr(c[1])
    if c[0] == "is":
        return "IS " + c[1] + " " + emit_expr(c[2])
    return emit_expr(c[1]) + " TO " + emit_expr(c[2])


def simple_text(s):
    """Text of a statement that fits on one line and has no nested statements."""
    k = s["k"]
    if k == "assign":
        return emit_expr(s["lhs"]) + " = " + emit_expr(s["rhs"])
    if k == "print":
        dev = s.get("dev")
        head = "PRINT"
        if dev == "lpt1":
            head = "LPRINT"
        elif dev is not None:
            head = "PRINT #%d," % dev[1]
        parts = []
        if s.get("using") is not None:
            parts.append("USING " + emit_expr(s["using"]) + ";")
        for it in s["items"]:
            if it[0] == "e":
                parts.append(emit_expr(it[1]))
            else:
                parts.append(it[0])
        body = ""
        for p in parts:
            if body and not (p in (";", ",")):
                body += " "
            body += p
        return head + (" " + body if body else "")
    if k == "data":
        return "DATA " + ", ".join(s["items"])
    if k == "read":
        return "READ " + ", ".join(emit_expr(v) for v in s["vars"])
    if k == "goto":
        return "GOTO " + s["label"]
    if k == "gosub":
        return "GOSUB " + s["label"]
    if k == "return":
        return "RETURN" + ((" " + s["label"]) if s.get("label") else "")
    if k == "onerror":
        if s["mode"] == "goto":
            return "ON ERROR GOTO " + s["label"]
        if s["mode"] == "zero":
            return "ON ERROR GOTO 0"
        return "ON ERROR RESUME NEXT"
    if k == "resume":
        if s["mode"] == "next":
            return "RESUME NEXT"
        if s["mode"] == "label":
            return "RESUME " + s["label"]
        return "RESUME"
    if k == "callsub":
        return s["name"] + ((" " + ", ".join(emit_expr(a) for a in s["args"])) if s["args"] else "")
    if k == "dim":
        return s["text"]
    if k == "const":
        return "CONST " + s["name"] + " = " + emit_expr(s["expr"])
    if k == "end":
        return "END"
    if k == "exit":
        return "EXIT " + s["what"]
    if k == "raw":
        return s["text"]
    if k == "comment":
        return "' " + s["text"]
    raise ValueError(k)


class Emitter:
    """Emits statements one per line (optionally joined by colons), tracking rows and columns."""

    def __init__(self, eol="\n", indent=0, rng=None, noise=0.0):
        self.eol = eol
        self.lines = []       # list of (text, eol)
        self.cur = ""
        self.spans = {}       # statement id -> (row, col_start, col_end_exclusive)
        self.rng = rng
        self.noise = noise
        self.depth = 0
        self.indent = indent
        self.pending_join = False

    def _row(self):
        return len(self.lines) + 1

    def _eol(self):
        if isinstance(self.eol, (list, tuple)):
            return self.rng.choice(self.eol)
        return self.eol

    def add_line(self, text):
        e = self._eol()
        # a line that ends in a lone CR followed by an empty line that ends in LF would read as one CRLF
        if self.lines and self.lines[-1][1] == "\r" and text == "" and e.startswith("\n"):
            e = "\r"
        self.lines.append((text, e))

    def newline(self):
        self.add_line(self.cur)
        self.cur = ""

    def text_at(self, text, sid=None, joinable=False):
        """Writes text as one statement; may join it to the previous one with a colon."""
        if self.cur:
            # something joinable is waiting on the current line
            if joinable and self.rng is not None and self.rng.random() < self.noise:
                # "Name:" would read as a label, so a bare SUB call is never followed by a tight colon
                tight = self.rng.random() >= 0.7 and not getattr(self, "last_text", "").replace("$", "").replace("%", "").isalnum()
                self.cur += ":" if tight else " : "
            else:
                self.newline()
        if not self.cur:
            if self.rng is not None and self.rng.random() < self.noise * 0.5:
                k = self.rng.randrange(3)
                if k == 0:
                    self.add_line("")
                elif k == 1:
                    self.add_line("' " + "note %d" % self._row())
                else:
                    self.add_line("   ")
            ind = " " * (self.indent * self.depth)
            if self.rng is not None and self.rng.random() < self.noise * 0.5:
                ind = " " * self.rng.randrange(0, 9)
            self.cur = ind
        start = len(self.cur) + 1
        self.cur += text
        self.last_text = text
        if sid is not None:
            self.spans[sid] = (self._row(), start, len(self.cur) + 1)
        if not joinable:
            self.newline()
        elif self.rng is not None and self.rng.random() < self.noise * 0.4:
            self.cur += "  ' c"
            self.newline()

    def flush(self):
        if self.cur:
            self.newline()

    def block(self, stmts):
        self.depth += 1
        for s in stmts:
            self.stmt(s)
        self.flush()
        self.depth -= 1

    def stmt(self, s):
        k = s["k"]
        sid = s.get("id")
        if k == "if":
            self.flush()
            first = True
            for k, (cond, body) in enumerate(s["arms"]):
                self.text_at(("IF " if first else "ELSEIF ") + emit_expr(cond) + " THEN", sid if first else (sid, "arm", k))
                first = False
                self.block(body)
            if s.get("else") is not None:
                self.text_at("ELSE")
                self.block(s["else"])
            self.text_at("END IF")
        elif k == "ifline":
            self.flush()
            t = "IF " + emit_expr(s["cond"]) + " THEN " + " : ".join(simple_text(x) for x in s["then"])
            if s.get("else") is not None:
                t += " ELSE " + " : ".join(simple_text(x) for x in s["else"])
            row = self._row()
            self.text_at(t, sid)
            # inner statements share the row of the single-line IF
            for x in s["then"] + (s.get("else") or []):
                if x.get("id") is not None and sid in self.spans:
                    self.spans[x["id"]] = self.spans[sid]
        elif k == "select":
            self.flush()
            self.text_at("SELECT CASE " + emit_expr(s["subj"]), sid)
            for k, (cases, body) in enumerate(s["cases"]):
                self.text_at("CASE " + ", ".join(emit_case_expr(c) for c in cases), (sid, "case", k))
                self.block(body)
            if s.get("else") is not None:
                self.text_at("CASE ELSE")
                self.block(s["else"])
            self.text_at("END SELECT")
        elif k == "for":
            self.flush()
            t = "FOR " + s["var"] + " = " + emit_expr(s["lo"]) + " TO " + emit_expr(s["hi"])
            if s.get("step") is not None:
                t += " STEP " + emit_expr(s["step"])
            self.text_at(t, sid)
            self.block(s["body"])
            self.text_at("NEXT" + ((" " + s["var"]) if s.get("next_var", True) else ""))
        elif k == "while":
            self.flush()
            self.text_at("WHILE " + emit_expr(s["cond"]), sid)
            self.block(s["body"])
            self.text_at("WEND")
        elif k == "do":
            self.flush()
            kw = s["kind"].upper()
            if s["pos"] == "top":
                self.text_at("DO " + kw + " " + emit_expr(s["cond"]), sid)
                self.block(s["body"])
                self.text_at("LOOP")
            else:
                self.text_at("DO", sid)
                self.block(s["body"])
                self.text_at("LOOP " + kw + " " + emit_expr(s["cond"]), (sid, "loop"))
        elif k == "label":
            self.flush()
            self.text_at(s["name"] + ":", sid)
        elif k in ("sub", "function"):
            self.flush()
            head = ("SUB " if k == "sub" else "FUNCTION ") + s["name"]
            if s["params"]:
                head += " (" + ", ".join(s["params"]) + ")"
            if s.get("static"):
                head += " STATIC"
            self.text_at(head, sid)
            self.block(s["body"])
            self.text_at("END SUB" if k == "sub" else "END FUNCTION")
        elif k == "type":
            self.flush()
            self.text_at("TYPE " + s["name"], sid)
            self.depth += 1
            for fname, ftype in s["fields"]:
                self.text_at(fname + " AS " + ftype)
            self.depth -= 1
            self.text_at("END TYPE")
        elif k in ("data", "dim", "const", "comment", "declare"):
            self.flush()
            self.text_at(simple_text(s) if k != "declare" else s["text"], sid)
        else:
            self.text_at(simple_text(s), sid, joinable=True)

    def program(self, stmts):
        for s in stmts:
            self.stmt(s)
        self.flush()
        return "".join(t + e for t, e in self.lines)


def emit_program(stmts, eol="\n", rng=None, noise=0.0, indent=2):
    em = Emitter(eol=eol, indent=indent, rng=rng, noise=noise)
    text = em.program(stmts)
    return text, em.spans


def number_statements(stmts, counter=None):
    """Assigns a unique id to every statement (depth first)."""
    if counter is None:
        counter = [0]
    for s in stmts:
        counter[0] += 1
        s["id"] = counter[0]
        for key in ("body", "else", "then"):
            if isinstance(s.get(key), list):
                number_statements(s[key], counter)
        if s["k"] == "if":
            for _, body in s["arms"]:
                number_statements(body, counter)
        if s["k"] == "select":
            for _, body in s["cases"]:
                number_statements(body, counter)
    return counter[0]
