"""Helpers shared by the checks: BASIC literals, packed PRINT programs, output parsing."""
import struct
from fractions import Fraction

from .worker import outcome

CRLF = "\r\n"


def lit_str(s):
    """A BASIC expression denoting the string s (no double quote can appear inside a literal)."""
    assert '"' not in s and "\r" not in s and "\n" not in s
    return '"' + s + '"'


def lit_num(n):
    if isinstance(n, int):
        return str(n) if n >= 0 else "-" + str(-n)
    raise TypeError(n)


def to_f32(x):
    return struct.unpack("<f", struct.pack("<f", float(x)))[0]


def num_print(v):
    """What PRINT writes for a whole number."""
    return (" %d " % v) if v >= 0 else ("%d " % v)


def parse_num_token(tok):
    """Parses a printed number (sign-or-space, decimal digits, trailing space) into a Fraction.

    Returns None if the token does not have the shape the property prescribes."""
    if len(tok) < 3 or tok[-1] != " ":
        return None
    body = tok[:-1]
    if body[0] == " ":
        digits = body[1:]
        sign = 1
    elif body[0] == "-":
        digits = body[1:]
        sign = -1
    else:
        return None
    if not digits or any(c not in "0123456789." for c in digits) or digits.count(".") > 1:
        if digits in ("inf", "NaN"):
            return digits
        return None
    if digits == ".":
        return None
    return sign * Fraction(digits)


class Packed:
    """Packs independent PRINT cases into one program; falls back to one program per case on trouble."""

    def __init__(self, worker, prelude="", want=(), budget=2_000_000):
        self.worker = worker
        self.prelude = prelude
        self.want = want
        self.budget = budget
        self.programs = 0

    def run(self, stmts):
        """stmts: list of BASIC statements, each printing exactly one line that contains no CR/LF.

        Returns a list with, per statement, ("line", text) or ("outcome", outcome_tuple, reply)."""
        src = self.prelude + "".join(s + "\n" for s in stmts)
        rep = self.worker.run(src, want=self.want, budget=self.budget)
        self.programs += 1
        oc = outcome(rep)
        if oc == ("ok",):
            out = rep["run"]["stdout"]
            lines = out.split(CRLF)
            if len(lines) == len(stmts) + 1 and lines[-1] == "":
                return [("line", l) for l in lines[:-1]]
        if len(stmts) == 1:
            if oc == ("ok",):
                return [("badsplit", rep["run"]["stdout"])]
            return [("outcome", oc, rep)]
        # bisect down to one case per program so that one failure cannot hide or be blamed on another
        mid = len(stmts) // 2
        return self.run(stmts[:mid]) + self.run(stmts[mid:])
