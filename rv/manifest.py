"""Writes /verif/MANIFEST.json from the table below (python3 -m rv.manifest)."""
import json
import os
import subprocess

ROOT = os.path.dirname(os.path.dirname(os.path.abspath(__file__)))

CHECKS = {
    "C01": {
        "technique": "runtime monitoring: generated core-language programs run by the real pipeline, stdout and outcome judged by an independent executable reference semantics (history + executable model); determinism re-run in a second worker process",
        "text": "Random typed programs over the whole core grammar (nesting to depth 5, all operators, five value types, all loop forms and step signs, DATA/READ, error endings 6/11/4) are executed by the real parser, linter, generator and VM; captured stdout is compared byte for byte (numbers by value in their type) and the outcome as (ok | error code + row) with rv/ref.py, a big-step reference over exact rationals. Cases that leave the exact numeric domain are discarded and counted, never judged. Held means: held on the executions counted in the evidence.",
        "note": "Trusts the reference semantics rv/ref.py as the prescription (written from the property statements and QBasic's documented behaviour). The generator includes bare numbers as conditions, UNTIL conditions whose true value is not -1, steps that are negated or come out of a FUNCTION with its own loop, limits written in terms of the counter's previous value, DATA inside blocks, MOD / AND / OR / division on LONG operands. Unquoted DATA strings, READ of a number into a string variable, rounding ties, values that are not exactly representable and zero FOR steps are outside the judged domain (discarded and counted); one known finding (KF-C01-1) is pinned.",
        "design": "DESIGN.md section 2 C01",
    },
    "C07": {
        "technique": "runtime monitoring: crash/step monitor (caught panic + site, worker death, parser input-operation budget from hook H2) around the real parse + lint on hostile inputs, plus an independent position oracle",
        "text": "About 1.5e5 (quick) / 2e6 (thorough) inputs - random bytes as UTF-8, token soups, byte/token mutations and every token prefix of all BASIC texts embedded in the repository, nesting stress to depth 200, semantic soups that reuse one name in many roles - are parsed and linted by the real code; any panic, process death, exceeded logical parser budget or error position outside the text is a violation.",
        "note": "Nesting is driven to depth 20000 (the parser now has its own limits of 128 blocks / 400 expression levels). CONST chains whose folded value grows geometrically are generated and the worker runs under a 2 GiB address-space limit, so a text that makes the checker allocate without bound is an observed crash. A hang inside the linter has no logical step counter and would be reported as inconclusive (wall-clock watchdog); stack depth is judged with the 8 MiB main-thread stack of the shipped binary; the worker receives text, so the file-reading entry point of the binary is not exercised.",
        "design": "DESIGN.md section 2 C07",
    },
    "C08": {
        "technique": "runtime monitoring: crash monitor (caught panic + site, worker death) around the real instruction generator and VM on type-directed generated programs over the whole repertoire, with hostile stdin and file histories",
        "text": "Accepted programs from a type-directed generator over every statement kind and built-in (wild argument values, files on a scratch directory, random stdin bytes incl. invalid UTF-8, LPRINT also against the shipped device), core-grammar programs and every accepted program embedded in the repository (as is and with literal mutations) are compiled and run by the real code; the outcome must be normal termination or a run-time error with code and position. Any panic, process death or code-less error is a violation.",
        "note": "Also run: the accepted ones of C07's semantic soups (one name in many roles, undefined calls in sub-expressions, impossible arrays, array parameters, dotted constants) and the witness programs of the audit round (findings/hunt). INKEY$ is excluded (polls the real terminal); an exhausted instruction budget is inconclusive (so recursion or loops without end are not judged); screen statements run against the harness's null screen and ENVIRON against a map, so defects behind the shipped standard-library wrapper are not visible.",
        "design": "DESIGN.md section 2 C08",
    },
    "C10": {
        "technique": "runtime monitoring: the real parser's tree for every enumerated operator chain compared with an independent precedence climber; differing shapes adjudicated by running chain and standard parenthesisation in the real interpreter on assignment vectors; literal nodes compared with the rule table",
        "text": "Bounded-exhaustive: every chain with at most 3 (quick) / 4 (thorough) binary and unary operators over distinct variables, each also with parentheses around every contiguous sub-chain, plus random chains up to 6 binary operators; decimal/&H/&O literals (all 65536 16-bit values in the thorough tier, sampled 32-bit values, boundaries, leading zeros, lower case, after unary minus) and fractional literals with and without #.",
        "note": "Shape comparison uses the public Expression enum; value adjudication compares the implementation with itself, so it cannot see a grouping error that is value-equivalent on all 32 vectors; the property's own precedence table is the reference. Fractional and # literals at the whole-number type boundaries are checked plain and after a unary minus; SINGLE literals with 25-32 digits next to the midpoint of two SINGLEs must denote the nearer one; one known finding (KF-C10-1: -2147483648.0# becomes a LONG) is pinned.",
        "design": "DESIGN.md section 2 C10",
    },
    "C15": {
        "technique": "runtime monitoring: structural invariant walk and abstract interpretation of the stack depths (all paths, effect table calibrated against the real VM at run time) over the generated instruction list at the quiescent point before execution, plus an online trace checker on per-instruction hook events (no pop on an empty stack, stack depth is a function of the statement address per activation, depths at procedure return equal those at entry, executed branches stay in their procedure)",
        "text": "Every accepted program embedded in the repository and 2e4 (quick) / 5e5 (thorough) generated programs are compiled and run under the monitors. Every instruction list the real generator returns is also walked by an abstract interpreter over all its control-flow paths (procedure, GOSUB and handler roots; joins must agree on the depth vector, procedures must end at their entry depths, carried FOR/SELECT depths must match); error edges are followed only dynamically; the evidence reports how many conditional branches were observed both taken and not taken, the opcode histogram and the number of distinct (address, depth-vector) states.",
        "note": "The return clause compares the value/register depths right after a procedure returned with those at the call (the VM drops a call's loop frames with the call); the other stacks must balance at the return itself. GOSUB depth is legitimately variable and excluded from the depth vector; statements inside an ON ERROR GOTO handler are exempt from the depth-function clause; the stack effect assumed per opcode by the abstract walk is checked against the real VM on every executed straight-line instruction (a mismatch is reported); a directed family drives failing block headers (FOR bounds and steps, WHILE / DO / IF / ELSEIF / SELECT / CASE expressions) under ON ERROR RESUME NEXT and RESUME NEXT; two known findings (KF-C15-1, KF-C15-2) are pinned.",
        "design": "DESIGN.md section 2 C15",
    },
    "C17": {
        "technique": "runtime monitoring: real interpreter run on bounded-exhaustive and random string-function calls, outputs judged online by an executable reference model (Python string operations)",
        "text": "Every enumerated instance of the defining equations is executed by the real pipeline (parse, lint, generate, VM) and compared with the model; exhaustive over the alphabet {a,B,space} up to length 3 (quick) / 5 (thorough) with counts -1..7, all 65536 INTEGER values for VAL(STR$(k)) in the thorough tier, plus random printable-ASCII strings and strings with characters above 127 (positions and counts in characters). Held means: held on the executions listed in the evidence.",
        "note": "Trusts Python's ASCII string operations as the model, the PRINT path for strings without CR/LF (C16) and the harness worker; UCASE$ / LCASE$ are expected to change the 26 ASCII letters only, also in strings with characters above 127.",
        "design": "DESIGN.md section 2 C17",
    },
}

CHECKS["C03"] = {
    "technique": "runtime monitoring: generated call histories run by the real code; printed trace, outcome and end-of-run globals judged by the reference call semantics; context invariants (state stack, memory blocks, reference counts, static block indices) walked by a hook at every statement boundary",
    "text": "Random call graphs of 1-5 SUB/FUNCTION definitions (a third STATIC), calls nested in argument lists, every argument shape x parameter type, aliasing, histories that interleave STATIC and ordinary subprograms from the main module and from inside other subprograms, DIM SHARED variables and CONSTs; stdout, outcome (code + row) and the typed dump of the global block are compared with rv/ref.py; the invariant monitor observed every statement boundary.",
    "note": "By-reference is judged as copy-in/copy-out with left-to-right write-back (the property's wording); by-reference elements with pure built-in calls in the subscript (A(LBOUND(A))) are generated; side-effecting subscripts (KF-C03-2) and REDIM of shared arrays in subprograms (KF-C03-1) are pinned known findings; array and record parameters are not generated.",
    "design": "DESIGN.md section 2 C03",
}
CHECKS["C05"] = {
    "technique": "runtime monitoring: generated jump/handler programs in which every statement prints a unique trace token are run by the real code; the printed control-flow history, ERR values, variable values after RESUME and the final outcome are judged by the reference control semantics; context invariants walked at every statement boundary",
    "text": "Label/jump layouts in the main module: GOSUB nesting incl. RETURN label and RETURN without GOSUB, backward GOTOs, GOTO out of 1-3 nested FOR/WHILE/DO loops with distinct bounds and steps (landing inside an enclosing loop or outside), failing statements of every kind at first/middle/last position of FOR, WHILE, IF, ELSEIF and CASE blocks, inside GOSUB subroutines, inside a called SUB and inside a FUNCTION called in an expression, under every handler form (RESUME, RESUME NEXT, RESUME label, ON ERROR RESUME NEXT, ON ERROR GOTO 0, none) enabled and disabled in every order.",
    "note": "Also generated: an ELSEIF condition, a non-first CASE expression or the NEXT increment failing, repaired by the handler and re-executed by RESUME; GOSUB/RETURN inside SUBs (RETURN without a GOSUB of its own, EXIT SUB with a GOSUB pending); RESUME label into a FOR body or SELECT CASE block. Also: RESUME / RESUME NEXT from inside the handler's own FOR and SELECT CASE blocks, handlers that fail (fatal), RETURN label across block depths. Not generated because the property does not define them or because of an open finding: RESUME NEXT after a failing block header, a handler left by GOTO, GOTO out of a GOSUB routine (KF-C15-2). A GOSUB made one or two FOR loops deep whose routine returns at once or calls a SUB that leaves by EXIT SUB from its own GOSUB routine inside its own loop is generated. RESUME label after an error raised one to three calls deep is generated (the calls are abandoned, the GOSUBs of the main module stay pending), with the label at the top level of the main module only (KF-C15-1).",
    "design": "DESIGN.md section 2 C05",
}
CHECKS["C06"] = {
    "technique": "runtime monitoring: slot-invariant hook that walks every live memory block at every statement boundary (variant tag vs declared type, value range), plus reference prediction of stored value or Overflow for every generated statement; repeated on the plain release build",
    "text": "Exhaustive over the boundary set of each numeric type x each target type x every route into a variable (assignment, by-value and by-ref parameter, SHARED variable in a SUB, FOR initial value/limit/increment, READ, INPUT from console and file, function result, array element, record field, CONST with suffix) and every arithmetic operator on all boundary pairs; random in-range values. The monitor observed every scalar slot (variables, array elements, record fields, parameters, counters) at every statement boundary of every run.",
    "note": "Also: exact quotients close to whole numbers, literals of 39-400 digits (must never be stored), literals at the edges of the whole-number types stored directly (negated &H / &O words, double negations, the minima) through seven routes; every computed value is also bound to a by-value parameter of the target type. Rounding ties and values not exactly representable in their type are discarded; the numeric workload is also run on the plain release profile (overflow checks off) because the verdict can flip between profiles.",
    "design": "DESIGN.md section 2 C06",
}
CHECKS["C09"] = {
    "technique": "runtime monitoring, metamorphic: original and layout-transformed program parsed, linted and run by the real code; parse trees (positions erased), checker verdicts and run-time behaviour compared",
    "text": "Every BASIC text embedded in the repository (accepted and rejected) and generated programs are transformed by keyword case, identifier case (consistent and inconsistent), blank/tab resizing, blank lines, trailing comments, LF/CRLF/CR/mixed line endings and newline<->colon between simple statements, each alone and all at once; any change of tree, verdict (accept | parse error | lint error kind) or behaviour (stdout, lpt1, outcome code) is a violation.",
    "note": "Which syntax error a rejected text gets is compared as a class only; the tree is not compared for the comment transform; one known finding (KF-C09-1) is pinned.",
    "design": "DESIGN.md section 2 C09",
}
CHECKS["C02"] = {
    "technique": "runtime monitoring, metamorphic: a program and its rewrite by an equivalence rule are run by the real code and their output, outcome code and generated-code structure compared (implementation against itself)",
    "text": "Generated core-language programs are rewritten on the AST by each rule of the property (FOR -> WHILE with explicit counter/limit/step temporaries, WHILE -> DO WHILE, DO UNTIL c -> DO WHILE NOT c, SELECT CASE -> IF/ELSEIF chain, single-line IF -> block IF, FOR -> STEP 1, loop body wrapped in IF -1 THEN ... END IF) at single sites and at all sites together, for positive, negative and run-time computed steps; every repository program gets conservative text-level rewrites (WHILE..WEND -> DO WHILE..LOOP, FOR -> STEP 1).",
    "note": "A site is rewritten only when provably applicable (literal CASE expressions, literal or freshly assigned non-zero steps); skipped sites are counted. Outcomes are compared as ok | error code because rows move.",
    "design": "DESIGN.md section 2 C02",
}
CHECKS["C14"] = {
    "technique": "runtime monitoring, metamorphic between the implementation's two evaluators: CONST form vs inlined expression run by the real code, compared on output, outcome and the run-time variant tag observed at the print hook; rejection verdicts compared with the run-time outcome of the expression",
    "text": "3e4 (quick) / 5e5 (thorough) constant expressions over literals at the type boundaries, zero divisors and earlier constants, all operators, depth <= 4, declared globally, used inside a SUB or declared inside a SUB, bare and with every suffix. Accepted: same stdout, outcome and run-time type as the inlined parenthesised expression (converted through a variable of the suffix type). Rejected with Overflow / DivisionByZero: the expression must raise exactly that error at run time.",
    "note": "A rejection with another error is a violation when the same expression evaluates normally at run time (that is how the folder's INTEGER-only AND/OR was found and repaired); when the run-time evaluation fails too it is counted and listed, not judged. Almost equal floating literals in comparisons and string constants of 32766 / 32767 characters are generated. SUBs whose parameter has the name of a global constant are generated: a CONST expression that uses the name there must be rejected (Invalid constant) or agree with the inlined form.",
    "design": "DESIGN.md section 2 C14",
}
CHECKS["C16"] = {
    "technique": "runtime monitoring: bytes captured on stdout, the printer device and the written files compared with a shadow column model (one column counter per device) over random interleaved PRINT histories and exhaustive boundary sets",
    "text": "Histories of PRINT/LPRINT/PRINT # statements interleaved over screen, LPT1 and two files (numbers of all five types and signs, strings with embedded CR/LF, separators in every position), the exhaustive column-boundary set (start column 0..30 x width 0..16 x separator x device) and PRINT USING with all format strings up to length 4 (quick) / 5 (thorough) over {# , . \\ space ! a} plus random longer ones.",
    "note": "String items contain characters above 127 (one column each); floating negative zeros are printed like any zero; a minus sign next to a thousands separator of a USING field stands directly in front of the number. Histories also contain FUNCTIONs (ordinary and STATIC) that print on another device in the middle of a PRINT list, and items that fail under ON ERROR RESUME NEXT (what was written stays, the next PRINT continues there). An embedded CR/LF may be written raw or as CR LF; PRINT USING cases outside the model (number wider than the field, commas outside thousands positions, rounding ties) are discarded and counted; LPRINT is observed on the harness's in-memory printer.",
    "design": "DESIGN.md section 2 C16",
}
CHECKS["C12"] = {
    "technique": "runtime monitoring: (a) run-time monitor for Type mismatch (13) and wrong-kind assertions on accepted programs, (b) metamorphic renaming of user identifiers, (c) enumerated single ill-typing edits with a known expected error family and location, all against the real checker and VM",
    "text": "(a) accepted programs of the whole-repertoire workload run under the monitor; (b) each program (accepted or rejected) consistently renamed, verdict must not change; (c) typed generator programs with a string literal put, one at a time, into every expression position that requires a number (operands, parentheses, call arguments, array subscripts, CASE expressions, FOR bounds, conditions, assignment sources), plus missing label, duplicate definition, NEXT for the wrong counter, wrong argument count and by-reference type edits: each must be rejected with an error of the matching family at the row of the edited statement.",
    "note": "Also: the right and the wrong type at every argument position of 17 built-in calls; (d) the same program with its SUB/FUNCTION texts before and after the module-level code must get the same verdict, and a GOTO from a procedure to a label of the module must be rejected in both layouts. (e) one ill-formed statement (GOTO / GOSUB / RETURN / ON ERROR GOTO / RESUME to a missing label, a SUB or FUNCTION call with the wrong argument count in several expression positions, a by-reference argument of the wrong type, a second DIM / CONST / label of the same name, NEXT for the wrong counter, a number where a string is needed next to fixed-length strings, string variables and literals) put after a simple statement chosen anywhere in the program - any block nesting, main module and procedure bodies - must be rejected with the matching family at the row of the new statement. Error families are coarse sets fixed in the oracle table; positions are checked by row.",
    "design": "DESIGN.md section 2 C12",
}
CHECKS["C19"] = {
    "engine": "bitmon",
    "technique": "runtime monitoring: direct calls of the real bit-level functions compared online with the machine operations (exhaustive over all 65536 INTEGER values), plus the same primitives observed end to end through BASIC programs",
    "text": "bitmon calls qb_and, qb_or, Variant::and/or/unary_not, i32_to_bytes, bytes_to_i32, f64_to_bytes, bytes_to_f64 under catch_unwind in the checked build: exhaustive for all unary/conversion cases over the 65536 INTEGER values and all byte pairs, structured and random operand pairs, all powers of two, boundary mantissas, subnormals, |x| >= 2^63 and random finite bit patterns. The Python shards run AND/OR/NOT, PEEK/POKE of an INTEGER variable and MKD$/CVD through the real pipeline.",
    "note": "The CPU's integer and IEEE-754 operations are the oracle; doubles enter BASIC programs through CVD of their IEEE bytes.",
    "design": "DESIGN.md section 2 C19",
}
CHECKS["C20"] = {
    "engine": "pcmon",
    "technique": "runtime monitoring: every sub-parser of real rusty_pc parsers wrapped in an observer that checks the backtracking/error contract online (position before, result class, position after), root result compared with a denotational model of the documented semantics; bounded-exhaustive expression enumeration over all inputs up to length 6",
    "text": "Parser expressions over all primitives and combinators of rusty_pc (alphabet {a,b,c}, all 1093 inputs of length <= 6): exhaustive to depth 1 plus 3e5 random expressions of depth 2-4 in the quick tier (3e8 judged runs), depth-2 strata in a fixed order plus 2e6 random deeper expressions in the thorough tier (4e10 runs; the depth-2 space of 1.2e12 expressions cannot be completed and the evidence states the fraction reached). Divergence is handled with logical fuel on both sides.",
    "note": "The model is written from the doc comments; where they are silent (position after a fatal error, which soft error a failed choice reports, and_then_err recovering after a moved child) the reading that makes the real code correct was taken, so those corners are not judged.",
    "design": "DESIGN.md section 2 C20",
}

ALL = ["C%02d" % i for i in range(1, 21)]

CHECKS["C04"] = {
    "technique": "runtime monitoring: shadow-model monitor - every write the generated program makes is mirrored into a model keyed by (variable, index tuple, field path); printed read-backs and the hook's end-of-run dump of every element and field of every array and record are compared with the model",
    "text": "Straight-line programs over arrays of 1-3 dimensions with assorted lower bounds (element types: the five built-ins, STRING * n, records with a nested record and fixed strings), record and fixed-string variables; bounded-exhaustive over every shape with at most 24 (quick) / 60 (thorough) elements: write a unique value to every element, read all back, then access EVERY tuple of the one-step-extended index box that lies outside the bounds (reads and writes, counted by an ON ERROR handler) and compare the complete dump; random mixes with subscripts given as INTEGER, LONG and SINGLE expressions, REDIM histories (explicit and bare), fixed strings assigned directly, through a by-reference parameter and by record copy.",
    "note": "Fixed-length string fields are also written through the $-qualified spelling. String values include characters above 127 (a STRING * n slot holds n characters, not n bytes). Array parameters, REDIM inside procedures and ERASE are not generated; rounding ties are discarded; a NUL character ends a fixed-length string (pinned by a repository test, not judged).",
    "design": "DESIGN.md section 2 C04",
}
CHECKS["C18"] = {
    "technique": "runtime monitoring: history + executable model - generated histories of file operations run in the real interpreter on a scratch directory, every step reporting its result or ERR code; the report and the directory contents at the end are checked against a model of the store and of the handle table; metamorphic console-vs-file reader comparison",
    "text": "Random histories of 6-30 steps over three handles, five file names (sequential and random-access), a name in a missing directory and the name of a directory, some files pre-existing; steps OPEN (OUTPUT/APPEND/INPUT/RANDOM), PRINT #, LINE INPUT #, INPUT # (string and numeric variables), EOF, CLOSE (one/two/all), KILL, NAME, FIELD, LSET, PUT, GET, about a third violating the protocol (handle in use -> 55, missing file -> 53, past the end -> 62, closed handle / wrong mode -> a file error, FIELD wider than the record -> 50); hostile texts (commas, quotes, blanks, tabs, CR/LF/CRLF mixes, no final newline) are read from the console and from a file by the same INPUT / LINE INPUT sequence and must split identically.",
    "note": "Also generated: a second FIELD statement on one handle (a second view of the record buffer), numeric as well as string variables in an INPUT # that runs past the end of the file. Not generated because the property does not define them: the same file open on two handles, KILL/NAME of an open file, NAME onto an existing file, GET beyond the file's extent; padding of short FIELD values (blank or NUL) is not judged.",
    "design": "DESIGN.md section 2 C18",
}
CHECKS["C11"] = {
    "technique": "runtime monitoring with fault injection: generated programs with recorded statement spans get one fault injected; the position(s) carried by the real parser's, checker's or interpreter's diagnostic are compared with the emitter's span table and, for run-time faults, with the active call statements computed by the reference semantics",
    "text": "Programs with 1-5 SUB/FUNCTIONs emitted under blank lines, comment lines, trailing comments, colon-joined statements, random indentation and LF / CRLF / CR / mixed line ends; one fault at a statement chosen anywhere in the main module or a procedure body at nesting depth 0-4: run-time (division by zero, overflow, subscript out of range) - the reported list must be [failing statement, call sites innermost first ... main module] with each (row, col) inside that statement's span; static (type mismatch, undefined label, wrong argument count) - row/col inside the statement; syntax (20 broken texts) - the statement's row, column between its first character and the next token.",
    "note": "The emitter's own row/column bookkeeping is the position oracle; an overflowing FOR increment may be reported on the FOR or the NEXT row; run-time faults the reference does not reach are not judged.",
    "design": "DESIGN.md section 2 C11",
}
CHECKS["C13"] = {
    "technique": "runtime monitoring: generated programs assign a fresh value through every spelling of a name and print every spelling in every scope; the printed values (which spellings share a variable) and the checker's accept/reject verdict are judged by an executable model of the name-resolution rules",
    "text": "Programs with 0-3 DEFtype statements (random letter ranges, also in the middle of the main module), global DIM x AS type, DIM SHARED (extended and compact), CONST, bare DIM, 0-2 SUBs with bare / suffixed / extended parameters, local DIM AS and local CONST; ten base names that share first letters, each use in random letter case with no suffix or one of the five suffixes; every scope prints all 60 spellings, the main module again after the calls; a quarter of the programs carry one use that must be rejected (other suffix on an extended name, second DIM of a name, assignment to a CONST).",
    "note": "Trusts the resolution model in rv/checks/c13.py (from the property statement and the README). Function-result names: half of the programs define one or two FUNCTIONs with a bare name and a bare parameter (typed by the DEFtype table), called bare or with the matching suffix and assigned inside under either spelling. DEFtype statements between the procedures type the FUNCTIONs after them and nothing before (bare main-module variables with the same first letters are printed). Not generated: a variable or parameter with the base name of a function, a foreign suffix on a CONST or function name, DEFtype after the first SUB, arrays and records.",
    "design": "DESIGN.md section 2 C13",
}
NOT_BUILT_REASON = "check not built yet in this round (design in DESIGN.md section 2); nothing is claimed for it"


def main():
    hooks = subprocess.run(["git", "-C", "/repo", "log", "--format=%H %s"], capture_output=True, text=True).stdout.splitlines()
    hook_commits = [l.split()[0] for l in hooks if "verif hook" in l]
    checks = []
    for pid in ALL:
        if pid not in CHECKS:
            continue
        c = CHECKS[pid]
        checks.append({
            "property_id": pid,
            "quick_cmd": "./check %s --tier quick" % pid,
            "thorough_cmd": "./check %s --tier thorough" % pid,
            "evidence_file": "/verif/evidence/%s.json" % pid,
            "replay_cmd_template": "./check %s --replay {path}" % pid,
            "engine": c.get("engine", "rbmon"),
            "level_claimed": {"category": c.get("category", "exploration"), "text": c["text"], "design_ref": c["design"]},
            "level_note": c["note"],
            "technique": c["technique"],
        })
    m = {
        "version": 1,
        "setup_cmd": "cd /verif/harness && CARGO_NET_OFFLINE=true cargo build --offline --profile verif && CARGO_NET_OFFLINE=true cargo build --offline --profile verifrel -p rbmon",
        "hooks": {
            "guard": "cargo feature `verif` (rusty_basic/verif, which enables rusty_parser/verif)",
            "enable": "the harness workspace /verif/harness depends on /repo's crates by path with features = [\"verif\"]; every check runs `cargo build --offline --profile verif` there first, so it rebuilds from /repo's working tree",
            "baseline_off_cmd": "cd /repo && cargo test --workspace --no-fail-fast --offline",
            "source_commits": hook_commits,
            "add_only": True,
        },
        "engines": [
            {"name": "rbmon", "path": "/verif/harness/rbmon", "serves_properties": [p for p in ALL if p in CHECKS and CHECKS[p].get("engine", "rbmon") == "rbmon"],
             "kind_free_text": "Rust worker linking the real parser, linter, instruction generator and VM (feature verif) with runtime monitors; driven by the Python oracles in /verif/rv"},
            {"name": "pcmon", "path": "/verif/harness/pcmon", "serves_properties": [p for p in ALL if p in CHECKS and CHECKS[p].get("engine") == "pcmon"],
             "kind_free_text": "Rust monitor for the parser-combinator library: per-node observers plus a denotational model"},
            {"name": "bitmon", "path": "/verif/harness/bitmon", "serves_properties": [p for p in ALL if p in CHECKS and CHECKS[p].get("engine") == "bitmon"],
             "kind_free_text": "Rust monitor comparing the bit-level primitives with the machine operations"},
        ],
        "checks": checks,
        "notes": "All checks are runtime monitors over the real code; see DESIGN.md. Exit codes: 0 held on what was explored, 1 violation, 2 harness error, 3 inconclusive.",
        "not_applicable": [{"property_id": p, "reason": NOT_BUILT_REASON} for p in ALL if p not in CHECKS],
    }
    with open(os.path.join(ROOT, "MANIFEST.json"), "w") as f:
        json.dump(m, f, indent=1)
    print("wrote MANIFEST.json with %d checks" % len(checks))


if __name__ == "__main__":
    main()
