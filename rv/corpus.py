"""Extracts every BASIC text embedded in the repository: fixtures/*.BAS plus string and raw-string
literals of the Rust sources (tests and #[cfg(test)] modules are where they live; the worker itself
decides which ones are programs)."""
import glob
import os
import re

REPO = os.environ.get("VERIF_REPO") or "/repo"
KEYWORDS = re.compile(
    r"\b(PRINT|DIM|IF|FOR|NEXT|WHILE|WEND|DO|LOOP|SELECT|CASE|SUB|FUNCTION|DECLARE|CONST|INPUT|GOTO|GOSUB|"
    r"RETURN|DATA|READ|OPEN|CLOSE|TYPE|END|LET|DEFINT|DEFSTR|DEFLNG|DEFSNG|DEFDBL|ON ERROR|RESUME|LPRINT|"
    r"LOCATE|COLOR|CLS|REDIM|STATIC|SHARED|ELSE|THEN|SYSTEM|NAME|KILL|FIELD|LSET|GET|PUT|POKE|ENVIRON|VIEW|WIDTH|BEEP)\b",
    re.I,
)


def rust_string_literals(text):
    """Yields the values of the string literals of a Rust source text."""
    i = 0
    n = len(text)
    out = []
    while i < n:
        c = text[i]
        if c == "/" and i + 1 < n and text[i + 1] == "/":
            j = text.find("\n", i)
            i = n if j < 0 else j + 1
        elif c == "/" and i + 1 < n and text[i + 1] == "*":
            depth = 1
            i += 2
            while i < n and depth > 0:
                if text.startswith("/*", i):
                    depth += 1
                    i += 2
                elif text.startswith("*/", i):
                    depth -= 1
                    i += 2
                else:
                    i += 1
        elif c == "r" and i + 1 < n and text[i + 1] in '"#' and (i == 0 or not (text[i - 1].isalnum() or text[i - 1] == "_")):
            j = i + 1
            hashes = 0
            while j < n and text[j] == "#":
                hashes += 1
                j += 1
            if j < n and text[j] == '"':
                end = text.find('"' + "#" * hashes, j + 1)
                if end < 0:
                    return out
                out.append(text[j + 1:end])
                i = end + 1 + hashes
            else:
                i += 1
        elif c == "b" and i + 1 < n and text[i + 1] == '"':
            i += 1
        elif c == '"':
            j = i + 1
            buf = []
            while j < n and text[j] != '"':
                ch = text[j]
                if ch == "\\" and j + 1 < n:
                    e = text[j + 1]
                    j += 2
                    if e == "n":
                        buf.append("\n")
                    elif e == "r":
                        buf.append("\r")
                    elif e == "t":
                        buf.append("\t")
                    elif e == "0":
                        buf.append("\0")
                    elif e == "\\":
                        buf.append("\\")
                    elif e == '"':
                        buf.append('"')
                    elif e == "'":
                        buf.append("'")
                    elif e == "x":
                        try:
                            buf.append(chr(int(text[j:j + 2], 16)))
                        except ValueError:
                            pass
                        j += 2
                    elif e == "u":
                        k = text.find("}", j)
                        try:
                            buf.append(chr(int(text[j + 1:k], 16)))
                        except ValueError:
                            pass
                        j = k + 1
                    elif e == "\n":
                        while j < n and text[j] in " \t\r\n":
                            j += 1
                    else:
                        buf.append(e)
                else:
                    buf.append(ch)
                    j += 1
            out.append("".join(buf))
            i = j + 1
        elif c == "'":
            # char literal or lifetime
            if i + 2 < n and text[i + 1] == "\\":
                j = text.find("'", i + 2)
                i = (j + 1) if 0 <= j < i + 12 else i + 1
            elif i + 2 < n and text[i + 2] == "'":
                i += 3
            else:
                i += 1
        else:
            i += 1
    return out


def load(repo=REPO):
    """Returns a sorted list of distinct candidate BASIC texts."""
    texts = set()
    for p in glob.glob(os.path.join(repo, "fixtures", "*.BAS")) + glob.glob(os.path.join(repo, "fixtures", "*.bas")):
        try:
            with open(p, "rb") as f:
                texts.add(f.read().decode("utf-8", "replace"))
        except OSError:
            pass
    for crate in ("rusty_basic", "rusty_linter", "rusty_parser"):
        for p in glob.glob(os.path.join(repo, crate, "src", "**", "*.rs"), recursive=True):
            try:
                with open(p, encoding="utf-8", errors="replace") as f:
                    src = f.read()
            except OSError:
                continue
            for s in rust_string_literals(src):
                if len(s) < 3 or len(s) > 20000:
                    continue
                if "\n" in s or KEYWORDS.search(s) or re.search(r"\w\s*=\s*\S", s):
                    if "{}" in s and "\n" not in s:
                        continue  # format! templates
                    texts.add(s)
    # the witness programs of the audit round (findings/hunt/<property>/<finding>/*.bas): inputs on which the pinned tree
    # once crashed or misbehaved; they are corpus, their expected behaviour is not used
    here = os.path.dirname(os.path.dirname(os.path.abspath(__file__)))
    try:
        with open(os.path.join(here, "findings", "hunt_excluded.txt")) as f:
            excluded = set(l.strip() for l in f if l.strip() and not l.startswith("#"))
    except OSError:
        excluded = set()
    for p in glob.glob(os.path.join(here, "findings", "hunt", "*", "*", "*.bas")):
        if os.path.relpath(os.path.dirname(p), os.path.join(here, "findings", "hunt")) in excluded:
            continue
        try:
            with open(p, "rb") as f:
                t = f.read().decode("utf-8", "replace")
        except OSError:
            continue
        if 3 <= len(t) <= 20000:
            texts.add(t)
    return sorted(texts)


def classify(worker, texts, stop="lint"):
    """Splits candidate texts into accepted programs and rejected ones (with their error kind)."""
    accepted, rejected = [], []
    for t in texts:
        rep = worker.run(t, stop=stop)
        if rep.get("parse", {}).get("ok") and rep.get("lint", {}).get("ok"):
            accepted.append(t)
        else:
            rejected.append(t)
    return accepted, rejected
