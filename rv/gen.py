"""Random typed program generator over the core language (rv.lang AST)."""
from fractions import Fraction

from .lang import NUMT, RANK, REL, number_statements

INT_VARS = ["A%", "B%", "C%"]
LONG_VARS = ["L&", "M&"]
SNG_VARS = ["X!", "Y!"]
DBL_VARS = ["D#", "E#"]
STR_VARS = ["S$", "T$"]
VARS = {"%": INT_VARS, "&": LONG_VARS, "!": SNG_VARS, "#": DBL_VARS, "$": STR_VARS}
WORDS = ["a", "B", "cd", "Hello", "x y", "", "zz", "QB", "0", "12"]
BLOCK_KINDS = ["if", "select", "for", "while", "do", "ifline"]


class Gen:
    def __init__(self, rng, max_depth=4, size=14, errors=0.25, allow_fractions=True):
        self.rng = rng
        self.max_depth = max_depth
        self.size = size
        self.err_rate = errors
        self.allow_fractions = allow_fractions
        self.loop_id = 0
        self.pairs = set()
        self.kinds = set()
        self.data_items = []
        self.reserved = set()     # loop counters that the body must not assign
        self.extra_vars = {}
        self.label_n = 0

    # ---- literals ------------------------------------------------------
    def lit(self, t):
        r = self.rng
        if t == "$":
            return ("lit", "$", r.choice(WORDS))
        if t == "%":
            return ("lit", "%", r.choice([0, 1, 2, 3, 4, 5, 7, 10, -1, -2, -3, 12, 100, r.randrange(-20, 21)]))
        if t == "&":
            # also values that a SINGLE cannot hold exactly (above 2^24)
            return ("lit", "&", r.choice([40000, 65536, 100000, -40000, 70000, 32768, -32769, 16777217, 2147483647, -16777219]))
        k = r.choice([1, 2, 3, 5, 6, 7, 9, 10, 11, 13, -1, -3, -5, -6, 21, 30])
        den = r.choice([2, 4, 4, 8])
        v = Fraction(k, den)
        if v.denominator == 1:
            v += Fraction(1, 2)
        return ("lit", t, v)

    def var(self, t):
        pool = VARS[t] + self.extra_vars.get(t, [])
        return ("var", self.rng.choice(pool))

    # ---- expressions ---------------------------------------------------
    def num_type(self, max_t=None):
        ts = ["%", "%", "%", "&", "!", "!", "#"] if self.allow_fractions else ["%", "%", "&"]
        if max_t is not None:
            ts = [t for t in ts if RANK[t] <= RANK[max_t]] or ["%"]
        return self.rng.choice(ts)

    def expr(self, t, depth=0):
        """An expression whose static type is t (for numeric t: at most t, so that it converts implicitly)."""
        r = self.rng
        if t == "$":
            x = r.random()
            if depth >= 2 or x < 0.45:
                return self.lit("$") if r.random() < 0.5 else self.var("$")
            return ("bin", "+", self.expr("$", depth + 1), self.expr("$", depth + 1))
        x = r.random()
        if depth >= 3 or x < 0.30:
            tt = self.num_type(t)
            return self.lit(tt) if r.random() < 0.45 else self.var(tt)
        if x < 0.62:
            op = r.choice(["+", "-", "+", "-", "*"])
            return ("bin", op, self.expr(t, depth + 1), self.expr(t, depth + 1))
        if x < 0.68:
            # division: keep the quotient dyadic
            den = ("lit", "%", r.choice([2, 4, 8, 2, 1, -2] + ([0] if r.random() < self.err_rate * 0.3 else [])))
            if r.random() < 0.15:
                den = self.var("%")
            return ("bin", "/", self.expr(t, depth + 1), den)
        if x < 0.74:
            left = self.expr("%", depth + 1)
            right = ("lit", "%", r.choice([2, 3, 5, 7, -3])) if r.random() < 0.8 else self.expr("%", depth + 1)
            if t != "%" and r.random() < 0.3:
                # operands of type LONG that hold small values
                v = self.var("&")
                small = ("bin", "+", ("bin", "-", v, v), ("lit", "%", r.choice([1, 6, 9, -4, 100])))
                if r.random() < 0.5:
                    left = small
                else:
                    right = small
            return ("bin", "MOD", left, right)
        if x < 0.80:
            return ("un", "-", self.expr(t, depth + 1))
        if x < 0.86:
            return ("par", self.expr(t, depth + 1))
        if x < 0.93:
            return self.cond(depth + 1)
        return ("bin", r.choice(["AND", "OR"]), self.expr("%", depth + 1), self.expr("%", depth + 1))

    def cond(self, depth=0):
        """A condition: mostly comparisons, combined with AND/OR/NOT."""
        r = self.rng
        x = r.random()
        if depth >= 3 or x < 0.6:
            y = r.random()
            if y < 0.08:
                # a bare number as the condition: true iff non-zero, whatever its type (0.25 is true)
                t = self.num_type()
                if t == "!" and self.allow_fractions and r.random() < 0.5:
                    return ("lit", "!", Fraction(r.choice([1, -1, 3, 1]), r.choice([4, 8, 2])))
                return self.expr(t, 2)
            if y < 0.25:
                return ("bin", r.choice(REL), self.expr("$", 2), self.expr("$", 2))
            t = self.num_type()
            return ("bin", r.choice(REL), self.expr(t, depth + 1), self.expr(t, depth + 1))
        if x < 0.75:
            return ("bin", "AND", self.cond(depth + 1), self.cond(depth + 1))
        if x < 0.9:
            return ("bin", "OR", self.cond(depth + 1), self.cond(depth + 1))
        return ("un", "NOT", self.cond(depth + 1))

    # ---- statements ------------------------------------------------------
    def assign(self):
        r = self.rng
        t = r.choice(["%", "%", "&", "!", "#", "$", "%"]) if self.allow_fractions else r.choice(["%", "%", "&", "$"])
        pool = [v for v in VARS[t] + self.extra_vars.get(t, []) if v not in self.reserved]
        name = r.choice(pool)
        if t == "$":
            rhs = self.expr("$")
        else:
            # the value may be of any numeric type: it is converted
            src_t = self.num_type() if r.random() < 0.7 else t
            rhs = self.expr(src_t)
            if r.random() < self.err_rate * 0.15 and t == "%":
                rhs = ("bin", "*", ("lit", "%", 300), ("lit", "%", r.choice([200, 300])))
            if r.random() < self.err_rate * 0.1 and t == "%":
                rhs = ("lit", "&", 40000)
        return {"k": "assign", "lhs": ("var", name), "rhs": rhs}

    def print_stmt(self):
        r = self.rng
        n = r.choice([1, 1, 1, 2, 2, 3])
        if r.random() < 0.06:
            return {"k": "print", "items": []}      # a bare PRINT: ends the current line
        items = []
        for i in range(n):
            t = r.choice(["%", "&", "!", "#", "$", "%", "$"]) if self.allow_fractions else r.choice(["%", "&", "$"])
            if r.random() < 0.55:
                e = self.var(t)
            else:
                e = self.expr(t, 1)
            items.append(("e", e))
            if i < n - 1:
                items.append((r.choice([";", ";", ","]),))
        if r.random() < 0.12:
            items.append((r.choice([";", ","]),))
        return {"k": "print", "items": items}

    def read_stmt(self):
        r = self.rng
        n = r.choice([1, 1, 2])
        targets = []
        for _ in range(n):
            t = r.choice(["%", "&", "!", "#", "$"]) if self.allow_fractions else r.choice(["%", "&", "$"])
            pool = [v for v in VARS[t] if v not in self.reserved]
            targets.append(("var", r.choice(pool)))
            # matching DATA item (sometimes omitted so that READ runs out of data)
            if r.random() > self.err_rate * 0.12:
                self.data_items.append(self.data_item(t))
        return {"k": "read", "vars": targets}

    def data_item(self, t):
        r = self.rng
        if t == "$":
            w = r.choice([w for w in WORDS if w and " " not in w] + ["two words", "a,b"])
            # unquoted DATA strings are not supported by the parser under test: always quote
            return ("$", w, '"' + w + '"')
        if t in "%&":
            v = r.choice([0, 1, 5, -7, 12, 300]) if t == "%" else r.choice([40000, -70000, 5])
            return ("%" if -32768 <= v <= 32767 else "&", v, str(v))
        v = Fraction(r.choice([1, 3, 5, -7, 9]), r.choice([2, 4]))
        from .lang import fmt_fraction
        return (t, v, fmt_fraction(v))

    def simple(self):
        x = self.rng.random()
        if x < 0.45:
            return self.assign()
        if x < 0.92:
            return self.print_stmt()
        return self.read_stmt()

    def block(self, depth, outer):
        r = self.rng
        n = r.choice([1, 1, 2, 2, 3])
        out = []
        for _ in range(n):
            out.append(self.stmt(depth, outer))
        return out

    def stmt(self, depth, outer=None):
        r = self.rng
        if depth >= self.max_depth or r.random() < 0.55:
            return self.simple()
        kind = r.choice(BLOCK_KINDS)
        if outer is not None:
            self.pairs.add((outer, kind))
        self.kinds.add(kind)
        if kind == "if":
            arms = [(self.cond(), self.block(depth + 1, "if"))]
            for _ in range(r.choice([0, 0, 1, 2])):
                arms.append((self.cond(), self.block(depth + 1, "if")))
            els = self.block(depth + 1, "if") if r.random() < 0.5 else None
            return {"k": "if", "arms": arms, "else": els}
        if kind == "ifline":
            then = [self.simple() for _ in range(r.choice([1, 1, 2]))]
            els = [self.simple() for _ in range(r.choice([1, 2]))] if r.random() < 0.5 else None
            then = [s for s in then if s["k"] != "read"] or [self.print_stmt()]
            if els is not None:
                els = [s for s in els if s["k"] != "read"] or [self.print_stmt()]
            if els is not None and then[-1]["k"] == "print":
                # known finding KF-C01-1: a PRINT that is bare or ends in a separator directly before ELSE is a syntax error
                while then[-1]["items"] and then[-1]["items"][-1][0] != "e":
                    then[-1]["items"].pop()
                if not then[-1]["items"]:
                    then[-1]["items"] = [("e", ("lit", "$", "x"))]
            return {"k": "ifline", "cond": self.cond(), "then": then, "else": els}
        if kind == "select":
            t = r.choice(["%", "%", "$", "!"]) if self.allow_fractions else r.choice(["%", "%", "$"])
            subj = self.var(t) if r.random() < 0.6 else self.expr(t, 2)
            cases = []
            for _ in range(r.choice([1, 2, 3])):
                ces = []
                for _ in range(r.choice([1, 1, 2])):
                    y = r.random()
                    if y < 0.5:
                        ces.append(("val", self.lit(t) if r.random() < 0.7 else self.expr(t, 2)))
                    elif y < 0.75:
                        ces.append(("is", r.choice(REL), self.lit(t)))
                    else:
                        a, b = self.lit(t), self.lit(t)
                        ces.append(("range", a, b))
                cases.append((ces, self.block(depth + 1, "select")))
            els = self.block(depth + 1, "select") if r.random() < 0.5 else None
            return {"k": "select", "subj": subj, "cases": cases, "else": els}
        if kind == "for":
            self.loop_id += 1
            my_id = self.loop_id
            ctype = r.choice(["%", "%", "%", "&", "!"]) if self.allow_fractions else r.choice(["%", "%", "&"])
            name = "I%d%s" % (self.loop_id, ctype)
            trips = r.choice([0, 1, 2, 3, 3, 4])
            mode = r.choice(["none", "pos", "neg", "computed", "pos", "neg"])
            lo = r.choice([0, 1, 1, 2, -2, 5])
            if ctype == "&" and r.random() < 0.4:
                lo = r.choice([40000, 32766])
            if mode == "none":
                step_v, step = 1, None
            elif mode == "pos":
                step_v = r.choice([1, 2, 3])
                step = ("lit", "%", step_v)
            elif mode == "neg":
                step_v = -r.choice([1, 2, 3])
                step = ("lit", "%", step_v)
            else:
                step_v = r.choice([1, 2, -1, -2])
                # run-time computed step: a variable set just before the loop, also under a unary minus
                # (the sign of the step is then not the sign the text suggests)
                step = ("var", "ST%d%%" % my_id)
                st_value = step_v
                y = r.random()
                if getattr(self, "step_fn", None) and r.random() < 0.35:
                    # the step (and sometimes a bound) comes out of a FUNCTION that runs a FOR loop of its own
                    step = ("call", self.step_fn, [("var", "ST%d%%" % my_id)])
                    self.step_fn_used = True
                elif y < 0.25:
                    step = ("un", "-", step)
                    st_value = -step_v
                elif y < 0.4:
                    step = ("un", "-", ("par", step))
                    st_value = -step_v
                elif y < 0.5:
                    step = ("par", step)
            if ctype == "!" and mode in ("pos", "neg") and r.random() < 0.5:
                step_v = Fraction(step_v, 2)
                step = ("lit", "!", step_v) if step_v.denominator != 1 else ("lit", "%", int(step_v))
                if step_v.denominator == 1:
                    step_v = int(step_v)
            hi = lo + step_v * (trips - 1) if trips > 0 else lo - step_v
            if r.random() < 0.3 and trips > 0 and abs(step_v) > 1 and isinstance(step_v, int):
                hi += (1 if step_v > 0 else -1)     # limit not hit exactly
            lo_e = self.const_expr(ctype, lo)
            hi_e = self.const_expr(ctype, hi)
            pre_counter = None
            if r.random() < 0.12 and isinstance(hi, int) and isinstance(lo, int) and abs(hi) < 30000:
                # the limit refers to the counter's value from before the loop: FOR I = lo TO I + d
                p0 = r.choice([0, 5, -3, 2])
                pre_counter = {"k": "assign", "lhs": ("var", name), "rhs": ("lit", "%", p0)}
                hi_e = ("bin", "+", ("var", name), ("lit", "%", hi - p0)) if hi - p0 >= 0 else ("bin", "-", ("var", name), ("lit", "%", p0 - hi))
            self.reserved.add(name)
            body = self.block(depth + 1, "for")
            if r.random() < 0.3:
                body.append({"k": "print", "items": [("e", ("var", name)), (";",)]})
            if r.random() < 0.12 and isinstance(step_v, int):
                # counter modified in the body, in the direction of travel
                delta = ("lit", "%", 1)
                body.append({"k": "assign", "lhs": ("var", name), "rhs": ("bin", "+" if step_v > 0 else "-", ("var", name), delta)})
            self.reserved.discard(name)
            f = {"k": "for", "var": name, "lo": lo_e, "hi": hi_e, "step": step, "body": body, "next_var": r.random() < 0.5}
            after = {"k": "print", "items": [("e", ("var", name))]}
            head = [pre_counter] if pre_counter is not None else []
            if mode == "computed":
                pre = {"k": "assign", "lhs": ("var", "ST%d%%" % my_id), "rhs": ("lit", "%", st_value)}
                return {"k": "multi", "stmts": head + [pre, f, after]}
            if head:
                return {"k": "multi", "stmts": head + [f, after]}
            return {"k": "multi", "stmts": [f, after]} if r.random() < 0.7 else f
        # while / do with an explicit counter
        self.loop_id += 1
        name = "W%d%%" % self.loop_id
        trips = r.choice([0, 1, 2, 3])
        init = {"k": "assign", "lhs": ("var", name), "rhs": ("lit", "%", 0)}
        self.reserved.add(name)
        body = self.block(depth + 1, kind)
        body.append({"k": "assign", "lhs": ("var", name), "rhs": ("bin", "+", ("var", name), ("lit", "%", 1))})
        self.reserved.discard(name)
        cond_w = ("bin", "<", ("var", name), ("lit", "%", trips))
        cond_u = ("bin", ">=", ("var", name), ("lit", "%", trips))
        if r.random() < 0.25:
            # true as 5, not as -1: UNTIL must not be compiled as WHILE NOT
            cond_u = ("bin", "AND", cond_u, ("lit", "%", 5))
        if r.random() < 0.3:
            cond_w = ("bin", "AND", cond_w, ("bin", "<", ("var", name), ("lit", "%", 9)))
        if kind == "while":
            loop = {"k": "while", "cond": cond_w, "body": body}
        else:
            pos = r.choice(["top", "bottom"])
            dk = r.choice(["while", "until"])
            loop = {"k": "do", "pos": pos, "kind": dk, "cond": cond_w if dk == "while" else cond_u, "body": body}
        return {"k": "multi", "stmts": [init, loop]}

    def const_expr(self, t, v):
        """An expression of type <= t whose value is the whole number v."""
        r = self.rng
        if isinstance(v, Fraction) and v.denominator != 1:
            return ("lit", "!", v)
        v = int(v)
        if -32768 < v <= 32767:
            if r.random() < 0.25 and abs(v) < 1000:
                a = r.randrange(-5, 6)
                return ("bin", "+", ("lit", "%", v - a), ("lit", "%", a))
            return ("lit", "%", v)
        return ("lit", "&", v)

    def program(self):
        r = self.rng
        stmts = []
        # initialise some variables so that expressions have something to chew on
        for t in "%&!#$":
            if not self.allow_fractions and t in "!#":
                continue
            for name in VARS[t]:
                if r.random() < 0.6:
                    stmts.append({"k": "assign", "lhs": ("var", name), "rhs": self.lit(t)})
        n = r.randrange(3, self.size)
        for _ in range(n):
            stmts.append(self.stmt(0))
        stmts = flatten_multi(stmts)
        # DATA statements anywhere at top level
        items = self.data_items
        while items:
            k = r.choice([1, 2, 3])
            chunk, items = items[:k], items[k:]
            target = stmts
            if r.random() < 0.25:
                # inside a block (it still belongs to the module's data, whether or not the block runs)
                lists = []

                def walk(ss):
                    for st in ss:
                        kk = st["k"]
                        if kk == "if":
                            for _, body in st["arms"]:
                                lists.append(body)
                                walk(body)
                            if st.get("else") is not None:
                                lists.append(st["else"])
                                walk(st["else"])
                        elif kk == "select":
                            for _, body in st["cases"]:
                                lists.append(body)
                                walk(body)
                            if st.get("else") is not None:
                                lists.append(st["else"])
                                walk(st["else"])
                        elif kk in ("for", "while", "do"):
                            lists.append(st["body"])
                            walk(st["body"])
                walk(stmts)
                if lists:
                    target = r.choice(lists)
            pos = r.randrange(len(target) + 1)
            target.insert(pos, {"k": "data", "items": [c[2] for c in chunk], "values": chunk})
        # DATA order must follow program order of the READs: keep the chunks in text order
        order = []

        def collect(ss):
            for st in ss:
                kk = st["k"]
                if kk == "data":
                    order.append(st)
                elif kk == "if":
                    for _, body in st["arms"]:
                        collect(body)
                    if st.get("else") is not None:
                        collect(st["else"])
                elif kk == "select":
                    for _, body in st["cases"]:
                        collect(body)
                    if st.get("else") is not None:
                        collect(st["else"])
                elif kk in ("for", "while", "do"):
                    collect(st["body"])
        collect(stmts)
        vals = [v for s in order for v in s["values"]]
        if vals != self.data_items:
            # re-assign values in textual order
            it = iter(self.data_items)
            for s in order:
                n_items = len(s["values"])
                chunk = [next(it) for _ in range(n_items)]
                s["values"] = chunk
                s["items"] = [c[2] for c in chunk]
        if r.random() < 0.1:
            stmts.append({"k": "end"})
        number_statements(stmts)
        return {"main": stmts, "procs": [], "shared": set()}


def flatten_multi(stmts):
    """Splices {'k': 'multi'} groups into their parent list (recursively)."""
    out = []
    for s in stmts:
        if s["k"] == "multi":
            out += flatten_multi(s["stmts"])
            continue
        for key in ("body", "else", "then"):
            if isinstance(s.get(key), list):
                s[key] = flatten_multi(s[key])
        if s["k"] == "if":
            s["arms"] = [(c, flatten_multi(b)) for c, b in s["arms"]]
        if s["k"] == "select":
            s["cases"] = [(c, flatten_multi(b)) for c, b in s["cases"]]
        out.append(s)
    return out


class GenCalls(Gen):
    """Core generator extended with SUB/FUNCTION definitions and calls (C03): by-reference and by-value
    arguments of every shape, fresh locals, function results, STATIC procedures, DIM SHARED and CONST."""

    def __init__(self, rng, **kw):
        Gen.__init__(self, rng, **kw)
        self.procs = []          # dicts: name, k, params [(name, type)], static, rtype, body
        self.shared = []         # names with suffix
        self.consts = []         # (name, type)
        self.arrays = {}         # name -> (type, lb, ub)
        self.scope = None        # None = main, else proc dict being generated
        self.callable = []       # procs that may be called from the current scope
        self.call_depth = 0
        self.n_calls = 0

    # a by-ref capable place of type t in the current scope
    def place(self, t):
        r = self.rng
        if self.arrays and r.random() < 0.25 and self.scope is None:
            cands = [n for n, (at, lb, ub) in self.arrays.items() if at == t]
            if cands:
                n = r.choice(cands)
                at, lb, ub = self.arrays[n]
                y = r.random()
                if y < 0.3:
                    # a pure built-in call in the subscript, itself with a by-reference argument (the swap idiom A(LBOUND(A)))
                    return ("idx", n, [("call", r.choice(["LBOUND", "UBOUND"]), [("var", n)])])
                return ("idx", n, [("lit", "%", r.randrange(lb, ub + 1))])
        return self.var(t)

    def var(self, t):
        pool = list(self.cur_vars(t))
        return ("var", self.rng.choice(pool))

    def cur_vars(self, t):
        if self.scope is None:
            return VARS[t] + [s for s in self.shared if s[-1] == t]
        out = [p for p, pt in self.scope["params"] if pt == t]
        out += ["L%d%s" % (i, t) for i in range(2)]
        out += [s for s in self.shared if s[-1] == t]
        return out

    def expr(self, t, depth=0):
        r = self.rng
        if depth <= 2 and self.callable and r.random() < 0.12 and self.call_depth < 2:
            fs = [p for p in self.callable if p["k"] == "function" and (p["rtype"] == t or (t != "$" and p["rtype"] != "$" and RANK[p["rtype"]] <= RANK[t]))]
            if fs:
                return self.call_expr(r.choice(fs))
        if t != "$" and self.consts and r.random() < 0.05:
            cs = [n for n, ct in self.consts if ct != "$" and RANK[ct] <= RANK[t]]
            if cs:
                return ("var", r.choice(cs))
        return Gen.expr(self, t, depth)

    def args_for(self, proc):
        r = self.rng
        args = []
        self.call_depth += 1
        used = []
        for pname, pt in proc["params"]:
            x = r.random()
            if x < 0.5:
                # by reference: a place of exactly the parameter's type; sometimes the same place twice (aliasing)
                if used and r.random() < 0.15 and used[-1][0] == pt:
                    a = used[-1][1]
                else:
                    a = self.place(pt)
                    used.append((pt, a))
                args.append(a)
            elif x < 0.65 and pt != "$":
                # by value: a variable in parentheses, or of another numeric type
                args.append(("par", self.var(pt)))
            else:
                if pt == "$":
                    args.append(Gen.expr(self, "$", 2) if r.random() < 0.7 else ("par", self.var("$")))
                else:
                    e = Gen.expr(self, pt, 2)
                    if e[0] in ("var", "idx"):
                        e = ("par", e)
                    args.append(e)
        self.call_depth -= 1
        return args

    def call_expr(self, proc):
        self.n_calls += 1
        return ("call", proc["name"], self.args_for(proc))

    def simple(self):
        r = self.rng
        if self.callable and r.random() < 0.22:
            subs = [p for p in self.callable if p["k"] == "sub"]
            if subs:
                p = r.choice(subs)
                self.n_calls += 1
                return {"k": "callsub", "name": p["name"], "args": self.args_for(p)}
        if self.scope is not None and r.random() < getattr(self, "exit_prob", 0.05):
            # leaves the procedure from whatever FOR / SELECT CASE / IF nesting this statement is in
            return {"k": "exit", "what": "SUB" if self.scope["k"] == "sub" else "FUNCTION"}
        s = Gen.simple(self)
        if s["k"] == "read" and self.scope is not None:
            return self.print_stmt()
        return s

    def assign(self):
        r = self.rng
        s = Gen.assign(self)
        # redirect the target to a variable that exists in the current scope
        t = s["lhs"][1][-1]
        pool = [v for v in self.cur_vars(t) if v not in self.reserved]
        if self.scope is not None and self.scope["k"] == "function" and self.scope["rtype"] == t and r.random() < 0.35:
            s["lhs"] = ("var", self.scope["name"])
        elif self.arrays and self.scope is None and r.random() < 0.2:
            cands = [n for n, (at, lb, ub) in self.arrays.items() if at == t]
            if cands:
                n = r.choice(cands)
                s["lhs"] = ("idx", n, [("lit", "%", r.randrange(self.arrays[n][1], self.arrays[n][2] + 1))])
        else:
            s["lhs"] = ("var", r.choice(pool))
        return s

    def print_stmt(self):
        s = Gen.print_stmt(self)
        return s

    def make_proc(self, i, n_total):
        r = self.rng
        k = r.choice(["sub", "sub", "function"])
        rtype = r.choice(["%", "&", "!", "$", "%"]) if k == "function" else None
        name = ("Fn%d%s" % (i, rtype)) if k == "function" else "Proc%d" % i
        params = []
        for j in range(r.choice([0, 1, 1, 2, 3])):
            pt = r.choice(["%", "%", "&", "!", "$"] if self.allow_fractions else ["%", "%", "&", "$"])
            params.append(("P%d%s" % (j, pt), pt))
        return {"name": name, "k": k, "params": params, "static": r.random() < 0.35, "rtype": rtype, "body": None, "index": i}

    def proc_body(self, p, later):
        r = self.rng
        self.scope = p
        self.callable = later
        body = []
        if p["static"]:
            # a counter that shows whether the variables of a STATIC procedure persist
            body.append({"k": "assign", "lhs": ("var", "CNT%"), "rhs": ("bin", "+", ("var", "CNT%"), ("lit", "%", 1))})
            body.append({"k": "print", "items": [("e", ("lit", "$", p["name"] + " call")), (";",), ("e", ("var", "CNT%"))]})
        else:
            # locals must be fresh in every activation
            body.append({"k": "print", "items": [("e", ("lit", "$", p["name"] + " fresh")), (";",), ("e", ("var", "L0%")), (";",), ("e", ("var", "L1$"))]})
        saved_depth = self.max_depth
        self.max_depth = min(self.max_depth, 3)
        for _ in range(r.choice([1, 2, 3, 4])):
            body.append(self.stmt(1))
        self.max_depth = saved_depth
        # modify some parameters so that by-reference passing is observable
        for pname, pt in p["params"]:
            if r.random() < 0.6:
                if pt == "$":
                    body.append({"k": "assign", "lhs": ("var", pname), "rhs": ("bin", "+", ("var", pname), ("lit", "$", r.choice(["x", "Y", "!"])))})
                else:
                    body.append({"k": "assign", "lhs": ("var", pname), "rhs": ("bin", "+", ("var", pname), ("lit", "%", r.choice([1, 2, 10])))})
        if p["k"] == "function" and r.random() < 0.85:
            e = Gen.expr(self, p["rtype"], 1)
            body.append({"k": "assign", "lhs": ("var", p["name"]), "rhs": e})
            if r.random() < 0.3:
                body.append({"k": "assign", "lhs": ("var", p["name"]), "rhs": Gen.expr(self, p["rtype"], 1)})
        p["body"] = flatten_multi(body)
        self.scope = None

    def program(self):
        r = self.rng
        n = r.choice([1, 2, 2, 3, 4, 5])
        self.procs = [self.make_proc(i, n) for i in range(n)]
        head = []
        for t in "%&$":
            if r.random() < 0.6:
                nm = "G%s%s" % ("IL S".replace(" ", "")["%&$".index(t)] if False else {"%": "I", "&": "L", "$": "S"}[t], t)
                self.shared.append(nm)
                head.append({"k": "dim", "text": "DIM SHARED " + nm, "decls": [{"name": nm, "type": t, "shared": True}]})
        for i in range(r.choice([0, 1, 2])):
            ct = r.choice(["%", "$", "!"] if self.allow_fractions else ["%", "$"])
            nm = "K%d%s" % (i, ct)
            self.consts.append((nm, ct))
            head.append({"k": "const", "name": nm, "expr": self.lit(ct)})
        for i in range(r.choice([0, 1, 2])):
            at = r.choice(["%", "&", "$", "!"] if self.allow_fractions else ["%", "&", "$"])
            lb = r.choice([0, 1, -2])
            ub = lb + r.choice([1, 2, 3])
            nm = "AR%d%s" % (i, at)
            self.arrays[nm] = (at, lb, ub)
            head.append({"k": "dim", "text": "DIM %s(%d TO %d)" % (nm, lb, ub),
                         "decls": [{"name": nm, "type": at, "dims": [(("lit", "%", lb), ("lit", "%", ub))]}]})
        # procedure bodies: a procedure may call the ones defined after it (no cycles)
        self.step_fn = "StepOf%"
        self.step_fn_used = False
        for i, p in enumerate(self.procs):
            self.proc_body(p, self.procs[i + 1:])
        self.scope = None
        self.callable = list(self.procs)
        prog = Gen.program(self)
        main = head + prog["main"]
        # a history of calls that interleaves STATIC and ordinary procedures
        for _ in range(r.choice([2, 4, 6, 10])):
            p = r.choice(self.procs)
            if p["k"] == "sub":
                main.append({"k": "callsub", "name": p["name"], "args": self.args_for(p)})
            else:
                main.append({"k": "print", "items": [("e", self.call_expr(p))]})
            if r.random() < 0.4:
                main.append(self.print_stmt())
        # END (if any) must stay last
        ends = [s for s in main if s["k"] == "end"]
        main = [s for s in main if s["k"] != "end"] + ends[:1]
        procs = []
        for p in self.procs:
            procs.append({"k": p["k"], "name": p["name"], "params": p["params"], "static": p["static"], "rtype": p["rtype"], "body": p["body"]})
        if self.step_fn_used:
            body = [{"k": "for", "var": "Q9%", "lo": ("lit", "%", 1), "hi": ("lit", "%", 12), "step": ("lit", "%", 5), "body": [], "next_var": False},
                    {"k": "assign", "lhs": ("var", "StepOf%"), "rhs": ("var", "N9%")}]
            procs.append({"k": "function", "name": "StepOf%", "params": [("N9%", "%")], "static": False, "rtype": "%", "body": body})
        counter = [0]
        number_statements(main, counter)
        for p in procs:
            number_statements(p["body"], counter)
        return {"main": main, "procs": procs, "shared": set(self.shared)}


def emit_with_procs(prog, **kw):
    """Emits main followed by the procedure definitions. Returns (text, spans)."""
    from .lang import Emitter
    em = Emitter(eol=kw.get("eol", "\n"), indent=2, rng=kw.get("rng"), noise=kw.get("noise", 0.0))

    def emit_procs():
        for p in prog["procs"]:
            em.stmt({"k": p["k"], "name": p["name"], "params": [n for n, t in p["params"]], "static": p["static"], "body": p["body"], "id": None})
        em.flush()

    # procs_first: the SUB / FUNCTION definitions precede the module-level code (the text order is free in BASIC)
    if kw.get("procs_first"):
        emit_procs()
    for s in prog["main"]:
        em.stmt(s)
    em.flush()
    if not kw.get("procs_first"):
        emit_procs()
    return "".join(t + e for t, e in em.lines), em.spans


class GenJumps(Gen):
    """Programs about GOTO/GOSUB/RETURN and ON ERROR/RESUME (C05). Every statement prints a unique trace token,
    so the output is the control-flow history."""

    FIXABLE = ["div", "subscript", "overflow", "left", "sub_div", "fn_div"]
    UNFIXABLE = ["read", "return_without_gosub", "chr", "writeback"]

    def __init__(self, rng, **kw):
        Gen.__init__(self, rng, **kw)
        self.tok = 0
        self.labels = 0
        self.subs = []          # gosub subroutines: (label, body)
        self.handlers = []      # (label, body)
        self.resume_mode = None
        self.handler_active = False
        self.in_loop = 0

    def trace(self, text=None):
        self.tok += 1
        return {"k": "print", "items": [("e", ("lit", "$", "T%d%s" % (self.tok, (" " + text) if text else "")))]}

    def new_label(self, prefix):
        self.labels += 1
        return "%s%d" % (prefix, self.labels)

    def state_print(self):
        return {"k": "print", "items": [("e", ("var", "A%")), (";",), ("e", ("var", "Z%")), (";",), ("e", ("var", "IX%")), (";",), ("e", ("call", "ERR", []))]}

    def fault(self, kind):
        """A statement that fails at run time (while its cause has not been repaired)."""
        if kind == "div":
            return {"k": "assign", "lhs": ("var", "A%"), "rhs": ("bin", "/", ("lit", "%", 10), ("var", "Z%"))}
        if kind == "subscript":
            return {"k": "assign", "lhs": ("idx", "AR%", [("var", "IX%")]), "rhs": ("lit", "%", 7)}
        if kind == "overflow":
            return {"k": "assign", "lhs": ("var", "A%"), "rhs": ("var", "BIG&")}
        if kind == "left":
            return {"k": "assign", "lhs": ("var", "S$"), "rhs": ("call", "LEFT$", [("lit", "$", "abc"), ("var", "NEG%")])}
        if kind == "chr":
            return {"k": "assign", "lhs": ("var", "S$"), "rhs": ("call", "CHR$", [("lit", "%", 300)])}
        if kind == "sub_div":
            return {"k": "callsub", "name": "FaultSub", "args": [("var", "Z%")]}
        if kind == "fn_div":
            return {"k": "assign", "lhs": ("var", "A%"), "rhs": ("bin", "+", ("call", "FaultFn%", [("var", "Z%")]), ("lit", "%", 1))}
        if kind == "writeback":
            # the callee moves the SHARED subscript out of range, so writing back the first argument fails
            # after the call has returned; later calls show whether stale write-back values linger
            return {"k": "multi", "stmts": [
                {"k": "assign", "lhs": ("var", "SX%"), "rhs": ("lit", "%", 1)},
                {"k": "callsub", "name": "MoveIdx", "args": [("idx", "AR%", [("var", "SX%")]), ("var", "B%")]},
                {"k": "print", "items": [("e", ("lit", "$", "wb")), (";",), ("e", ("var", "B%")), (";",), ("e", ("var", "SX%"))]},
                {"k": "assign", "lhs": ("var", "SX%"), "rhs": ("lit", "%", 2)},
                {"k": "callsub", "name": "Tag", "args": [("var", "T$"), ("var", "C%")]},
                {"k": "print", "items": [("e", ("var", "T$")), (";",), ("e", ("var", "C%")), (";",), ("e", ("idx", "AR%", [("lit", "%", 1)])), (";",), ("e", ("idx", "AR%", [("lit", "%", 2)]))]}]}
        if kind == "read":
            return {"k": "read", "vars": [("var", "A%")]}
        if kind == "return_without_gosub":
            return {"k": "return"}
        raise ValueError(kind)

    def fault_kinds(self):
        if self.resume_mode == "retry":
            return self.FIXABLE
        return self.FIXABLE + self.UNFIXABLE

    def fault_block(self):
        kind = self.rng.choice(self.fault_kinds())
        out = [self.trace("before " + kind), self.fault(kind), self.trace("after " + kind), self.state_print()]
        if self.resume_mode == "label" and self.handler_active:
            lab = self.new_label("R")
            self.resume_labels.append(lab)
        return out

    def goto_out_of_loops(self):
        r = self.rng
        lab = self.new_label("Out")
        depth = r.choice([1, 2, 2, 3])
        self.loop_id += 1
        names = ["I%d%%" % (self.loop_id * 10 + d) for d in range(depth)]
        bounds = [(1, 5, 2), (10, 12, 1), (7, 1, -3), (0, 3, 1)]
        inner = [{"k": "print", "items": [("e", ("lit", "$", "in")), (";",)] + [x for n in names for x in (("e", ("var", n)), (";",))]},
                 {"k": "ifline", "cond": ("bin", "=", ("var", names[-1]), ("lit", "%", bounds[(depth - 1) % 4][0] + bounds[(depth - 1) % 4][2])), "then": [{"k": "goto", "label": lab}], "else": None}]
        body = inner
        target_level = r.randrange(0, depth)      # the label sits inside the loop of this level (0 = outside all)
        for d in reversed(range(depth)):
            lo, hi, st = bounds[d % 4]
            loop_kind = r.choice(["for", "for", "while", "do"]) if d != depth - 1 else "for"
            if loop_kind == "for":
                loop = {"k": "for", "var": names[d], "lo": ("lit", "%", lo), "hi": ("lit", "%", hi), "step": ("lit", "%", st) if st != 1 or r.random() < 0.5 else None, "body": body, "next_var": r.random() < 0.5}
                stmts = [loop]
            else:
                cond = ("bin", "<=" if st > 0 else ">=", ("var", names[d]), ("lit", "%", hi))
                incr = {"k": "assign", "lhs": ("var", names[d]), "rhs": ("bin", "+", ("var", names[d]), ("lit", "%", st))}
                init = {"k": "assign", "lhs": ("var", names[d]), "rhs": ("lit", "%", lo)}
                if loop_kind == "while":
                    loop = {"k": "while", "cond": cond, "body": body + [incr]}
                else:
                    loop = {"k": "do", "pos": "top", "kind": "while", "cond": cond, "body": body + [incr]}
                stmts = [init, loop]
            if d == target_level and d > 0:
                # the jump target is inside the body of the enclosing loop, after this loop
                stmts = stmts + [{"k": "label", "name": lab}, {"k": "print", "items": [("e", ("lit", "$", "landed")), (";",), ("e", ("var", names[d - 1]))]}]
            body = stmts
        if target_level == 0:
            body = body + [{"k": "label", "name": lab}, self.trace("landed outside")]
        return body + [{"k": "print", "items": [("e", ("lit", "$", "counters"))] + [x for n in names for x in ((";",), ("e", ("var", n)))]}]

    def gosub_call(self, depth=0):
        r = self.rng
        lab = self.new_label("Sub")
        body = [self.trace("in " + lab)]
        if depth < 2 and r.random() < 0.4:
            body += self.gosub_call(depth + 1)
        if r.random() < 0.35:
            body += self.fault_block()
        if r.random() < 0.3:
            body += [self.simple_safe()]
        body.append(self.trace("leaving " + lab))
        if r.random() < 0.15 and depth == 0:
            ret_lab = self.new_label("Ret")
            self.pending_main_labels.append(ret_lab)
            body.append({"k": "return", "label": ret_lab})
        else:
            body.append({"k": "return"})
        self.subs.append((lab, body))
        return [self.trace("gosub " + lab), {"k": "gosub", "label": lab}, self.trace("back from " + lab)]

    def return_label_across(self):
        """GOSUB from inside inner blocks, RETURN label to the body of an enclosing loop (or to a deeper place)."""
        r = self.rng
        sub = self.new_label("Sub")
        ret = self.new_label("Ret")
        sb = [self.trace("in " + sub)]
        if r.random() < 0.4:
            # the routine returns from inside one of its own loops
            sb.append({"k": "for", "var": "RQ%", "lo": ("lit", "%", 1), "hi": ("lit", "%", 3), "step": None, "next_var": False,
                       "body": [self.trace("routine loop"), {"k": "return", "label": ret}]})
        else:
            sb.append({"k": "return", "label": ret})
        self.subs.append((sub, sb))
        call = [self.trace("gosub " + sub), {"k": "gosub", "label": sub}, self.trace("after gosub (must not run)")]
        kind = r.randrange(4)
        if kind == 0:
            inner = [{"k": "for", "var": "RB%", "lo": ("lit", "%", 1), "hi": ("lit", "%", 2), "step": None, "next_var": r.random() < 0.5, "body": call}]
        elif kind == 1:
            inner = [{"k": "select", "subj": ("var", "RA%"), "cases": [([("range", ("lit", "%", 1), ("lit", "%", 9))], call)], "else": None}]
        elif kind == 2:
            inner = [{"k": "for", "var": "RB%", "lo": ("lit", "%", 1), "hi": ("lit", "%", 2), "step": ("lit", "%", 1), "next_var": True, "body": [
                {"k": "select", "subj": ("lit", "%", 1), "cases": [([("val", ("lit", "%", 1))], call)], "else": None}]}]
        else:
            inner = call
        landing = [{"k": "label", "name": ret}, {"k": "print", "items": [("e", ("lit", "$", "at " + ret)), (";",), ("e", ("var", "RA%"))]}]
        return [{"k": "for", "var": "RA%", "lo": ("lit", "%", 1), "hi": ("lit", "%", 3), "step": None, "next_var": r.random() < 0.5,
                 "body": [self.trace("outer")] + inner + landing},
                {"k": "print", "items": [("e", ("lit", "$", "left")), (";",), ("e", ("var", "RA%"))]}]

    def simple_safe(self):
        r = self.rng
        return {"k": "assign", "lhs": ("var", r.choice(["B%", "C%"])), "rhs": ("bin", "+", ("var", "B%"), ("lit", "%", r.choice([1, 2, 3])))}

    def counted_goto(self):
        lab = self.new_label("Loop")
        self.loop_id += 1
        c = "K%d%%" % self.loop_id
        return [{"k": "assign", "lhs": ("var", c), "rhs": ("lit", "%", 0)}, {"k": "label", "name": lab},
                {"k": "assign", "lhs": ("var", c), "rhs": ("bin", "+", ("var", c), ("lit", "%", 1))},
                {"k": "print", "items": [("e", ("lit", "$", lab)), (";",), ("e", ("var", c))]},
                {"k": "ifline", "cond": ("bin", "<", ("var", c), ("lit", "%", self.rng.choice([2, 3]))), "then": [{"k": "goto", "label": lab}], "else": None}]

    def nested_fault(self):
        """A failing statement at a chosen position of a block."""
        r = self.rng
        fb = self.fault_block()
        pos = r.choice(["first", "middle", "last"])
        pre = [self.trace("block start")] if pos != "first" else []
        post = [self.trace("block end")] if pos != "last" else []
        if pos == "last":
            fb = fb[:2]       # the failing statement is the last statement of the block
        body = pre + fb + post
        k = r.choice(["for", "if", "select", "while", "ifelse"])
        self.loop_id += 1
        if k == "for":
            st = r.choice([None, ("lit", "%", 1), ("lit", "%", -1)])
            lo, hi = (1, 2) if not (st and st[2] < 0) else (2, 1)
            return [{"k": "for", "var": "N%d%%" % self.loop_id, "lo": ("lit", "%", lo), "hi": ("lit", "%", hi), "step": st, "body": body, "next_var": True}, self.trace("after for")]
        if k == "while":
            c = "W%d%%" % self.loop_id
            return [{"k": "assign", "lhs": ("var", c), "rhs": ("lit", "%", 0)},
                    {"k": "while", "cond": ("bin", "<", ("var", c), ("lit", "%", 2)), "body": [{"k": "assign", "lhs": ("var", c), "rhs": ("bin", "+", ("var", c), ("lit", "%", 1))}] + body},
                    self.trace("after while")]
        if k == "if":
            return [{"k": "if", "arms": [(("bin", "=", ("lit", "%", 1), ("lit", "%", 1)), body)], "else": [self.trace("else arm (must not run)")]}, self.trace("after if")]
        if k == "ifelse":
            return [{"k": "if", "arms": [(("bin", "=", ("lit", "%", 1), ("lit", "%", 2)), [self.trace("then arm (must not run)")]),
                                         (("bin", "=", ("lit", "%", 2), ("lit", "%", 2)), body)], "else": [self.trace("else arm (must not run)")]}, self.trace("after if")]
        return [{"k": "select", "subj": ("lit", "%", 2), "cases": [([("val", ("lit", "%", 1))], [self.trace("case 1 (must not run)")]),
                                                                  ([("val", ("lit", "%", 2))], body),
                                                                  ([("val", ("lit", "%", 3))], [self.trace("case 3 (must not run)")])], "else": [self.trace("case else (must not run)")]}, self.trace("after select")]

    def header_fault(self):
        """A clause in the header of a block fails (ELSEIF condition, CASE expression, NEXT increment); the handler repairs
        the cause and RESUME must re-execute that clause."""
        r = self.rng
        k = r.choice(["elseif", "case", "next"])
        reset = {"k": "assign", "lhs": ("var", "Z%"), "rhs": ("lit", "%", 0)}
        quot = ("bin", "/", ("lit", "%", 10), ("var", "Z%"))
        if k == "elseif":
            return [reset, {"k": "if", "arms": [(("bin", "=", ("lit", "%", 1), ("lit", "%", 2)), [self.trace("then arm (must not run)")]),
                                                 (("bin", "=", quot, ("lit", "%", 5)), [self.trace("elseif arm after RESUME")]),
                                                 (("bin", "=", ("lit", "%", 3), ("lit", "%", 3)), [self.trace("second elseif arm (must not run)")])],
                            "else": [self.trace("else arm (must not run)")]}, self.trace("after if")]
        if k == "case":
            return [reset, {"k": "select", "subj": ("lit", "%", 5), "cases": [([("val", ("lit", "%", 1))], [self.trace("case 1 (must not run)")]),
                                                                             ([("val", quot)], [self.trace("case 10 / Z% after RESUME")]),
                                                                             ([("val", ("lit", "%", 5))], [self.trace("case 5 (must not run)")])],
                            "else": [self.trace("case else (must not run)")]}, self.trace("after select")]
        # the increment of the inner loop overflows; the handler moves the counter back and RESUME repeats the increment
        self.loop_id += 1
        outer = "N%d%%" % self.loop_id
        inner = {"k": "for", "var": "NX%", "lo": ("lit", "%", 1), "hi": ("lit", "%", 30000), "step": ("lit", "%", 20000),
                 "body": [{"k": "print", "items": [("e", ("lit", "$", "in")), (";",), ("e", ("var", outer)), (";",), ("e", ("var", "NX%"))]}], "next_var": r.random() < 0.5}
        return [{"k": "for", "var": outer, "lo": ("lit", "%", 1), "hi": ("lit", "%", 2), "step": None,
                 "body": [inner, {"k": "print", "items": [("e", ("lit", "$", "inner done")), (";",), ("e", ("var", "NX%"))]}], "next_var": True},
                self.trace("after loops")]

    def resume_into_block(self):
        """RESUME label where the label sits inside a FOR body or a SELECT CASE block of the main module (its own handler)."""
        r = self.rng
        h = self.new_label("Hb")
        lab = self.new_label("Rb")
        self.loop_id += 1
        n1, n2 = "N%d%%" % self.loop_id, "M%d%%" % self.loop_id
        fault = {"k": "assign", "lhs": ("var", "A%"), "rhs": ("bin", "/", ("lit", "%", 10), ("var", "Z%"))}
        inner_for = {"k": "for", "var": n2, "lo": ("lit", "%", 1), "hi": ("lit", "%", 2), "step": None,
                     "body": [{"k": "print", "items": [("e", ("lit", "$", "inner")), (";",), ("e", ("var", n2))]}], "next_var": True}
        body_handler = [{"k": "print", "items": [("e", ("lit", "$", h + " ERR")), (";",), ("e", ("call", "ERR", []))]},
                        {"k": "assign", "lhs": ("var", "Z%"), "rhs": ("lit", "%", 2)}, {"k": "resume", "mode": "label", "label": lab}]
        self.handlers.append((h, body_handler))
        pre = [{"k": "assign", "lhs": ("var", "Z%"), "rhs": ("lit", "%", 0)}, {"k": "onerror", "mode": "goto", "label": h}]
        post = [{"k": "onerror", "mode": "zero"}, self.trace("after block")]
        self.handler_active = False
        if r.random() < 0.5:
            # label in a FOR body, the error inside a SELECT CASE block (and sometimes a nested FOR) of that body
            sel = {"k": "select", "subj": ("var", n1), "cases": [([("val", ("lit", "%", 1)), ("val", ("lit", "%", 2))], [self.trace("in case"), fault, self.trace("after fault")])], "else": None}
            body = [{"k": "label", "name": lab}, self.trace("at " + lab), sel, inner_for]
            return pre + [{"k": "for", "var": n1, "lo": ("lit", "%", 1), "hi": ("lit", "%", 2), "step": r.choice([None, ("lit", "%", 1)]), "body": body, "next_var": True},
                          {"k": "print", "items": [("e", ("lit", "$", "counters")), (";",), ("e", ("var", n1)), (";",), ("e", ("var", n2))]}] + post
        # label in a SELECT CASE block, the error inside a FOR body of that block
        loop = {"k": "for", "var": n1, "lo": ("lit", "%", 1), "hi": ("lit", "%", 2), "step": None, "body": [self.trace("in loop"), fault, self.trace("after fault")], "next_var": True}
        arm = [{"k": "label", "name": lab}, self.trace("at " + lab), loop, inner_for]
        return pre + [{"k": "select", "subj": ("lit", "%", 2), "cases": [([("val", ("lit", "%", 1))], [self.trace("case 1 (must not run)")]), ([("val", ("lit", "%", 2))], arm)],
                       "else": [self.trace("case else (must not run)")]}] + post

    def resume_label_from_calls(self):
        """An error raised one to three calls deep (some of the calls with a GOSUB of their own pending), reached from a GOSUB
        routine of the main module; its own handler ends in RESUME label with the label inside that routine, so the routine's
        RETURN still has to find the GOSUB of the main module (top level of the main module only: see KF-C15-1)."""
        r = self.rng
        h = self.new_label("Hc")
        lab = self.new_label("Rc")
        rt = self.new_label("Mc")
        depth = r.choice([1, 2, 2, 3])
        self.uses_rc = True
        if depth == 1:
            call = r.choice([{"k": "callsub", "name": "FaultSub", "args": [("var", "Z%")]},
                             {"k": "assign", "lhs": ("var", "A%"), "rhs": ("bin", "+", ("call", "FaultFn%", [("var", "Z%")]), ("lit", "%", 1))}])
        elif depth == 2:
            call = r.choice([{"k": "callsub", "name": "RcOuter", "args": [("var", "C%")]}, {"k": "callsub", "name": "RcOuterGs", "args": []},
                             {"k": "assign", "lhs": ("var", "A%"), "rhs": ("call", "RcOuterFn%", [("var", "Z%")])}])
        else:
            call = {"k": "callsub", "name": "RcTop", "args": [("var", "C%")]}
        body_handler = [{"k": "print", "items": [("e", ("lit", "$", h + " ERR")), (";",), ("e", ("call", "ERR", []))]},
                        {"k": "assign", "lhs": ("var", "Z%"), "rhs": ("lit", "%", 2)}, {"k": "resume", "mode": "label", "label": lab}]
        self.handlers.append((h, body_handler))
        routine = [self.trace("in " + rt), call, self.trace("after the call (must not run)"),
                   {"k": "label", "name": lab}, self.trace("at " + lab), self.state_print(), {"k": "return"}]
        self.subs.append((rt, routine))
        self.handler_active = False
        out = [{"k": "assign", "lhs": ("var", "Z%"), "rhs": ("lit", "%", 0)}, {"k": "onerror", "mode": "goto", "label": h},
               self.trace("gosub " + rt), {"k": "gosub", "label": rt}, self.trace("back from " + rt)]
        if r.random() < 0.5:
            # once more: the second time nothing fails (Z% was repaired), the calls return normally
            out += [{"k": "gosub", "label": rt}, self.trace("back again from " + rt)]
        return out + [{"k": "onerror", "mode": "zero"}, self.trace("after resume-label block")]

    def gosub_in_loop_calls_exit_sub(self):
        """A GOSUB made inside a FOR loop of the main module; its routine calls a SUB that leaves by EXIT SUB from a GOSUB routine
        of its own, entered inside one of its FOR loops (other bounds); the RETURN of the main routine and the rest of the
        main loop must not see anything of the callee's loop or GOSUB."""
        r = self.rng
        lab = self.new_label("Mq")
        self.uses_gs = True
        self.loop_id += 1
        n = "N%d%%" % self.loop_id
        if r.random() < 0.6:
            routine = [self.trace("in " + lab), {"k": "callsub", "name": "GsExitLoop", "args": []}, self.trace("after GsExitLoop"), {"k": "return"}]
        else:
            routine = [self.trace("in " + lab), {"k": "return"}]       # a plain routine: RETURN must leave the loops around the GOSUB alone
        self.subs.append((lab, routine))
        body = [self.trace("loop"), {"k": "gosub", "label": lab}, {"k": "print", "items": [("e", ("lit", "$", "back")), (";",), ("e", ("var", n))]}]
        hi = r.choice([2, 3])
        loop = {"k": "for", "var": n, "lo": ("lit", "%", 1), "hi": ("lit", "%", hi), "step": r.choice([None, ("lit", "%", 1)]), "body": body, "next_var": True}
        out = [loop, {"k": "print", "items": [("e", ("lit", "$", "counter")), (";",), ("e", ("var", n))]}]
        if r.random() < 0.5:
            # the GOSUB sits two loops deep; the loops have different limits and steps
            self.loop_id += 1
            m = "N%d%%" % self.loop_id
            outer = {"k": "for", "var": m, "lo": ("lit", "%", 10), "hi": ("lit", "%", 6), "step": ("lit", "%", -2), "next_var": r.random() < 0.5,
                     "body": [loop, {"k": "print", "items": [("e", ("lit", "$", "outer")), (";",), ("e", ("var", m)), (";",), ("e", ("var", n))]}]}
            out = [outer, {"k": "print", "items": [("e", ("lit", "$", "counters")), (";",), ("e", ("var", m)), (";",), ("e", ("var", n))]}]
        return out

    def sub_gosub(self):
        """GOSUB / RETURN inside SUBs: they are local to the call."""
        r = self.rng
        k = r.choice(["legal", "return_in_sub", "exit_with_pending"])
        if self.resume_mode == "retry" and self.handler_active:
            k = "legal"        # an unrepairable fault under a plain RESUME would never end
        lab = self.new_label("Mr")
        self.uses_gs = True
        if k == "legal":
            return [self.trace("call GsLegal"), {"k": "callsub", "name": "GsLegal", "args": []}, self.trace("back from GsLegal")]
        if k == "return_in_sub":
            # the main module has a GOSUB pending while the SUB executes RETURN: error 3 inside the SUB
            body = [self.trace("in " + lab), {"k": "callsub", "name": "GsReturn", "args": []}, self.trace("after GsReturn"), {"k": "return"}]
            self.subs.append((lab, body))
            return [self.trace("gosub " + lab), {"k": "gosub", "label": lab}, self.trace("back from " + lab)]
        # the SUB leaves with its own GOSUB pending; a RETURN in the main module afterwards has nothing to return to
        return [self.trace("call GsExit"), {"k": "callsub", "name": "GsExit", "args": []}, self.trace("back from GsExit"), {"k": "return"}, self.trace("after stray RETURN")]

    def handler_switch(self):
        r = self.rng
        x = r.random()
        if x < 0.55:
            lab = self.new_label("H")
            mode = self.resume_mode
            body = [{"k": "print", "items": [("e", ("lit", "$", lab + " ERR")), (";",), ("e", ("call", "ERR", []))]}]
            # repair the causes (needed for plain RESUME, harmless otherwise)
            if mode == "retry" or r.random() < 0.4:
                body += [{"k": "assign", "lhs": ("var", "Z%"), "rhs": ("lit", "%", 2)}, {"k": "assign", "lhs": ("var", "IX%"), "rhs": ("lit", "%", 1)},
                         {"k": "assign", "lhs": ("var", "BIG&"), "rhs": ("lit", "%", 5)}, {"k": "assign", "lhs": ("var", "NEG%"), "rhs": ("lit", "%", 1)},
                         {"k": "ifline", "cond": ("bin", ">", ("var", "NX%"), ("lit", "%", 20000)), "then": [{"k": "assign", "lhs": ("var", "NX%"), "rhs": ("lit", "%", 10001)}], "else": None}]
                self.handler_repairs = True
            if r.random() < 0.4:
                body.append({"k": "assign", "lhs": ("var", "C%"), "rhs": ("bin", "+", ("var", "C%"), ("lit", "%", 100))})
            if r.random() < 0.06:
                # an error raised by the handler itself (before its RESUME) is fatal: NOZ% is never assigned
                body += [self.trace("handler fails"), {"k": "assign", "lhs": ("var", "A%"), "rhs": ("bin", "/", ("lit", "%", 10), ("var", "NOZ%"))}, self.trace("after the failure in the handler (must not run)")]
            if mode in ("retry", "next"):
                res = {"k": "resume", "mode": "bare" if mode == "retry" else "next"}
                y = r.random()
                if y < 0.2:
                    # RESUME written inside a block of the handler (SELECT CASE ERR ... RESUME is the usual idiom): it leaves the block
                    body.append({"k": "select", "subj": ("call", "ERR", []), "cases": [([("range", ("lit", "%", 1), ("lit", "%", 255))], [self.trace("in handler select"), res])], "else": None})
                elif y < 0.35:
                    body.append({"k": "for", "var": "HQ%", "lo": ("lit", "%", 1), "hi": ("lit", "%", 3), "step": None, "body": [self.trace("in handler loop"), res], "next_var": False})
                elif y < 0.45:
                    body.append({"k": "for", "var": "HQ%", "lo": ("lit", "%", 1), "hi": ("lit", "%", 2), "step": None, "next_var": True, "body": [
                        {"k": "select", "subj": ("lit", "%", 2), "cases": [([("val", ("lit", "%", 2))], [res])], "else": None}]})
                else:
                    body.append(res)
            else:
                rl = self.new_label("Resume")
                self.pending_main_labels.append(rl)
                body.append({"k": "resume", "mode": "label", "label": rl})
            self.handlers.append((lab, body))
            self.handler_active = "goto_repair" if mode == "retry" else True
            return [{"k": "onerror", "mode": "goto", "label": lab}]
        if x < 0.8:
            self.handler_active = False
            return [{"k": "onerror", "mode": "zero"}]
        self.handler_active = True
        return [{"k": "onerror", "mode": "resume_next"}]

    def program(self):
        r = self.rng
        self.resume_mode = r.choice(["retry", "next", "next", "label"])
        self.resume_labels = []
        self.pending_main_labels = []
        main = [{"k": "dim", "text": "DIM SHARED SX%", "decls": [{"name": "SX%", "type": "%", "shared": True}]},
                {"k": "dim", "text": "DIM AR%(1 TO 3)", "decls": [{"name": "AR%", "type": "%", "dims": [(("lit", "%", 1), ("lit", "%", 3))]}]},
                {"k": "assign", "lhs": ("var", "IX%"), "rhs": ("lit", "%", r.choice([9, 0, 4]))},
                {"k": "assign", "lhs": ("var", "BIG&"), "rhs": ("lit", "&", 40000)},
                {"k": "assign", "lhs": ("var", "NEG%"), "rhs": ("lit", "%", -1)}]
        use_procs = False
        n = r.randrange(3, 9)
        for _ in range(n):
            x = r.random()
            if x < 0.2:
                main += self.handler_switch()
            elif x < 0.4:
                main += self.fault_block() if (self.handler_active or r.random() < 0.08) else [self.trace("idle")]
            elif x < 0.47:
                if self.handler_active == "goto_repair" and self.resume_mode == "retry":
                    main += self.header_fault()
                elif r.random() < 0.4:
                    main += self.resume_into_block()
                elif r.random() < 0.4:
                    main += self.resume_label_from_calls()
                elif r.random() < 0.4:
                    main += self.gosub_in_loop_calls_exit_sub()
                else:
                    main += self.sub_gosub()
            elif x < 0.55:
                main += self.nested_fault() if self.handler_active else self.counted_goto()
            elif x < 0.7:
                main += self.gosub_call() if r.random() < 0.8 else self.return_label_across()
            elif x < 0.85:
                main += self.goto_out_of_loops()
            else:
                main += self.counted_goto()
            # labels that RETURN label / RESUME label jump to are placed at top level of the main module
            while self.pending_main_labels and r.random() < 0.7:
                lab = self.pending_main_labels.pop(0)
                main += [{"k": "label", "name": lab}, self.trace("at " + lab)]
        for lab in self.pending_main_labels:
            main += [{"k": "label", "name": lab}, self.trace("at " + lab)]
        main.append(self.trace("end of main"))
        main.append({"k": "end"})
        for lab, body in self.subs:
            main.append({"k": "label", "name": lab})
            main += body
        for lab, body in self.handlers:
            main.append({"k": "label", "name": lab})
            main += body
        procs = [
            {"k": "sub", "name": "FaultSub", "params": [("X%", "%")], "static": False, "rtype": None,
             "body": [{"k": "print", "items": [("e", ("lit", "$", "FaultSub in"))]},
                      {"k": "assign", "lhs": ("var", "Y%"), "rhs": ("bin", "/", ("lit", "%", 10), ("var", "X%"))},
                      {"k": "print", "items": [("e", ("lit", "$", "FaultSub out")), (";",), ("e", ("var", "Y%"))]}]},
            {"k": "sub", "name": "MoveIdx", "params": [("X%", "%"), ("Y%", "%")], "static": False, "rtype": None,
             "body": [{"k": "assign", "lhs": ("var", "SX%"), "rhs": ("lit", "%", 9)},
                      {"k": "assign", "lhs": ("var", "X%"), "rhs": ("bin", "+", ("var", "X%"), ("lit", "%", 7))},
                      {"k": "assign", "lhs": ("var", "Y%"), "rhs": ("bin", "+", ("var", "Y%"), ("lit", "%", 1))}]},
            {"k": "sub", "name": "Tag", "params": [("P$", "$"), ("Q%", "%")], "static": False, "rtype": None,
             "body": [{"k": "assign", "lhs": ("var", "P$"), "rhs": ("bin", "+", ("var", "P$"), ("lit", "$", "#"))},
                      {"k": "assign", "lhs": ("var", "Q%"), "rhs": ("bin", "+", ("var", "Q%"), ("lit", "%", 1))}]},
            {"k": "function", "name": "FaultFn%", "params": [("X%", "%")], "static": False, "rtype": "%",
             "body": [{"k": "print", "items": [("e", ("lit", "$", "FaultFn in"))]},
                      {"k": "assign", "lhs": ("var", "FaultFn%"), "rhs": ("bin", "/", ("lit", "%", 20), ("var", "X%"))}]},
        ]
        if getattr(self, "uses_gs", False):
            def pr(t):
                return {"k": "print", "items": [("e", ("lit", "$", t))]}
            procs += [
                {"k": "sub", "name": "GsLegal", "params": [], "static": r.random() < 0.3, "rtype": None,
                 "body": [pr("GsLegal in"), {"k": "gosub", "label": "GsL1"}, pr("GsLegal after gosub"), {"k": "exit", "what": "SUB"},
                          {"k": "label", "name": "GsL1"}, pr("GsLegal routine"), {"k": "return"}]},
                {"k": "sub", "name": "GsReturn", "params": [], "static": r.random() < 0.3, "rtype": None,
                 "body": [pr("GsReturn in"), {"k": "return"}, pr("GsReturn after RETURN (only after RESUME NEXT)")]},
                {"k": "sub", "name": "GsExitLoop", "params": [], "static": r.random() < 0.3, "rtype": None,
                 "body": [pr("GsExitLoop in"),
                          {"k": "for", "var": "GK%", "lo": ("lit", "%", 1), "hi": ("lit", "%", 5), "step": None, "next_var": False,
                           "body": [{"k": "gosub", "label": "GsX1"}, pr("GsExitLoop after gosub (must not run)")]},
                          {"k": "exit", "what": "SUB"}, {"k": "label", "name": "GsX1"}, pr("GsExitLoop routine"), {"k": "exit", "what": "SUB"}]},
                {"k": "sub", "name": "GsExit", "params": [], "static": r.random() < 0.3, "rtype": None,
                 "body": [pr("GsExit in"), {"k": "gosub", "label": "GsE1"}, pr("GsExit after gosub (must not run)"), {"k": "exit", "what": "SUB"},
                          {"k": "label", "name": "GsE1"}, pr("GsExit routine"), {"k": "exit", "what": "SUB"}]},
            ]
        if getattr(self, "uses_rc", False):
            def pr2(t):
                return {"k": "print", "items": [("e", ("lit", "$", t))]}
            zero = {"k": "assign", "lhs": ("var", "LZ%"), "rhs": ("lit", "%", 0)}
            procs += [
                {"k": "sub", "name": "RcOuter", "params": [("P%", "%")], "static": r.random() < 0.3, "rtype": None,
                 "body": [pr2("RcOuter in"), {"k": "assign", "lhs": ("var", "P%"), "rhs": ("bin", "+", ("var", "P%"), ("lit", "%", 50))},
                          {"k": "callsub", "name": "FaultSub", "args": [("var", "Z%")]}, pr2("RcOuter out")]},
                {"k": "sub", "name": "RcOuterGs", "params": [], "static": r.random() < 0.3, "rtype": None,
                 "body": [pr2("RcOuterGs in"), {"k": "gosub", "label": "RcG1"}, pr2("RcOuterGs after gosub"), {"k": "exit", "what": "SUB"},
                          {"k": "label", "name": "RcG1"}, pr2("RcOuterGs routine"), {"k": "callsub", "name": "FaultSub", "args": [("var", "Z%")]},
                          pr2("RcOuterGs routine after the call"), {"k": "return"}]},
                {"k": "function", "name": "RcOuterFn%", "params": [("X%", "%")], "static": False, "rtype": "%",
                 "body": [pr2("RcOuterFn in"), {"k": "assign", "lhs": ("var", "RcOuterFn%"), "rhs": ("bin", "+", ("call", "FaultFn%", [("var", "X%")]), ("lit", "%", 3))}, pr2("RcOuterFn out")]},
                {"k": "sub", "name": "RcTop", "params": [("P%", "%")], "static": False, "rtype": None,
                 "body": [pr2("RcTop in"), {"k": "assign", "lhs": ("var", "P%"), "rhs": ("bin", "+", ("var", "P%"), ("lit", "%", 7))},
                          {"k": "callsub", "name": "RcOuter", "args": [("var", "P%")]}, pr2("RcTop out")]},
            ]
        main = flatten_multi(main)
        counter = [0]
        number_statements(main, counter)
        for p in procs:
            number_statements(p["body"], counter)
        return {"main": main, "procs": procs, "shared": set(["SX%"])}
