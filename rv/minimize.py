"""Deterministic line-level delta debugging for program texts (used on failing cases before they are reported)."""


def ddmin_lines(src, still_fails, max_tests=400):
    """Removes lines (then chunks of lines) while still_fails(text) stays true."""
    lines = src.split("\n")
    tests = [0]

    def ok(ls):
        tests[0] += 1
        if tests[0] > max_tests:
            return False
        return still_fails("\n".join(ls))

    n = 2
    while len(lines) >= 2 and tests[0] <= max_tests:
        chunk = max(1, len(lines) // n)
        removed = False
        i = 0
        while i < len(lines):
            cand = lines[:i] + lines[i + chunk:]
            if cand and ok(cand):
                lines = cand
                removed = True
            else:
                i += chunk
        if not removed:
            if chunk == 1:
                break
            n = min(len(lines), n * 2)
        else:
            n = max(2, n - 1)
    return "\n".join(lines)
