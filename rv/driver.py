"""Driver shared by all checks: build, shard over cores, merge, ledger, evidence, verdict."""
import hashlib
import json
import multiprocessing as mp
import os
import random
import subprocess
import sys
import time
import traceback

ROOT = os.path.dirname(os.path.dirname(os.path.abspath(__file__)))
HARNESS = os.environ.get("VERIF_HARNESS") or os.path.join(ROOT, "harness")
EVIDENCE = os.environ.get("VERIF_EVIDENCE") or os.path.join(ROOT, "evidence")
REPLAYS = os.environ.get("VERIF_REPLAYS") or os.path.join(ROOT, "replays")
LEDGER = os.path.join(ROOT, "known_findings.json")
NCPU = 16

EXIT_OK = 0
EXIT_VIOLATION = 1
EXIT_INCONCLUSIVE = 3
EXIT_HARNESS = 2


def h64(s):
    if isinstance(s, str):
        s = s.encode("utf-8", "surrogatepass")
    return int.from_bytes(hashlib.blake2b(s, digest_size=8).digest(), "big")


def build(packages=("rbmon",), profile="verif", quiet=True):
    """Rebuilds the harness binaries from /repo's current working tree (path dependencies)."""
    t = time.time()
    cmd = ["cargo", "build", "--offline", "--profile", profile]
    for p in packages:
        cmd += ["-p", p]
    env = dict(os.environ)
    env["CARGO_NET_OFFLINE"] = "true"
    r = subprocess.run(cmd, cwd=HARNESS, env=env, stdout=subprocess.PIPE, stderr=subprocess.STDOUT, text=True)
    if r.returncode != 0:
        sys.stdout.write(r.stdout[-6000:])
        print("HARNESS-ERROR: build of %s failed (not a verdict on the property)" % (packages,))
        sys.exit(EXIT_HARNESS)
    return time.time() - t


def merge_stats(a, b):
    """Recursively merges b into a: ints/floats add, dicts merge, lists concatenate (capped), sets union."""
    for k, v in b.items():
        if k not in a:
            a[k] = v
        else:
            x = a[k]
            if isinstance(x, dict) and isinstance(v, dict):
                merge_stats(x, v)
            elif isinstance(x, bool) or isinstance(v, bool):
                a[k] = x and v
            elif isinstance(x, (int, float)) and isinstance(v, (int, float)):
                a[k] = x + v
            elif isinstance(x, list) and isinstance(v, list):
                a[k] = (x + v)[:200]
            elif isinstance(x, set) and isinstance(v, set):
                a[k] = x | v
            elif isinstance(x, tuple) and isinstance(v, tuple) and len(x) == 2 and x[0] in ("min", "max"):
                a[k] = (x[0], min(x[1], v[1]) if x[0] == "min" else max(x[1], v[1]))
            else:
                a[k] = x
    return a


class ShardResult:
    def __init__(self):
        self.evaluations = 0
        self.nontrivial = set()
        self.discards = {}
        self.inconclusive = {}
        self.failures = []
        self.samples = []
        self.stats = {}

    def discard(self, reason):
        self.discards[reason] = self.discards.get(reason, 0) + 1

    def inconc(self, reason, case=None):
        self.inconclusive[reason] = self.inconclusive.get(reason, 0) + 1
        if case is not None:
            lst = self.stats.setdefault("inconclusive_cases", [])
            if len(lst) < 5:
                lst.append({"reason": reason, "case": case})

    def count(self, key, n=1, group=None):
        d = self.stats if group is None else self.stats.setdefault(group, {})
        d[key] = d.get(key, 0) + n

    def fail(self, sig, what, case):
        """sig: stable signature of the failure class; what: one line; case: replayable JSON."""
        if len(self.failures) < 200:
            self.failures.append({"sig": sig, "what": what, "case": case})
        self.count(sig, group="failure_signatures")

    def sample(self, s):
        if len(self.samples) < 3:
            self.samples.append(s)

    def to_dict(self):
        return {
            "evaluations": self.evaluations,
            "nontrivial": self.nontrivial,
            "discards": self.discards,
            "inconclusive": self.inconclusive,
            "failures": self.failures,
            "samples": self.samples,
            "stats": self.stats,
        }


class Ctx:
    def __init__(self, pid, tier, seed, k, n, params):
        self.pid = pid
        self.tier = tier
        self.seed = seed
        self.k = k
        self.n = n
        self.params = params
        self.rng = random.Random("%s/%d/%d" % (pid, seed, k))

    def indices(self, total):
        """The indices of a global enumeration 0..total-1 that belong to this shard."""
        return range(self.k, total, self.n)


def _shard_entry(args):
    fn, ctx = args
    try:
        r = fn(ctx)
        return r.to_dict()
    except Exception:
        return {"harness_error": traceback.format_exc()}


def load_ledger():
    try:
        with open(LEDGER) as f:
            return json.load(f)
    except FileNotFoundError:
        return {"open": [], "fixed": []}


def match_ledger(ledger, pid, failure):
    """A failure is a known finding only if an open entry of the same property lists its exact signature."""
    for e in ledger.get("open", []):
        if e.get("property") != pid:
            continue
        if failure["sig"] in e.get("signatures", []):
            # an entry can pin the exact program(s) it is about, so that the same signature on any other program still alarms
            progs = e.get("programs")
            if progs:
                case = failure.get("case") or {}
                if h64(str(case.get("src", ""))) not in progs:
                    continue
            return e
    return None


def run_check(pid, shard_fn, params, tier, seed, min_evaluations, rule, level="exploration",
              packages=("rbmon",), profile="verif", nshards=NCPU, assumptions=(), witness_fn=None, extra_profiles=(), external=None):
    t0 = time.time()
    build_s = build(packages, profile)
    for ep in extra_profiles:
        build_s += build(packages, ep)
    ledger = load_ledger()
    known_lines = []
    violations = []
    # pinned witnesses of open findings are re-run on every invocation
    for e in ledger.get("open", []):
        if e.get("property") != pid:
            continue
        still = True
        if witness_fn is not None and e.get("witness"):
            try:
                with open(os.path.join(ROOT, e["witness"])) as f:
                    wcase = json.load(f)
                still = witness_fn(wcase, e)
            except Exception:
                still = True
        if still:
            known_lines.append("KNOWN-FINDING: property=%s %s" % (pid, e.get("what", "")))
    ctxs = [(shard_fn, Ctx(pid, tier, seed, k, nshards, params)) for k in range(nshards)]
    if nshards == 1:
        results = [_shard_entry(ctxs[0])]
    else:
        # a shard process that dies (e.g. killed for memory) must not hang the run: it becomes a harness error
        import concurrent.futures as cf
        results = []
        with cf.ProcessPoolExecutor(max_workers=min(nshards, NCPU), mp_context=mp.get_context("fork")) as ex:
            futs = [ex.submit(_shard_entry, c) for c in ctxs]
            for k, f in enumerate(futs):
                try:
                    results.append(f.result())
                except Exception as e:  # BrokenProcessPool and friends
                    results.append({"harness_error": "shard %d died: %r" % (k, e)})
    merged, harness_errors = merge_results(results)
    ntc = None
    if external is not None:
        # a Rust monitor (direct calls into the crates) contributes its own report
        em, entc, eerr = external_report(external[0], profile, tier, seed, external[1])
        merged["evaluations"] += em["evaluations"]
        merged["failures"] += em["failures"]
        merged["samples"] = (em["samples"][:2] + merged["samples"])[:3]
        merged["stats"][external[0]] = em["stats"]
        harness_errors += eerr
        ntc = len(merged["nontrivial"]) + entc
    return finish(pid, tier, seed, merged, harness_errors, ledger, known_lines, rule, level, profile, build_s, nshards,
                  assumptions, min_evaluations, t0, nontrivial_count=ntc)


def merge_results(results):
    merged = {"evaluations": 0, "nontrivial": set(), "discards": {}, "inconclusive": {}, "failures": [], "samples": [], "stats": {}}
    harness_errors = []
    for r in results:
        if "harness_error" in r:
            harness_errors.append(r["harness_error"])
            continue
        merged["evaluations"] += r["evaluations"]
        merged["nontrivial"] |= r["nontrivial"]
        merge_stats(merged["discards"], r["discards"])
        merge_stats(merged["inconclusive"], r["inconclusive"])
        merged["failures"] += r["failures"]
        if len(merged["samples"]) < 3:
            merged["samples"] += r["samples"][: 3 - len(merged["samples"])]
        merge_stats(merged["stats"], r["stats"])
    return merged, harness_errors


def finish(pid, tier, seed, merged, harness_errors, ledger, known_lines, rule, level, profile, build_s, nshards,
           assumptions, min_evaluations, t0, nontrivial_count=None):
    violations = []
    known_hits = {}
    seen_sigs = set()
    for f in merged["failures"]:
        e = match_ledger(ledger, pid, f)
        if e is not None:
            known_hits[e["id"]] = known_hits.get(e["id"], 0) + 1
            continue
        if f["sig"] in seen_sigs:
            continue
        seen_sigs.add(f["sig"])
        d = os.path.join(REPLAYS, pid)
        os.makedirs(d, exist_ok=True)
        path = os.path.join(d, "%016x.json" % h64(f["sig"]))
        with open(path, "w") as fh:
            json.dump({"property": pid, "sig": f["sig"], "what": f["what"], "case": f["case"], "seed": seed, "tier": tier}, fh, indent=1, default=str)
        violations.append((f, path))
    wall = time.time() - t0
    stats = merged["stats"]
    # make JSON-friendly
    def jsonable(x):
        if isinstance(x, set):
            return sorted(x)[:200]
        if isinstance(x, dict):
            return {str(k): jsonable(v) for k, v in x.items()}
        if isinstance(x, tuple):
            return [jsonable(v) for v in x]
        if isinstance(x, list):
            return [jsonable(v) for v in x]
        return x
    coverage = {
        "evaluations": merged["evaluations"],
        "distinct_nontrivial": len(merged["nontrivial"]) if nontrivial_count is None else nontrivial_count,
        "rule": rule,
        "samples": merged["samples"],
        "discarded": merged["discards"],
        "inconclusive": merged["inconclusive"],
        "known_finding_hits": known_hits,
        "build_profile": profile,
        "build_s": round(build_s, 1),
        "shards": nshards,
        "harness_errors": len(harness_errors),
    }
    for k, v in stats.items():
        if k not in coverage:
            coverage[k] = jsonable(v)
    ev = {
        "property_id": pid,
        "tier": tier,
        "seed": seed,
        "level": level,
        "coverage": coverage,
        "assumptions": list(assumptions),
        "wall_s": round(wall, 2),
        "violations": len(violations),
    }
    os.makedirs(EVIDENCE, exist_ok=True)
    # the thorough run is kept next to the latest run, and the latest run points to it
    tdir = os.path.join(EVIDENCE, "thorough")
    if tier == "thorough":
        os.makedirs(tdir, exist_ok=True)
        with open(os.path.join(tdir, pid + ".json"), "w") as fh:
            json.dump(ev, fh, indent=1, default=str)
    else:
        try:
            with open(os.path.join(tdir, pid + ".json")) as fh:
                t = json.load(fh)
            ev["last_thorough_run"] = {"file": "evidence/thorough/%s.json" % pid, "seed": t.get("seed"), "evaluations": t["coverage"].get("evaluations"),
                                       "distinct_nontrivial": t["coverage"].get("distinct_nontrivial"), "violations": t.get("violations"), "wall_s": t.get("wall_s")}
        except (OSError, ValueError, KeyError):
            pass
    with open(os.path.join(EVIDENCE, pid + ".json"), "w") as fh:
        json.dump(ev, fh, indent=1, default=str)
    for line in known_lines:
        print(line)
    print("%s tier=%s seed=%d evaluations=%d distinct_nontrivial=%d discarded=%d inconclusive=%d wall=%.1fs" % (
        pid, tier, seed, merged["evaluations"], len(merged["nontrivial"]) if nontrivial_count is None else nontrivial_count,
        sum(merged["discards"].values()), sum(merged["inconclusive"].values()), wall))
    if harness_errors:
        print("HARNESS-ERROR in %d shard(s):\n%s" % (len(harness_errors), harness_errors[0][-3000:]))
    for f, path in violations:
        print("  failing: %s" % f["what"][:300])
        print("VIOLATION property=%s replay=%s" % (pid, path))
    if violations:
        return EXIT_VIOLATION
    if harness_errors:
        return EXIT_HARNESS
    if merged["evaluations"] < min_evaluations or (len(merged["nontrivial"]) if nontrivial_count is None else nontrivial_count) < 2:
        print("INCONCLUSIVE: only %d evaluations (minimum %d)" % (merged["evaluations"], min_evaluations))
        return EXIT_INCONCLUSIVE
    return EXIT_OK




def program_witness(wcase, entry):
    """Generic pinned witness: a program with the outcome/stdout the property prescribes.
    Returns True while the real code still deviates (the finding is still open)."""
    from .worker import Worker, outcome
    w = Worker()
    try:
        rep = w.run(wcase["src"], stdin=wcase.get("stdin", ""), files=wcase.get("files"))
    finally:
        w.close()
    exp = wcase["expect"]
    oc = outcome(rep)
    if "outcome" in exp and list(oc)[: len(exp["outcome"])] != list(exp["outcome"]):
        return True
    if "stdout" in exp and rep.get("run", {}).get("stdout") != exp["stdout"]:
        return True
    return False


def known_lines_for(pid, ledger, witness_fn=None):
    lines = []
    for e in ledger.get("open", []):
        if e.get("property") != pid:
            continue
        still = True
        if witness_fn is not None and e.get("witness"):
            try:
                with open(os.path.join(ROOT, e["witness"])) as f:
                    wcase = json.load(f)
                still = witness_fn(wcase, e)
            except Exception:
                still = True
        if still:
            lines.append("KNOWN-FINDING: property=%s %s" % (pid, e.get("what", "")))
    return lines


def run_external_check(pid, package, extra_args, tier, seed, rule, min_evaluations, level="exploration", profile="verif",
                       assumptions=(), witness_fn=None, timeout=7200):
    """A check whose monitor is a Rust program of the harness workspace (pcmon, bitmon): build it from /repo's
    working tree, run it, and turn its JSON report into evidence and a verdict with the shared ledger logic."""
    t0 = time.time()
    build_s = build((package,), profile)
    ledger = load_ledger()
    known_lines = known_lines_for(pid, ledger, witness_fn)
    merged, ntc, harness_errors = external_report(package, profile, tier, seed, extra_args, timeout)
    return finish(pid, tier, seed, merged, harness_errors, ledger, known_lines, rule, level, profile, build_s, 1,
                  assumptions, min_evaluations, t0, nontrivial_count=ntc)


def external_report(package, profile, tier, seed, extra_args=(), timeout=7200):
    """Runs a Rust monitor of the harness workspace and converts its JSON report. Returns (merged, distinct_nontrivial, harness_errors)."""
    out = os.path.join(HARNESS, "target", "%s_%s_%d.json" % (package, tier, os.getpid()))
    cmd = [os.path.join(HARNESS, "target", profile, package), "--tier", tier, "--seed", str(seed), "--out", out] + list(extra_args)
    harness_errors = []
    rep = None
    try:
        r = subprocess.run(cmd, cwd=HARNESS, stdout=subprocess.PIPE, stderr=subprocess.STDOUT, text=True, timeout=timeout)
        if r.returncode != 0:
            harness_errors.append("%s exited %d: %s" % (package, r.returncode, r.stdout[-2000:]))
        else:
            with open(out) as f:
                rep = json.load(f)
    except subprocess.TimeoutExpired:
        harness_errors.append("%s timed out (inconclusive, not a verdict)" % package)
    finally:
        try:
            os.remove(out)
        except OSError:
            pass
    merged = {"evaluations": 0, "nontrivial": set(), "discards": {}, "inconclusive": {}, "failures": [], "samples": [], "stats": {}}
    ntc = 0
    if rep is not None:
        merged["evaluations"] = int(rep.get("evaluations", 0))
        ntc = int(rep.get("distinct_nontrivial", 0))
        merged["failures"] = rep.get("failures", [])
        merged["samples"] = rep.get("samples", [])[:3]
        merged["stats"] = {k: v for k, v in rep.items() if k not in ("evaluations", "distinct_nontrivial", "failures", "samples")}
        # signatures that overflowed the failure list still count
        listed = set(f["sig"] for f in merged["failures"])
        for sig, n in (rep.get("failure_signature_counts") or {}).items():
            if sig not in listed:
                merged["failures"].append({"sig": sig, "what": "%s (%d occurrences, no witness listed)" % (sig, n), "case": {}})
    return merged, ntc, harness_errors
