"""C09 Letter case, spacing, comments and line endings never change a program's meaning.

Oracle: metamorphic. The worker parses, lints and runs P and T(P); the parse trees (positions erased,
case-folded for case transforms) must be equal, the checker verdict (accept | error kind) must be equal
and the run-time behaviour (stdout, lpt1, outcome code) must be equal under the same stdin."""
import random
import re

from .. import corpus, driver
from ..btext import KEYWORDS, is_keyword, lines_of, tokenize, untokenize
from ..driver import ShardResult, h64
from ..gen import Gen
from ..gen_full import FullGen
from ..lang import emit_program
from ..worker import Worker, outcome

PID = "C09"

BLOCK_WORDS = set("IF ELSE ELSEIF END FOR NEXT WHILE WEND DO LOOP SELECT CASE SUB FUNCTION TYPE DECLARE DATA DEFINT DEFLNG DEFSNG DEFDBL DEFSTR DEF CONST DIM REDIM ON RESUME RETURN".split())


def first_word(line):
    for t in line:
        if t[0] == "ws":
            continue
        return t
    return None


def is_simple_line(line):
    """A line that holds only simple statements (candidates for joining with a colon)."""
    fw = first_word(line)
    if fw is None or fw[0] != "word":
        return False
    if fw[1].upper() in BLOCK_WORDS:
        return False
    toks = [t for t in line if t[0] not in ("ws", "eol")]
    if any(t[0] in ("comment", "data") for t in toks):
        return False
    if any(t[0] == "word" and t[1].upper() in ("THEN", "ELSE", "IF") for t in toks):
        return False
    # a label
    if len(toks) >= 2 and toks[1][1] == ":" and len(toks) == 2:
        return False
    if toks and toks[-1][1] == ":":
        return False
    return True


def t_keyword_case(rng, toks, mode):
    out = []
    for t in toks:
        if t[0] == "word" and is_keyword(t[1]):
            w = t[1]
            if mode == "upper":
                w = w.upper()
            elif mode == "lower":
                w = w.lower()
            else:
                w = "".join(c.upper() if rng.random() < 0.5 else c.lower() for c in w)
            out.append(["word", w])
        else:
            out.append(t)
    return out


def t_ident_case(rng, toks, consistent):
    mapping = {}
    out = []
    for t in toks:
        if t[0] == "word" and not is_keyword(t[1]):
            key = t[1].upper()
            if consistent:
                if key not in mapping:
                    mapping[key] = rng.choice([t[1].upper(), t[1].lower(), t[1].swapcase()])
                out.append(["word", mapping[key]])
            else:
                out.append(["word", "".join(c.upper() if rng.random() < 0.5 else c.lower() for c in t[1])])
        else:
            out.append(t)
    return out


def t_whitespace(rng, toks, tabs):
    out = []
    for i, t in enumerate(toks):
        if t[0] == "ws":
            n = rng.choice([1, 1, 2, 3, 5])
            chars = " \t" if tabs else " "
            out.append(["ws", "".join(rng.choice(chars) for _ in range(n))])
        elif t[0] == "eol" and rng.random() < 0.3 and out and out[-1][0] not in ("data", "str", "comment") and not (out[-1][0] == "ws"):
            # trailing blanks at the end of a line
            out.append(["ws", " " * rng.choice([1, 2])])
            out.append(t)
        else:
            out.append(t)
        if t[0] == "eol" and rng.random() < 0.3:
            out.append(["ws", " " * rng.choice([1, 2, 4])])
    # a "ws" directly followed by "ws" merges harmlessly
    return out


PAREN_KW = set("NOT AND OR MOD XOR EQV IMP WHILE UNTIL IF ELSEIF CASE TO STEP".split())


def t_paren_blank(rng, toks):
    """Drops the blank between an operator / statement keyword and an opening parenthesis (NOT (A) -> NOT(A)),
    or inserts one where there is none."""
    out = []
    n = len(toks)
    for i, t in enumerate(toks):
        if (t[0] == "ws" and out and out[-1][0] == "word" and out[-1][1].upper() in PAREN_KW and i + 1 < n and toks[i + 1] == ["sym", "("]
                and rng.random() < 0.7):
            continue
        out.append(t)
        if t[0] == "word" and t[1].upper() in PAREN_KW and i + 1 < n and toks[i + 1] == ["sym", "("] and rng.random() < 0.5:
            out.append(["ws", " "])
    return out


def t_blank_lines(rng, toks):
    out = []
    for t in toks:
        out.append(t)
        if t[0] == "eol" and rng.random() < 0.3:
            out.append(["eol", t[1]])
    return out


def t_comments(rng, toks):
    out = []
    line = []
    for t in toks + [["eol", ""]]:
        if t[0] == "eol":
            has = any(x[0] in ("comment", "data") for x in line)
            content = [x for x in line if x[0] != "ws"]
            if content and not has and rng.random() < 0.4 and content[-1][0] != "str" or (content and not has and rng.random() < 0.2):
                if not (content[-1][0] == "str" and not content[-1][1].endswith('"')):
                    line.append(["ws", " "])
                    line.append(["comment", "' " + rng.choice(["note", "x = 1", "PRINT", "it's"])])
            out += line
            if t[1]:
                out.append(t)
            line = []
        else:
            line.append(t)
    return out


def t_eol(rng, toks, mode):
    out = []
    for t in toks:
        if t[0] == "eol":
            if mode == "mixed":
                out.append(["eol", rng.choice(["\n", "\r\n", "\r"])])
            else:
                out.append(["eol", mode])
        else:
            out.append(t)
    return out


def t_join_colon(rng, toks):
    lines = lines_of(toks)
    out = []
    i = 0
    in_type = False
    while i < len(lines):
        line = lines[i]
        fw = first_word(line)
        if fw and fw[0] == "word" and fw[1].upper() == "TYPE":
            in_type = True
        if fw and fw[0] == "word" and fw[1].upper() == "END":
            in_type = False
        if (not in_type and i + 1 < len(lines) and is_simple_line(line) and is_simple_line(lines[i + 1]) and rng.random() < 0.5
                and line and line[-1][0] == "eol"):
            body = line[:-1]
            while body and body[-1][0] == "ws":
                body.pop()
            nxt = list(lines[i + 1])
            while nxt and nxt[0][0] == "ws":
                nxt.pop(0)
            lines[i + 1] = body + [["ws", " "], ["sym", ":"], ["ws", " "]] + nxt
            i += 1
            continue
        out += line
        i += 1
    return out


def t_split_colon(rng, toks):
    lines = lines_of(toks)
    out = []
    for line in lines:
        words = [t[1].upper() for t in line if t[0] == "word"]
        if any(w in ("IF", "THEN", "ELSE", "DATA", "CASE") for w in words) or any(t[0] in ("data", "comment") for t in line):
            out += line
            continue
        eol = "\n"
        if line and line[-1][0] == "eol":
            eol = line[-1][1]
        new = []
        depth = 0
        for t in line:
            if t[0] == "sym" and t[1] == "(":
                depth += 1
            if t[0] == "sym" and t[1] == ")":
                depth -= 1
            content = [x for x in new if x[0] != "ws"]
            if t[0] == "sym" and t[1] == ":" and depth == 0 and len(content) > 1 and rng.random() < 0.7:
                new.append(["eol", eol])
                out += new
                new = []
            else:
                new.append(t)
        out += new
    return out


TRANSFORMS = ["kw_upper", "kw_lower", "kw_mixed", "id_consistent", "id_inconsistent", "ws", "ws_tabs", "blank_lines",
              "comments", "lf", "crlf", "cr", "eol_mixed", "join_colon", "split_colon", "paren_blank", "all"]
CASE_T = ("kw_upper", "kw_lower", "kw_mixed", "id_consistent", "id_inconsistent", "all")


def apply(rng, name, src):
    toks = tokenize(src)
    if name == "kw_upper":
        toks = t_keyword_case(rng, toks, "upper")
    elif name == "kw_lower":
        toks = t_keyword_case(rng, toks, "lower")
    elif name == "kw_mixed":
        toks = t_keyword_case(rng, toks, "mixed")
    elif name == "id_consistent":
        toks = t_ident_case(rng, toks, True)
    elif name == "id_inconsistent":
        toks = t_ident_case(rng, toks, False)
    elif name == "ws":
        toks = t_whitespace(rng, toks, False)
    elif name == "ws_tabs":
        toks = t_whitespace(rng, toks, True)
    elif name == "blank_lines":
        toks = t_blank_lines(rng, toks)
    elif name == "comments":
        toks = t_comments(rng, toks)
    elif name == "lf":
        toks = t_eol(rng, toks, "\n")
    elif name == "crlf":
        toks = t_eol(rng, toks, "\r\n")
    elif name == "cr":
        toks = t_eol(rng, toks, "\r")
    elif name == "eol_mixed":
        toks = t_eol(rng, toks, "mixed")
    elif name == "join_colon":
        toks = t_join_colon(rng, toks)
    elif name == "split_colon":
        toks = t_split_colon(rng, toks)
    elif name == "paren_blank":
        toks = t_paren_blank(rng, toks)
    else:
        toks = t_keyword_case(rng, toks, "mixed")
        toks = t_ident_case(rng, toks, False)
        toks = t_whitespace(rng, tokenize(untokenize(toks)), False)
        toks = t_paren_blank(rng, toks)
        toks = t_blank_lines(rng, toks)
        toks = t_eol(rng, toks, "mixed")
    return untokenize(toks)


def verdict(rep):
    oc = outcome(rep)
    if oc[0] == "parse_error":
        # which syntax error a rejected text gets depends on what the parser reads first; the class is compared
        return ("parse_error",)
    if oc[0] == "lint_error":
        return oc[:2]
    if oc[0] == "panic":
        return ("panic", rep["panic"].get("phase"))
    if oc[0] in ("died", "watchdog", "harness_error"):
        return (oc[0],)
    return ("accepted",)


def behaviour(rep):
    oc = outcome(rep)
    run = rep.get("run") or {}
    if oc[0] == "error":
        oc = ("error", oc[1])
    return (oc, run.get("stdout"), run.get("lpt1"))


def compare(name, rep_p, rep_t):
    """Returns None | ("INCONCLUSIVE", why) | (sigkind, text)."""
    vp, vt = verdict(rep_p), verdict(rep_t)
    if vp[0] in ("died", "watchdog", "harness_error", "panic") or vt[0] in ("died", "watchdog", "harness_error", "panic"):
        if vp != vt:
            return ("verdict:%s->%s" % (vp[0], vt[0]), "verdict changed from %s to %s" % (vp, vt))
        return ("INCONCLUSIVE", vp[0])
    if vp != vt:
        return ("verdict:%s->%s" % (":".join(map(str, vp)), ":".join(map(str, vt))), "checker verdict changed from %s to %s" % (vp, vt))
    if name not in ("comments",) and "tree" in rep_p and "tree" in rep_t:
        a, b = rep_p["tree"], rep_t["tree"]
        if name in CASE_T:
            a, b = a.lower(), b.lower()
        if a != b:
            i = 0
            while i < min(len(a), len(b)) and a[i] == b[i]:
                i += 1
            return ("tree", "parse tree differs at offset %d: %r vs %r" % (i, a[max(0, i - 60):i + 60], b[max(0, i - 60):i + 60]))
    if vp[0] != "accepted":
        return None
    bp, bt = behaviour(rep_p), behaviour(rep_t)
    if bp[0][0] == "budget" or bt[0][0] == "budget":
        if bp[0][0] != bt[0][0]:
            return ("behaviour:budget", "one of the two programs exhausted the instruction budget: %s vs %s" % (bp[0], bt[0]))
        return None
    if bp != bt:
        return ("behaviour", "run-time behaviour differs: %r vs %r" % (bp, bt))
    return None


def shard(ctx):
    r = ShardResult()
    rng = ctx.rng
    w = Worker()
    # known finding KF-C09-1: an argument-less COLOR/LOCATE is rejected at different stages with and without a blank
    bare = re.compile(r"^[ \t]*(COLOR|LOCATE)[ \t]*('.*)?$", re.I | re.M)
    texts = [t for t in corpus.load() if "INKEY$" not in t.upper() and len(t) < 6000 and not bare.search(t)]
    n = ctx.params["n"] // ctx.n
    per = ctx.params["transforms_per_program"]
    # directed spelling pairs: the same program with a blank added or removed next to a sign, a parenthesis or a keyword
    # (places the random transforms do not touch); verdict and behaviour must agree; tree not compared where the blank
    # legitimately changes a token boundary
    if ctx.k == 0:
        sub = "SUB Inc (N)\nN = N + 1\nEND SUB\n"
        pairs = [("X = - 1\nPRINT X; 2 * - 3; 1 - - 1\n", "X = -1\nPRINT X; 2 * -3; 1 - -1\n"),
                 ("X = 1\nInc(X)\nPRINT X\n" + sub, "X = 1\nInc (X)\nPRINT X\n" + sub),
                 ("PRINT NOT(1) + 2; NOT(0) = 5\n", "PRINT NOT (1) + 2; NOT (0) = 5\n"),
                 ("A = 1\nWHILE(A)+1 < 4\nA = A + 1\nWEND\nPRINT A\n", "A = 1\nWHILE (A)+1 < 4\nA = A + 1\nWEND\nPRINT A\n"),
                 ("FOR I = 1 TO(2)+1 STEP(1)+0\nPRINT I;\nNEXT\n", "FOR I = 1 TO (2)+1 STEP (1)+0\nPRINT I;\nNEXT\n"),
                 ("A = 2\nSELECT CASE(A)+1\nCASE(1)+2\nPRINT \"three\"\nEND SELECT\n", "A = 2\nSELECT CASE (A)+1\nCASE (1)+2\nPRINT \"three\"\nEND SELECT\n"),
                 ("PRINT 5 AND(3) + 4; 7 MOD(3) + 1; 8 OR(1)\n", "PRINT 5 AND (3) + 4; 7 MOD (3) + 1; 8 OR (1)\n"),
                 ("IF(1)+1 = 2 THEN PRINT \"ok\"\n", "IF (1)+1 = 2 THEN PRINT \"ok\"\n")]
        for a, b in pairs:
            ra = w.run(a, budget=60000)
            rb = w.run(b, budget=60000)
            r.evaluations += 1
            r.count("directed_spelling_pairs", group="workload")
            r.nontrivial.add(h64("pair" + a))
            va, vb = verdict(ra), verdict(rb)
            ba, bb = behaviour(ra) if va[0] == "accepted" else None, behaviour(rb) if vb[0] == "accepted" else None
            if va != vb or ba != bb:
                r.fail("C09:spelling_pair:%s" % ("verdict" if va != vb else "behaviour"), "two spellings differ: %r gives %s %s, %r gives %s %s" % (a, va, ba, b, vb, bb), {"transform": "pair", "src": a, "tsrc": b, "stdin": ""})
    queue = [texts[i] for i in ctx.indices(len(texts))]
    done = 0
    while done < n:
        if queue:
            kind, src, stdin = "corpus", queue.pop(), ""
        else:
            x = rng.random()
            if x < 0.45:
                g = FullGen(rng, size=rng.choice([5, 9]))
                kind, src, stdin = "full", g.program(), g.stdin_bytes()
            elif x < 0.8:
                g = Gen(rng, max_depth=rng.choice([2, 3, 4]), size=rng.choice([5, 9]))
                kind = "core"
                src, _ = emit_program(g.program()["main"])
                stdin = ""
            else:
                kind, src, stdin = "corpus", rng.choice(texts), ""
        if "INKEY$" in src.upper():
            continue
        done += 1
        rep_p = w.run(src, want=["tree", "files"], stdin=stdin, files={}, budget=60000)
        names = ["all"] + rng.sample(TRANSFORMS[:-1], min(per - 1, len(TRANSFORMS) - 1))
        for name in names:
            tsrc = apply(rng, name, src)
            if tsrc == src:
                r.count(name, group="transform_was_identity")
                continue
            rep_t = w.run(tsrc, want=["tree", "files"], stdin=stdin, files={}, budget=60000)
            v = compare(name, rep_p, rep_t)
            if v is not None and v[0] == "INCONCLUSIVE":
                r.inconc(v[1])
                continue
            r.evaluations += 1
            r.count(name, group="transforms")
            r.count(kind, group="workload")
            r.count(verdict(rep_p)[0], group="verdicts_of_originals")
            r.nontrivial.add(h64(name + "\0" + tsrc))
            if v is not None:
                r.fail("C09:%s:%s" % (name, v[0]), "transform %s: %s | original:\n%s\n| transformed:\n%s" % (name, v[1], src[:400], tsrc[:400]),
                       {"transform": name, "src": src, "tsrc": tsrc, "stdin": stdin})
            elif len(r.samples) < 3 and name in ("all", "join_colon") and len(src) < 400 and verdict(rep_p)[0] == "accepted" and rng.random() < 0.05:
                r.sample({"transform": name, "original": src, "transformed": tsrc, "verdict": list(verdict(rep_p)), "stdout": (rep_p.get("run") or {}).get("stdout")})
    w.close()
    return r


RULE = ("every BASIC text embedded in the repository (accepted and rejected) plus generated programs; each is transformed by 'all at once' and a random subset of: keyword "
        "case (upper/lower/mixed), identifier case (consistent/inconsistent), blank/tab runs resized, blank lines, trailing comments, LF/CRLF/CR/mixed line endings, newline<->colon "
        "between simple statements; parse tree (positions erased), checker verdict and run-time behaviour of original and transformed program are compared; "
        "non-trivial = the transform changed the text; distinct by (transform, transformed text)")


def witness(wcase, entry):
    w = Worker()
    try:
        a = w.run(wcase["src"], want=["tree", "files"], stdin=wcase.get("stdin", ""), files={}, budget=60000)
        b = w.run(wcase["tsrc"], want=["tree", "files"], stdin=wcase.get("stdin", ""), files={}, budget=60000)
    finally:
        w.close()
    v = compare(wcase["transform"], a, b)
    return v is not None and v[0] != "INCONCLUSIVE"


def main(tier, seed):
    params = {"n": 5000 if tier == "quick" else 60000, "transforms_per_program": 6 if tier == "quick" else 12}
    return driver.run_check(
        PID, shard, params, tier, seed,
        min_evaluations=10000 if tier == "quick" else 300000,
        rule=RULE, witness_fn=witness,
        assumptions=["the transforms never touch string literals, comments and DATA payloads (string-, comment- and DATA-aware tokenizer)",
                     "the parse tree is not compared for the comment transform (comments are statements of the tree); verdict and behaviour are"],
    )


def replay(rec):
    driver.build()
    c = rec["case"]
    w = Worker()
    a = w.run(c["src"], want=["tree", "files"], stdin=c.get("stdin", ""), files={}, budget=60000)
    b = w.run(c["tsrc"], want=["tree", "files"], stdin=c.get("stdin", ""), files={}, budget=60000)
    w.close()
    v = compare(c["transform"], a, b)
    if v is None or v[0] == "INCONCLUSIVE":
        print("replay: case now passes")
        return 0
    print("replay: " + v[1][:1500])
    print("VIOLATION property=%s replay=(replayed)" % PID)
    return 1
