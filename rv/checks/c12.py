"""C12 The static checker is sound for types and its verdicts are stable.

(a) run-time monitor: an accepted program must never raise Type mismatch (13) outside READ / INPUT /
    PRINT USING statements, nor hit a "wrong kind of operand" assertion of the interpreter;
(b) metamorphic: a consistent renaming of user identifiers must not change the verdict;
(c) mutation with known expected family: an accepted program made ill-formed by one local edit must be
    rejected with an error of the matching family located in the edited statement."""
import copy
import random
import re

from .. import corpus, driver
from ..btext import BUILTIN_FUNCS, KEYWORDS, is_keyword, tokenize, untokenize
from ..driver import ShardResult, h64
from ..gen import Gen, GenCalls, emit_with_procs
from ..gen_full import FullGen
from ..lang import RANK, REL, number_statements
from ..worker import Worker, outcome
from .c08 import make_case as c08_case
from .common import norm_msg, panic_sig

PID = "C12"
KIND_PANICS = ("Variant was not", "Expected array", "Expected user defined type", "unexpected arg", "Cannot print user defined type", "should be resolved", "Not a name expression")
CONVERTING = re.compile(r"\b(READ|INPUT|USING)\b", re.I)
TYPE_FAMILY = {"TypeMismatch", "ArgumentTypeMismatch"}
ARG_FAMILY = {"ArgumentCountMismatch", "ArgumentTypeMismatch", "TypeMismatch", "FunctionNeedsArguments"}


# ---- (a) soundness monitor --------------------------------------------------------------------------

def judge_soundness(src, rep):
    oc = outcome(rep)
    if oc[0] == "panic":
        p = rep["panic"]
        if p.get("phase") in ("gen", "run") and any(k in (p.get("msg") or "") for k in KIND_PANICS):
            return ("kind_assertion:" + norm_msg(p.get("msg"))[:40], "accepted program hit a wrong-kind assertion: %s at %s:%s" % (p.get("msg"), p.get("file"), p.get("line")))
        return None
    if oc[0] == "error" and oc[1] == 13:
        pos = rep["run"]["result"].get("pos") or []
        lines = src.replace("\r\n", "\n").replace("\r", "\n").split("\n")
        row = pos[0][0] if pos else 0
        line = lines[row - 1] if 0 < row <= len(lines) else ""
        if CONVERTING.search(line):
            return None
        return ("type_mismatch_at_run_time", "accepted program raised Type mismatch (13) at %s in a statement that converts no external data: %r" % (pos[:1], line.strip()[:120]))
    return None


# ---- (b) renaming -----------------------------------------------------------------------------------

def rename(src, tag):
    toks = tokenize(src)
    out = []
    in_def = False
    line_start = True
    for t in toks:
        if t[0] == "eol":
            in_def = False
            line_start = True
        elif t[0] != "ws" and line_start:
            line_start = False
            in_def = t[0] == "word" and t[1].upper() in ("DEFINT", "DEFLNG", "DEFSNG", "DEFDBL", "DEFSTR")
        if t[0] == "word" and in_def:
            out.append(t)       # the letters of a DEFtype range are not identifiers
            continue
        if t[0] == "word":
            w = t[1]
            base = w.rstrip("%&!#$")
            suffix = w[len(base):]
            up = w.upper()
            first = base.split(".")[0].upper()
            if (up in KEYWORDS or up in BUILTIN_FUNCS or base.upper() in KEYWORDS or (base.upper() + "$") in BUILTIN_FUNCS or base.upper() in BUILTIN_FUNCS
                    or first in KEYWORDS or first in BUILTIN_FUNCS or (first + "$") in BUILTIN_FUNCS):
                # also a dotted name whose first part is the name of a built-in (Ltrim.Value): every spelling of that base stays
                out.append(t)
                continue
            segs = base.split(".")
            new = ".".join((s + tag) if s else s for s in segs)
            out.append(["word", new + suffix])
        else:
            out.append(t)
    return untokenize(out)


def verdict(rep):
    oc = outcome(rep)
    if oc[0] == "parse_error":
        return ("parse_error",)
    if oc[0] == "lint_error":
        return oc[:2]
    if oc[0] == "panic":
        return ("panic", rep["panic"].get("phase"))
    if oc[0] in ("died", "watchdog", "harness_error"):
        return (oc[0],)
    return ("accepted",)


# ---- (c) typed walk over the generator AST ------------------------------------------------------------

def stype(e):
    k = e[0]
    if k == "lit":
        return e[1]
    if k in ("var", "idx"):
        return e[1][-1] if e[1][-1] in "%&!#$" else "!"
    if k == "par":
        return stype(e[1])
    if k == "un":
        return stype(e[2])
    if k == "bin":
        if e[1] in REL or e[1] in ("AND", "OR", "MOD"):
            return "%"
        a, b = stype(e[2]), stype(e[3])
        if a == "$" or b == "$":
            return "$"
        return a if RANK[a] >= RANK[b] else b
    if k == "call":
        n = e[1]
        if n[-1] in "%&!#$":
            return n[-1]
        return {"LEN": "%", "ERR": "%", "LBOUND": "%", "UBOUND": "%"}.get(n.upper(), "!")
    return "!"


def numeric_sites(stmts, proc_params):
    """Yields (setter, kind, statement) for every expression position that requires a numeric value."""
    sites = []

    def walk_expr(e, put, stmt, need_numeric):
        if need_numeric and stype(e) != "$":
            sites.append((put, "expr", stmt))
        k = e[0]
        if k == "par":
            walk_expr(e[1], lambda x, e=e, put=put: put(("par", x)), stmt, need_numeric)
        elif k == "un":
            walk_expr(e[2], lambda x, e=e, put=put: put(("un", e[1], x)), stmt, True)
        elif k == "bin":
            op, l, r = e[1], e[2], e[3]
            numeric_ctx = not (stype(l) == "$" or stype(r) == "$")
            walk_expr(l, lambda x, e=e, put=put: put(("bin", e[1], x, e[3])), stmt, numeric_ctx)
            walk_expr(r, lambda x, e=e, put=put: put(("bin", e[1], e[2], x)), stmt, numeric_ctx)
        elif k == "idx":
            for i, a in enumerate(e[2]):
                walk_expr(a, lambda x, e=e, i=i, put=put: put(("idx", e[1], e[2][:i] + [x] + e[2][i + 1:])), stmt, True)
        elif k == "call":
            params = proc_params.get(e[1].upper())
            for i, a in enumerate(e[2]):
                need = params is not None and i < len(params) and params[i] != "$"
                if params is None:
                    need = False
                walk_expr(a, lambda x, e=e, i=i, put=put: put(("call", e[1], e[2][:i] + [x] + e[2][i + 1:])), stmt, need)

    def walk_stmts(ss):
        for s in ss:
            k = s["k"]
            if k == "assign":
                need = stype(s["lhs"]) != "$"
                walk_expr(s["rhs"], lambda x, s=s: s.__setitem__("rhs", x), s, need)
                if s["lhs"][0] == "idx":
                    walk_expr(s["lhs"], lambda x, s=s: s.__setitem__("lhs", x), s, False)
            elif k == "print":
                for i, it in enumerate(s["items"]):
                    if it[0] == "e":
                        walk_expr(it[1], lambda x, s=s, i=i: s["items"].__setitem__(i, ("e", x)), s, False)
            elif k == "if":
                for i, (c, body) in enumerate(s["arms"]):
                    walk_expr(c, lambda x, s=s, i=i: s["arms"].__setitem__(i, (x, s["arms"][i][1])), s if i == 0 else ("arm", s, i), True)
                    walk_stmts(body)
                if s.get("else"):
                    walk_stmts(s["else"])
            elif k == "ifline":
                walk_expr(s["cond"], lambda x, s=s: s.__setitem__("cond", x), s, True)
            elif k == "select":
                numeric_subject = stype(s["subj"]) != "$"
                walk_expr(s["subj"], lambda x, s=s: s.__setitem__("subj", x), s, False)
                for ci, (cases, body) in enumerate(s["cases"]):
                    for j, c in enumerate(cases):
                        for pos in range(1, len(c)):
                            if isinstance(c[pos], tuple):
                                def put(x, s=s, ci=ci, j=j, pos=pos):
                                    cs = list(s["cases"][ci][0])
                                    item = list(cs[j])
                                    item[pos] = x
                                    cs[j] = tuple(item)
                                    s["cases"][ci] = (cs, s["cases"][ci][1])
                                walk_expr(c[pos], put, ("case", s, ci), numeric_subject)
                    walk_stmts(body)
                if s.get("else"):
                    walk_stmts(s["else"])
            elif k == "for":
                for key in ("lo", "hi", "step"):
                    if s.get(key) is not None:
                        walk_expr(s[key], lambda x, s=s, key=key: s.__setitem__(key, x), s, True)
                walk_stmts(s["body"])
            elif k == "while":
                walk_expr(s["cond"], lambda x, s=s: s.__setitem__("cond", x), s, True)
                walk_stmts(s["body"])
            elif k == "do":
                walk_expr(s["cond"], lambda x, s=s: s.__setitem__("cond", x), s if s["pos"] == "top" else ("loop", s), True)
                walk_stmts(s["body"])
            elif k == "callsub":
                params = proc_params.get(s["name"].upper())
                for i, a in enumerate(s["args"]):
                    need = params is not None and i < len(params) and params[i] != "$"
                    walk_expr(a, lambda x, s=s, i=i: s["args"].__setitem__(i, x), s, need)

    walk_stmts(stmts)
    return sites


def span_key(stmt):
    if isinstance(stmt, tuple):
        if stmt[0] == "arm":
            return (stmt[1]["id"], "arm", stmt[2])
        if stmt[0] == "case":
            return (stmt[1]["id"], "case", stmt[2])
        return (stmt[1]["id"], "loop")
    return stmt["id"]


def shard(ctx):
    r = ShardResult()
    rng = ctx.rng
    w = Worker()
    texts = corpus.load()
    accepted, _ = corpus.classify(w, texts)
    accepted = [t for t in accepted if "INKEY$" not in t.upper()]
    n = ctx.params["n"] // ctx.n
    # ---- (a) + (b) on the whole-repertoire workload, after every accepted corpus program once (sharded) ----
    queue = [("corpus", accepted[i], "1\n2\n", True, None, []) for i in ctx.indices(len(accepted))]
    for _ in range(n + len(queue)):
        if queue:
            kind, src, stdin, uses_files, lpt1, feats = queue.pop()
        else:
            kind, src, stdin, uses_files, lpt1, feats = c08_case(rng, texts, accepted)
        if "INKEY$" in src.upper():
            continue
        rep = w.run(src, want=["files"] if uses_files else [], stdin=stdin, files={} if uses_files else None, budget=60000)
        v0 = verdict(rep)
        if v0[0] in ("died", "watchdog", "harness_error"):
            r.inconc(v0[0])
            continue
        if v0[0] == "accepted":
            r.evaluations += 1
            r.count("soundness_runs", group="parts")
            oc = outcome(rep)
            if oc[0] == "error":
                r.count("error_%s" % oc[1], group="run_time_errors_seen")
            v = judge_soundness(src, rep)
            if v is not None:
                r.fail("C12:a:" + v[0], v[1] + " | program:\n" + src[:700], {"part": "a", "src": src, "stdin": stdin, "files": uses_files})
        # renaming (accepted and rejected programs alike)
        tag = rng.choice(["Zq", "X9", "w"])
        rsrc = rename(src, tag)
        if rsrc != src and max((len(t[1]) for t in tokenize(rsrc) if t[0] == "word"), default=0) <= 36:
            rep2 = w.run(rsrc, stop="lint")
            v1 = verdict(rep2)
            r.evaluations += 1
            r.count("renamings", group="parts")
            r.nontrivial.add(h64("ren" + rsrc))
            if v1 != v0 and v1[0] not in ("died", "watchdog", "harness_error"):
                r.fail("C12:b:%s->%s" % (":".join(map(str, v0)), ":".join(map(str, v1))), "renaming changed the verdict from %s to %s | original:\n%s\n| renamed:\n%s" % (v0, v1, src[:500], rsrc[:500]),
                       {"part": "b", "src": src, "rsrc": rsrc})
    # ---- (c) single ill-typing edits on typed generator programs ----
    m = ctx.params["bases"] // ctx.n
    for _ in range(m):
        g = GenCalls(rng, max_depth=rng.choice([2, 3]), size=rng.choice([4, 6, 8]), errors=0.05)
        prog = g.program()
        src, spans = emit_with_procs(prog)
        rep = w.run(src, budget=60000)
        if not (rep.get("lint") or {}).get("ok"):
            r.count("base_not_accepted")
            continue
        # the typed base program itself runs under the soundness monitor (procedures, function results, by-reference arguments)
        if outcome(rep)[0] not in ("died", "watchdog", "harness_error"):
            r.evaluations += 1
            r.count("soundness_runs_typed_programs", group="parts")
            v = judge_soundness(src, rep)
            if v is not None:
                r.fail("C12:a:" + v[0], v[1] + " | program:\n" + src[:900], {"part": "a", "src": src, "stdin": "", "files": False})
        proc_params = {p["name"].upper(): [t for _, t in p["params"]] for p in prog["procs"]}
        sites_main = numeric_sites(prog["main"], proc_params)
        n_sites = len(sites_main)
        r.count("expression_positions_enumerated", n_sites)
        order = list(range(n_sites))
        if len(order) > ctx.params["max_sites"]:
            rng.shuffle(order)
            order = order[:ctx.params["max_sites"]]
        for si in order:
            p2 = copy.deepcopy(prog)
            sites = numeric_sites(p2["main"], proc_params)
            put, _, stmt = sites[si]
            put(("lit", "$", "oops"))
            esrc, espans = emit_with_procs(p2)
            key = span_key(stmt)
            row = espans.get(key, (None,))[0]
            rep2 = w.run(esrc, stop="lint")
            v1 = verdict(rep2)
            if v1[0] in ("died", "watchdog", "harness_error"):
                r.inconc(v1[0])
                continue
            r.evaluations += 1
            r.count("type_edits", group="parts")
            r.nontrivial.add(h64("edit" + esrc))
            case = {"part": "c", "src": esrc, "expected_row": row, "family": sorted(TYPE_FAMILY)}
            if len(r.samples) < 2 and v1[0] == "lint_error" and row is not None:
                r.sample({"edit": "string literal in a numeric position", "edited_row": row, "edited_line": esrc.split("\n")[row - 1][:200] if row <= len(esrc.split("\n")) else "",
                          "checker_verdict": list(v1), "reported_at": [rep2["lint"]["row"], rep2["lint"]["col"]]})
            if v1[0] == "accepted":
                r.fail("C12:c:type_edit_accepted", "a string literal in a numeric expression position (row %s) is accepted | program:\n%s" % (row, mark_row(esrc, row)), case)
            elif v1[0] == "lint_error":
                e = rep2["lint"]
                if v1[1] not in TYPE_FAMILY:
                    r.fail("C12:c:wrong_family:%s" % v1[1], "string operand edit at row %s rejected with %s (expected a type-mismatch error) | program:\n%s" % (row, v1[1], mark_row(esrc, row)), case)
                elif row is not None and e["row"] != row:
                    r.fail("C12:c:wrong_location", "string operand edit at row %s reported at row %s:%s | program:\n%s" % (row, e["row"], e["col"], mark_row(esrc, row)), case)
            elif v1[0] == "parse_error":
                r.fail("C12:c:parse_error", "edit at row %s made the program unparsable: %s" % (row, rep2.get("parse")), case)
            elif v1[0] == "panic":
                r.fail("C12:c:" + panic_sig(rep2["panic"]), "edit at row %s panics the checker: %s" % (row, rep2["panic"].get("msg")), case)
        # other edit kinds with a known family
        other_edits(w, r, rng, prog, src, spans)
        positioned_edits(w, r, rng, prog, src, ctx.params.get("per_kind", 2))
        builtin_arg_edits(w, r, rng, src)
    # ---- (d) where the SUB / FUNCTION texts sit does not matter; labels belong to the module or to one procedure ----
    for _ in range(m):
        placement_cases(w, r, rng)
    w.close()
    return r


BUILTIN_CALLS = [
    # (template with {0} {1} {2}, types of the arguments, type of the result)
    ("MID$({0}, {1}, {2})", "$%%", "$"), ("MID$({0}, {1})", "$%", "$"), ("LEFT$({0}, {1})", "$%", "$"), ("RIGHT$({0}, {1})", "$%", "$"),
    ("INSTR({0}, {1}, {2})", "%$$", "%"), ("INSTR({0}, {1})", "$$", "%"), ("CHR$({0})", "%", "$"), ("STR$({0})", "%", "$"), ("VAL({0})", "$", "%"),
    ("UCASE$({0})", "$", "$"), ("LCASE$({0})", "$", "$"), ("LTRIM$({0})", "$", "$"), ("RTRIM$({0})", "$", "$"), ("SPACE$({0})", "%", "$"),
    ("STRING$({0}, 65)", "%", "$"), ("STRING$({0}, \"x\")", "%", "$"), ("MKD$({0})", "%", "$"), ("CVD({0})", "$", "%"),
]


def builtin_arg_edits(w, r, rng, base_src):
    """Every argument position of the built-in functions: the right type is accepted, the other type is rejected."""
    tmpl, types, rt = rng.choice(BUILTIN_CALLS)
    good = ['"abcdef"' if t == "$" else str(rng.choice([1, 2, 3])) for t in types]
    target = "ZBT$" if rt == "$" else "ZBN#"
    ok_src = "%s = %s\n" % (target, tmpl.format(*good)) + base_src
    rep = w.run(ok_src, stop="lint")
    v = verdict(rep)
    if v[0] in ("died", "watchdog", "harness_error"):
        r.inconc(v[0])
        return
    r.evaluations += 1
    r.count("builtin_call_well_typed", group="parts")
    if v != ("accepted",):
        r.fail("C12:c:builtin_rejected:%s" % tmpl.split("(")[0], "well-typed %s is rejected: %s" % (tmpl.format(*good), v), {"part": "c", "src": ok_src})
        return
    for k, t in enumerate(types):
        bad = list(good)
        bad[k] = "7" if t == "$" else '"oops"'
        esrc = "%s = %s\n" % (target, tmpl.format(*bad)) + base_src
        rep = w.run(esrc, stop="lint")
        v = verdict(rep)
        if v[0] in ("died", "watchdog", "harness_error"):
            r.inconc(v[0])
            continue
        r.evaluations += 1
        r.count("builtin_argument_type_edits", group="parts")
        r.nontrivial.add(h64("bi" + tmpl + str(k)))
        case = {"part": "c", "src": esrc, "expected_row": 1, "edit": "builtin_arg"}
        name = tmpl.split("(")[0]
        if v[0] == "accepted":
            r.fail("C12:c:builtin_arg_accepted:%s:%d" % (name, k), "%s with argument %d of the wrong type is accepted" % (tmpl.format(*bad), k + 1), case)
        elif v[0] == "lint_error" and (v[1] not in TYPE_FAMILY and v[1] not in ARG_FAMILY):
            r.fail("C12:c:builtin_arg_wrong_family:%s" % v[1], "%s rejected with %s" % (tmpl.format(*bad), v[1]), case)
        elif v[0] not in ("lint_error",):
            r.fail("C12:c:builtin_arg:%s" % v[0], "%s: %s" % (tmpl.format(*bad), v), case)


def placement_cases(w, r, rng):
    from ..gen import GenJumps
    g = GenJumps(rng)
    prog = g.program()
    src_a, _ = emit_with_procs(prog)
    src_b, _ = emit_with_procs(prog, procs_first=True)
    va = verdict(w.run(src_a, stop="lint"))
    vb = verdict(w.run(src_b, stop="lint"))
    if va[0] in ("died", "watchdog", "harness_error") or vb[0] in ("died", "watchdog", "harness_error"):
        r.inconc(va[0] + "/" + vb[0])
        return
    r.evaluations += 1
    r.count("procedure_placement", group="parts")
    r.nontrivial.add(h64("place" + src_b))
    if va != vb:
        r.fail("C12:d:placement:%s->%s" % (":".join(map(str, va)), ":".join(map(str, vb))),
               "moving the SUB / FUNCTION definitions in front of the module-level code changed the verdict from %s to %s | program (procedures first):\n%s" % (va, vb, src_b[:1500]),
               {"part": "d", "src": src_a, "rsrc": src_b})
        return
    labels = [s["name"] for s in prog["main"] if s["k"] == "label"]
    if not labels or not prog["procs"]:
        return
    # a jump from inside a procedure to a label of the module must be rejected wherever the texts sit
    p2 = copy.deepcopy(prog)
    p2["procs"][0]["body"].insert(0, {"k": "goto", "label": rng.choice(labels), "id": None})
    for first in (False, True):
        esrc, _ = emit_with_procs(p2, procs_first=first)
        v = verdict(w.run(esrc, stop="lint"))
        if v[0] in ("died", "watchdog", "harness_error"):
            r.inconc(v[0])
            continue
        r.evaluations += 1
        r.count("jump_from_procedure_to_module_label", group="parts")
        if v[0] == "accepted":
            r.fail("C12:d:foreign_label_accepted:%s" % ("procs_first" if first else "procs_last"),
                   "GOTO from inside %s to a label of the main module is accepted | program:\n%s" % (p2["procs"][0]["name"], esrc[:1500]), {"part": "d", "src": esrc})
        elif v != ("lint_error", "LabelNotDefined"):
            r.fail("C12:d:foreign_label:%s" % ":".join(map(str, v)), "GOTO from inside a procedure to a module label: %s" % (v,), {"part": "d", "src": esrc})


def mark_row(src, row):
    lines = src.split("\n")
    out = []
    for i, l in enumerate(lines[:120]):
        out.append(("%3d> " if i + 1 == row else "%3d  ") % (i + 1) + l)
    return "\n".join(out)[:1800]


def other_edits(w, r, rng, prog, src, spans):
    """Missing label, wrong argument count, by-ref type, duplicate definition, NEXT for the wrong counter."""
    lines = src.split("\n")
    edits = []
    # missing label
    edits.append(("missing_label", lines + ["GOTO NoSuchLabel9"], {"LabelNotDefined"}, len(lines) + 1 if lines[-1] != "" else len(lines)))
    # duplicate definition
    edits.append(("duplicate_definition", ["DIM DUP1 AS INTEGER", "DIM DUP1 AS INTEGER"] + lines, {"DuplicateDefinition"}, 2))
    # NEXT for the wrong counter
    for i, l in enumerate(lines):
        m = re.match(r"^(\s*)NEXT (\S+)\s*$", l)
        if m:
            e = list(lines)
            e[i] = m.group(1) + "NEXT WRONGCTR%"
            edits.append(("next_wrong_counter", e, {"NextWithoutFor"}, i + 1))
            break
    # wrong argument count / by-ref type on a SUB call
    subs = [p for p in prog["procs"] if p["k"] == "sub"]
    if subs:
        p = rng.choice(subs)
        nargs = len(p["params"])
        extra = ", ".join(["1"] * (nargs + 1))
        edits.append(("wrong_arg_count", lines[:0] + ["%s %s" % (p["name"], extra)] + lines, ARG_FAMILY, 1))
        if nargs >= 1:
            pt = p["params"][0][1]
            bad = "BADREF$" if pt != "$" else "BADREF%"
            rest = ", ".join(('""' if t == "$" else "1") for _, t in p["params"][1:])
            edits.append(("byref_type", ["%s %s%s" % (p["name"], bad, (", " + rest) if rest else "")] + lines, ARG_FAMILY, 1))
            if pt != "$":
                # a subscripted array element of another numeric type is passed by reference too
                other = rng.choice([t for t in "%&!#" if t != pt])
                edits.append(("byref_element_type", ["DIM ZZA%s(1 TO 2)" % other, "%s ZZA%s(1)%s" % (p["name"], other, (", " + rest) if rest else "")] + lines, ARG_FAMILY, 2))
    for name, elines, family, row in edits:
        if lines and lines[-1] == "" and name == "missing_label":
            elines = lines[:-1] + ["GOTO NoSuchLabel9", ""]
            row = len(lines)
        # DATA/labels before statements are fine; END must not hide the edit from the checker (it does not: linting is static)
        esrc = "\n".join(elines)
        rep = w.run(esrc, stop="lint")
        v = verdict(rep)
        if v[0] in ("died", "watchdog", "harness_error"):
            r.inconc(v[0])
            continue
        r.evaluations += 1
        r.count(name, group="parts")
        r.nontrivial.add(h64(name + esrc))
        case = {"part": "c", "src": esrc, "expected_row": row, "family": sorted(family), "edit": name}
        if v[0] == "accepted":
            r.fail("C12:c:%s_accepted" % name, "%s edit (row %s) is accepted | program:\n%s" % (name, row, mark_row(esrc, row)), case)
        elif v[0] == "lint_error":
            e = rep["lint"]
            if v[1] not in family:
                r.fail("C12:c:%s:wrong_family:%s" % (name, v[1]), "%s edit rejected with %s, expected one of %s | program:\n%s" % (name, v[1], sorted(family), mark_row(esrc, row)), case)
            elif e["row"] != row:
                r.fail("C12:c:%s:wrong_location" % name, "%s edit at row %s reported at %s:%s | program:\n%s" % (name, row, e["row"], e["col"], mark_row(esrc, row)), case)
        elif v[0] == "parse_error":
            if name != "next_wrong_counter":     # NEXT without FOR may legitimately be a parser-level error
                r.fail("C12:c:%s:parse_error" % name, "%s edit made the program unparsable: %s" % (name, rep.get("parse")), case)
            elif rep["parse"]["row"] != row or rep["parse"]["kind"] != "NextWithoutFor":
                r.fail("C12:c:%s:wrong_parse_error" % name, "%s edit reported as %s at row %s (expected NextWithoutFor at row %s)" % (name, rep["parse"]["kind"], rep["parse"]["row"], row), case)
        elif v[0] == "panic":
            r.fail("C12:c:%s:%s" % (name, panic_sig(rep["panic"])), "%s edit panics the checker: %s" % (name, rep["panic"].get("msg")), case)


SIMPLE_LINE = re.compile(r"^(\s*)(PRINT\b[^:]*|[A-Za-z][A-Za-z0-9.]*[%&!#$]?(\([^:]*\))? = [^:]*)$")
DUP_FAMILY = {"DuplicateDefinition", "DuplicateLabel"}


def line_scopes(lines):
    """For every line the procedure it belongs to (None = main module)."""
    out = []
    cur = None
    for l in lines:
        m = re.match(r"^\s*(SUB|FUNCTION)\s+([A-Za-z][A-Za-z0-9.]*)", l)
        if m:
            cur = m.group(2).upper()
        out.append(cur)
        if re.match(r"^\s*END (SUB|FUNCTION)\b", l):
            cur = None
    return out


def positioned_edits(w, r, rng, prog, src, per_kind):
    """One ill-formed statement put after a simple statement anywhere in the program (any block nesting, main module
    and procedure bodies): the checker must reject it with the matching family, at the row of the new statement."""
    lines = src.split("\n")
    scopes = line_scopes(lines)
    # insertion points: after a simple assignment or PRINT line that is not part of a single-line IF
    points = [i for i, l in enumerate(lines) if SIMPLE_LINE.match(l) and not l.rstrip().endswith(("THEN", "ELSE"))]
    if not points:
        return
    main_points = [i for i in points if scopes[i] is None]
    subs = [p for p in prog["procs"] if p["k"] == "sub"]
    funs = [p for p in prog["procs"] if p["k"] != "sub"]

    def ins_after(i, new):
        ind = SIMPLE_LINE.match(lines[i]).group(1)
        return lines[:i + 1] + [ind + new] + lines[i + 1:], i + 2

    edits = []

    def pick(cands, k):
        cands = list(cands)
        rng.shuffle(cands)
        return cands[:k]

    for i in pick(points, per_kind):
        forms = ["GOTO NoLbl9", "GOSUB NoLbl9", "IF ZQ9% THEN GOTO NoLbl9", "IF ZQ9% THEN ZQ9% = 1 ELSE GOSUB NoLbl9"]
        if scopes[i] is None:
            forms.append("RETURN NoLbl9")    # RETURN label is not allowed inside a procedure (Illegal in SUB/FUNCTION)
        form = rng.choice(forms)
        e, row = ins_after(i, form)
        edits.append(("missing_label_anywhere", e, {"LabelNotDefined"}, row))
    for i in pick(main_points, max(1, per_kind // 2)):
        form = rng.choice(["ON ERROR GOTO NoLbl9", "RESUME NoLbl9"])
        e, row = ins_after(i, form)
        edits.append(("missing_handler_label", e, {"LabelNotDefined"}, row))
    for i in pick(points, per_kind):
        if subs and rng.random() < 0.5:
            p = rng.choice(subs)
            nargs = len(p["params"])
            k = rng.choice([c for c in (nargs - 1, nargs + 1, nargs + 2) if c >= 0])
            if k == 0 and nargs == 0:
                continue
            args = ", ".join(('""' if (j < nargs and p["params"][j][1] == "$") else "1") for j in range(k))
            e, row = ins_after(i, ("%s %s" % (p["name"], args)).rstrip())
            edits.append(("wrong_arg_count_sub_anywhere", e, ARG_FAMILY, row))
        elif funs:
            p = rng.choice(funs)
            nargs = len(p["params"])
            k = rng.choice([c for c in (nargs - 1, nargs + 1) if c >= 1] or [nargs + 1])
            args = ", ".join(('""' if (j < nargs and p["params"][j][1] == "$") else "1") for j in range(k))
            rt = "$" if p["name"].endswith("$") else "#"
            wrap = rng.choice(["ZF9{t} = {c}", "ZF9{t} = ({c})", "PRINT {c}", "IF {c} = {c} THEN ZQ9% = 1"])
            e, row = ins_after(i, wrap.format(t=rt, c="%s(%s)" % (p["name"], args)))
            edits.append(("wrong_arg_count_function_anywhere", e, ARG_FAMILY, row))
    for i in pick(points, per_kind):
        if not subs:
            break
        cands = [p for p in subs if p["params"]]
        if not cands:
            break
        p = rng.choice(cands)
        j = rng.randrange(len(p["params"]))
        pt = p["params"][j][1]
        bad = "ZBR9$" if pt != "$" else "ZBR9%"
        args = ", ".join(bad if k == j else ('""' if t == "$" else "1") for k, (_, t) in enumerate(p["params"]))
        e, row = ins_after(i, "%s %s" % (p["name"], args))
        edits.append(("byref_type_anywhere", e, ARG_FAMILY, row))
    # a number where a string is needed: next to a fixed-length string (variable or array element), an ordinary string
    # variable or a string literal, on either side of + and of the relational operators
    for i in pick(points, per_kind):
        ind = SIMPLE_LINE.match(lines[i]).group(1)
        decl = rng.choice(["DIM ZFS9 AS STRING * 4", "DIM ZFA9(1 TO 2) AS STRING * 3", 'ZSV9$ = "a"'])
        sv = {"DIM ZFS9": "ZFS9", "DIM ZFA9": "ZFA9(1)", "ZSV9$ =": "ZSV9$"}[decl[:8] if decl.startswith("DIM") else "ZSV9$ ="]
        if rng.random() < 0.2:
            sv = '"lit"'
        num = rng.choice(["1", "ZQ9%", "2.5", "(1 + 1)", "LEN(\"ab\")"])
        a, b = (sv, num) if rng.random() < 0.6 else (num, sv)
        op = rng.choice(["+", "+", "=", "<>", "<", ">=", "<=", ">"])
        stmt = rng.choice(["ZSR9$ = %s %s %s", "PRINT %s %s %s", "IF %s %s %s THEN ZQ9% = 1", "ZQ9% = LEN(%s %s %s)"])
        if op != "+" and stmt.startswith("ZSR9$"):
            stmt = "ZQ9% = (%s %s %s)"
        bad = stmt.replace("%s", "@", 3).replace("@", a, 1).replace("@", op, 1).replace("@", b, 1)
        e = lines[:i + 1] + [ind + decl, ind + bad] + lines[i + 1:]
        edits.append(("string_number_mix_anywhere", e, TYPE_FAMILY, i + 3))
    # duplicate definitions: the same declaration twice in one scope
    by_scope = {}
    for i in points:
        by_scope.setdefault(scopes[i], []).append(i)
    for sc, pts in by_scope.items():
        if len(pts) < 2:
            continue
        for _ in range(max(1, per_kind // 2)):
            a, b = sorted(rng.sample(pts, 2))
            decl = rng.choice(["DIM ZD9 AS INTEGER", "CONST ZC9 = 1", "ZL9:", "DIM ZA9(1 TO 2) AS LONG"])
            e1, _ = ins_after(b, decl)
            ind = SIMPLE_LINE.match(lines[a]).group(1)
            e = e1[:a + 1] + [ind + decl] + e1[a + 1:]
            edits.append(("duplicate_%s_anywhere" % decl.split(" ")[0].rstrip(":").lower(), e, DUP_FAMILY, b + 3))
    # NEXT for the wrong counter, at every NEXT that names its counter
    nexts = [i for i, l in enumerate(lines) if re.match(r"^\s*NEXT \S+\s*$", l)]
    for i in pick(nexts, per_kind):
        e = list(lines)
        e[i] = re.match(r"^(\s*)", lines[i]).group(1) + "NEXT WRONGCTR%"
        edits.append(("next_wrong_counter_anywhere", e, {"NextWithoutFor"}, i + 1))
    for name, elines, family, row in edits:
        esrc = "\n".join(elines)
        rep = w.run(esrc, stop="lint")
        v = verdict(rep)
        if v[0] in ("died", "watchdog", "harness_error"):
            r.inconc(v[0])
            continue
        r.evaluations += 1
        r.count(name, group="parts")
        r.count("in_procedure" if scopes[min(row - 2, len(scopes) - 1)] else "in_main", group="positioned_edit_scope")
        r.count("depth_%d" % min(6, (len(elines[row - 1]) - len(elines[row - 1].lstrip())) // 2), group="positioned_edit_indentation")
        r.nontrivial.add(h64(name + esrc))
        case = {"part": "e", "src": esrc, "expected_row": row, "family": sorted(family), "edit": name}
        if v[0] == "accepted":
            r.fail("C12:e:%s_accepted" % name, "%s edit (row %s) is accepted | program:\n%s" % (name, row, mark_row(esrc, row)), case)
        elif v[0] == "lint_error":
            e = rep["lint"]
            if v[1] not in family:
                r.fail("C12:e:%s:wrong_family:%s" % (name, v[1]), "%s edit rejected with %s, expected one of %s | program:\n%s" % (name, v[1], sorted(family), mark_row(esrc, row)), case)
            elif e["row"] != row:
                r.fail("C12:e:%s:wrong_location" % name, "%s edit at row %s reported at %s:%s | program:\n%s" % (name, row, e["row"], e["col"], mark_row(esrc, row)), case)
        elif v[0] == "parse_error":
            if not name.startswith("next_wrong_counter"):
                r.fail("C12:e:%s:parse_error" % name, "%s edit made the program unparsable: %s | program:\n%s" % (name, rep.get("parse"), mark_row(esrc, row)), case)
            elif rep["parse"]["row"] != row or rep["parse"]["kind"] != "NextWithoutFor":
                r.fail("C12:e:%s:wrong_parse_error" % name, "%s edit reported as %s at row %s (expected NextWithoutFor at row %s)" % (name, rep["parse"]["kind"], rep["parse"]["row"], row), case)
        elif v[0] == "panic":
            r.fail("C12:e:%s:%s" % (name, panic_sig(rep["panic"])), "%s edit panics the checker: %s" % (name, rep["panic"].get("msg")), case)


RULE = ("(a) accepted programs of the whole-repertoire workload run under a monitor for Type mismatch (13) outside READ/INPUT/PRINT USING and for wrong-kind assertions; (b) every program of that "
        "workload (accepted or rejected) consistently renamed (first letters, suffixes and dots preserved); (c) typed generator programs with a string literal put, one at a time, into every expression "
        "position that requires a number (operands, parenthesised sub-expressions, call arguments, array subscripts, CASE expressions, FOR bounds, conditions, assignment sources), and edits with a "
        "known family (missing label, duplicate definition, NEXT for the wrong counter, wrong argument count, by-reference type); non-trivial = every renaming and every edit; distinct by text")


def main(tier, seed):
    params = {"n": 6000 if tier == "quick" else 60000, "bases": 1100 if tier == "quick" else 15000, "max_sites": 12 if tier == "quick" else 40}
    return driver.run_check(
        PID, shard, params, tier, seed,
        min_evaluations=15000 if tier == "quick" else 250000,
        rule=RULE,
        assumptions=["error families are coarse sets fixed in the oracle (type edits: TypeMismatch or ArgumentTypeMismatch; argument edits: ArgumentCountMismatch, ArgumentTypeMismatch, TypeMismatch, FunctionNeedsArguments)",
                     "a type edit in a block header is located by the row of that header line (ELSEIF / CASE / LOOP lines have their own rows)"],
    )


def replay(rec):
    driver.build()
    c = rec["case"]
    w = Worker()
    try:
        if c["part"] == "a":
            rep = w.run(c["src"], want=["files"] if c.get("files") else [], stdin=c.get("stdin", ""), files={} if c.get("files") else None, budget=60000)
            v = judge_soundness(c["src"], rep)
            bad = v is not None
            msg = v[1] if v else ""
        elif c["part"] == "b":
            v0 = verdict(w.run(c["src"], stop="lint"))
            v1 = verdict(w.run(c["rsrc"], stop="lint"))
            bad = v0 != v1
            msg = "verdict %s vs %s" % (v0, v1)
        else:
            rep = w.run(c["src"], stop="lint")
            v = verdict(rep)
            fam = set(c["family"])
            bad = v[0] == "accepted" or (v[0] == "lint_error" and (v[1] not in fam or (c.get("expected_row") and rep["lint"]["row"] != c["expected_row"]))) or v[0] == "panic"
            msg = "verdict %s %s" % (v, rep.get("lint"))
    finally:
        w.close()
    if bad:
        print("replay: " + msg)
        print("VIOLATION property=%s replay=(replayed)" % PID)
        return 1
    print("replay: case now passes")
    return 0
