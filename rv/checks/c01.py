"""C01 Running a core-language program yields exactly the prescribed output and outcome.

Oracle: history + executable model - the independent reference semantics (rv.ref) predicts stdout and the
outcome (ok | error code + row) of every generated program; plus determinism across worker processes."""
import random

from .. import driver
from ..driver import ShardResult, h64
from ..gen import Gen
from ..lang import emit_program
from ..ref import BasicError, Discard, Interp, StepLimit, match_segments
from ..worker import Worker, outcome
from .common import panic_sig

PID = "C01"


def make_case(seed, index, fractions=True):
    rng = random.Random("C01/%s/%d" % (seed, index))
    g = Gen(rng, max_depth=rng.choice([2, 3, 4, 5]), size=rng.choice([6, 10, 14, 20]), allow_fractions=fractions and rng.random() < 0.8)
    prog = g.program()
    src, spans = emit_program(prog["main"], eol="\n")
    return g, prog, src, spans


def predict(prog, spans):
    """Runs the reference. Returns (expected stdout, expected outcome) or raises Discard/StepLimit."""
    it = Interp(prog, max_steps=5000)
    res = it.execute()
    out = it.screen.text()
    if res[0] == "ok":
        return out, ("ok",), it
    code, sid = res[1], res[2]
    row = spans.get(sid, (None,))[0]
    if it.fail_any_row:
        row = None
    return out, ("error", code, row), it


def compare(exp_out, exp_oc, rep, segments=None):
    """Returns None if the observation matches the prediction, else (sigkind, text)."""
    oc = outcome(rep)
    if oc[0] == "panic":
        return (panic_sig(rep["panic"]), "panic: %s at %s:%s" % (rep["panic"].get("msg"), rep["panic"].get("file"), rep["panic"].get("line")))
    if oc[0] in ("parse_error", "lint_error"):
        e = rep.get("parse") if oc[0] == "parse_error" else rep.get("lint")
        return ("rejected:%s:%s" % (oc[0], oc[1]), "well-formed program rejected: %s at %s:%s" % (e["err"], e["row"], e["col"]))
    if oc[0] == "died":
        return ("died", "worker died %s" % (oc[1],))
    if oc[0] == "budget":
        return ("nontermination", "instruction budget exhausted although the reference terminates")
    if oc[0] not in ("ok", "error"):
        return ("INCONCLUSIVE", oc[0])
    got_out = rep["run"]["stdout"]
    if exp_oc[0] == "ok":
        if oc[0] != "ok":
            return ("unexpected_error:%s" % oc[1], "expected normal end, got error %s (%s) at %s" % (oc[1], oc[2], rep["run"]["result"].get("pos")))
    else:
        if oc[0] != "error":
            return ("missing_error:%s" % exp_oc[1], "expected error %s at row %s, program ended normally" % (exp_oc[1], exp_oc[2]))
        if oc[1] != exp_oc[1]:
            return ("wrong_error:%s->%s" % (exp_oc[1], oc[1]), "expected error %s at row %s, got error %s" % (exp_oc[1], exp_oc[2], oc[1]))
        pos = rep["run"]["result"].get("pos") or []
        if exp_oc[2] is not None and (not pos or pos[0][0] != exp_oc[2]):
            return ("wrong_error_row", "error %s expected at row %s, reported at %s" % (exp_oc[1], exp_oc[2], pos))
    if got_out != exp_out and segments is not None:
        m = match_segments(segments, got_out)
        if m is True:
            return None
        if m == "width":
            return ("INCONCLUSIVE", "number_width_differs")
    if got_out != exp_out:
        # locate the first difference
        i = 0
        while i < min(len(got_out), len(exp_out)) and got_out[i] == exp_out[i]:
            i += 1
        return ("wrong_output", "output differs at offset %d: expected %r got %r" % (i, exp_out[max(0, i - 20):i + 30], got_out[max(0, i - 20):i + 30]))
    return None


def run_case(w, w2, seed, index, r, fractions=True):
    g, prog, src, spans = make_case(seed, index, fractions)
    try:
        exp_out, exp_oc, it = predict(prog, spans)
    except Discard as d:
        r.discard(str(d))
        return
    except StepLimit:
        r.discard("reference_step_limit")
        return
    except RecursionError:
        r.discard("reference_recursion")
        return
    rep = w.run(src, budget=400000)
    v = compare(exp_out, exp_oc, rep, it.screen.segments)
    if v is not None and v[0] == "INCONCLUSIVE":
        r.inconc(v[1], {"seed": seed, "index": index})
        return
    r.evaluations += 1
    r.count(exp_oc[0] if exp_oc[0] == "ok" else "error_%s" % exp_oc[1], group="expected_outcomes")
    for kd in g.kinds:
        r.count(kd, group="block_kinds")
    for a, b in g.pairs:
        r.count("%s>%s" % (a, b), group="nesting_pairs")
    if g.kinds:
        r.nontrivial.add(h64(src))
    case = {"seed": seed, "index": index, "fractions": fractions, "src": src, "expected_stdout": exp_out, "expected_outcome": list(exp_oc)}
    if v is not None:
        r.fail("C01:" + v[0], v[1] + " | program:\n" + src[:600], case)
        return
    # determinism: the same program in a different worker process must give the same report
    if w2 is not None:
        rep2 = w2.run(src, budget=400000)
        r.count("determinism_pairs")
        if rep2.get("run") != rep.get("run"):
            r.fail("C01:nondeterministic", "two runs of the same program differ", case)
            return
    if len(r.samples) < 3 and g.kinds and len(src) < 900:
        r.sample({"src": src, "expected_stdout": exp_out, "expected_outcome": list(exp_oc), "observed_stdout": rep["run"]["stdout"], "steps": rep["run"]["steps"]})


def shard(ctx):
    r = ShardResult()
    w = Worker()
    w2 = Worker()
    n = ctx.params["n"]
    for index in ctx.indices(n):
        run_case(w, w2 if index % 4 == 0 else None, ctx.seed, index, r)
    w.close()
    w2.close()
    return r


RULE = ("random typed programs over the core grammar (expressions over the five types and all operators, assignment with conversion, "
        "PRINT with ; and , DATA/READ, IF/ELSEIF/ELSE, single-line IF, SELECT CASE, FOR with no/positive/negative/run-time STEP, WHILE, DO in "
        "four forms, nesting up to depth 5); each is executed by the real pipeline and compared byte for byte (stdout) and by outcome "
        "(ok | error code + row) with the reference semantics; non-trivial = the program contains at least one block construct; distinct by program text; "
        "cases outside the exact numeric domain are discarded and counted")


def main(tier, seed):
    params = {"n": 14000 if tier == "quick" else 300000}
    return driver.run_check(
        PID, shard, params, tier, seed,
        min_evaluations=5000 if tier == "quick" else 100000,
        rule=RULE, witness_fn=driver.program_witness,
        assumptions=["the reference semantics in rv/ref.py is the prescription; it has no opinion outside the exact domain (DESIGN.md 1.2)",
                     "error columns are C11's business; only code and row are compared here"],
    )


def replay(rec):
    driver.build()
    c = rec["case"]
    r = ShardResult()
    w = Worker()
    run_case(w, None, c["seed"], c["index"], r, c.get("fractions", True))
    w.close()
    if r.failures:
        print("replay: " + r.failures[0]["what"][:2000])
        print("VIOLATION property=%s replay=(replayed)" % PID)
        return 1
    print("replay: case now passes (evaluations=%d discards=%s)" % (r.evaluations, r.discards))
    return 0
