"""C14 A CONST has the value and type its expression would have at run time.

Oracle: metamorphic between the two evaluators of the implementation. Program A declares CONST c = e and
uses c; program B uses (e) instead (converted to c's suffix type when c has one). Accepted constants must
give the same output, outcome and run-time type; a constant rejected for overflow / division by zero must
raise exactly that error when e is evaluated at run time, and vice versa."""
import random

from .. import driver
from ..driver import ShardResult, h64
from ..worker import Worker, outcome

PID = "C14"
SUFFIX_OF_TAG = {"%": "%", "&": "&", "!": "!", "#": "#", "$": "$"}


class CGen:
    def __init__(self, rng):
        self.r = rng
        self.consts = []   # (name as declared, kind, reference spellings)

    def num_lit(self):
        r = self.r
        k = r.random()
        if k < 0.45:
            return str(r.choice([0, 1, 2, 3, 5, 7, 10, 100, 255, 256, 16384, 32766, 32767, -1, -2, -32767, r.randrange(-50, 50)]))
        if k < 0.6:
            return str(r.choice([32768, 65535, 65536, 100000, 2147483646, 2147483647, -32769, -65536, 1073741824]))
        if k < 0.85:
            return r.choice(["0.5", "1.5", "2.5", "0.25", "3.75", "100.125", "-0.5", "16384.5"])
        return r.choice(["0.5#", "2.25#", "1000000.5#", "-3.125#", "3000000000", "4294967296"])

    def str_lit(self):
        return '"' + self.r.choice(["", "a", "B", "ab", "Hello", "zz", " x", "10"]) + '"'

    def num(self, depth):
        r = self.r
        x = r.random()
        if depth <= 0 or x < 0.3:
            if self.consts and r.random() < 0.3:
                cands = [c for c in self.consts if c[1] == "num"]
                if cands:
                    return r.choice(r.choice(cands)[2])
            return self.num_lit()
        if x < 0.65:
            op = r.choice(["+", "-", "*", "/", "+", "-", "*", "MOD"])
            return "%s %s %s" % (self.num(depth - 1), op, self.num(depth - 1))
        if x < 0.72:
            return "(%s)" % self.num(depth - 1)
        if x < 0.78:
            return "-(%s)" % self.num(depth - 1)
        if x < 0.84:
            return "NOT %s" % self.atom(depth - 1)
        if x < 0.92:
            return self.cmp(depth - 1)
        return "%s %s %s" % (self.atom(depth - 1), r.choice(["AND", "OR"]), self.atom(depth - 1))

    def atom(self, depth):
        if self.r.random() < 0.5:
            return str(self.r.choice([0, 1, -1, 2, 3, 255, 32767, -32768 + 1]))
        return "(%s)" % self.num(depth)

    def cmp(self, depth):
        r = self.r
        op = r.choice(["=", "<>", "<", "<=", ">", ">="])
        if r.random() < 0.08:
            # two floating literals of one type that are almost equal: whatever the comparison says, it says the same in a CONST
            a, b = r.choice([("0.5", "0.500001"), ("1.000001", "1.0"), ("2.25#", "2.2500001#"), ("100.125", "100.125001"), ("0.000001", "0.0"), ("-0.75#", "-0.7500001#"),
                             ("3.5", "3.5"), ("1.00001", "1.0"), ("0.00002#", "0.00001#")])
            if r.random() < 0.5:
                a, b = b, a
            return "%s %s %s" % (a, op, b)
        if r.random() < 0.25:
            return "%s %s %s" % (self.s(depth), op, self.s(depth))
        return "(%s) %s (%s)" % (self.num(depth), op, self.num(depth))

    def s(self, depth):
        r = self.r
        if depth <= 0 or r.random() < 0.5:
            if self.consts and r.random() < 0.3:
                cands = [c for c in self.consts if c[1] == "str"]
                if cands:
                    return r.choice(r.choice(cands)[2])
            return self.str_lit()
        return "%s + %s" % (self.s(depth - 1), self.s(depth - 1))


def long_string_case(rng):
    """A string constant of 32766 or 32767 characters (the longest a string can be) built from a doubling chain of constants."""
    chain = ['CONST S0$ = "%s"' % rng.choice(["x", "a"])]
    for i in range(1, 15):
        chain.append("CONST S%d$ = S%d$ + S%d$" % (i, i - 1, i - 1))
    parts = ["S%d$" % i for i in range(14, -1, -1)]         # 16384 + ... + 1 = 32767
    if rng.random() < 0.5:
        parts = parts[:-1] + ['"' + rng.choice(["", "y"]) + '"']    # 32766 or 32767
    e = " + ".join(parts)
    where = rng.choice(["global", "inside_sub"])
    uses_a = ["PRINT LEN(K$)", "PRINT RIGHT$(K$, 3)"]
    uses_b = ["PRINT LEN((%s))" % e, "PRINT RIGHT$((%s), 3)" % e]
    if where == "global":
        a = chain + ["CONST K$ = " + e] + uses_a
        b = chain + uses_b
    else:
        a = chain + ["Show", "SUB Show", "  CONST K$ = " + e] + ["  " + u for u in uses_a] + ["END SUB"]
        b = chain + ["Show", "SUB Show"] + ["  " + u for u in uses_b] + ["END SUB"]
    return {"A": "\n".join(a) + "\n", "B": "\n".join(b) + "\n", "expr": e, "name": "K$", "where": "longest_string_" + where, "suffix": "$", "kind": "str"}


def make_case(rng):
    """Returns dict(A=program with CONST, B=program with inlined expression, expr, name, where)."""
    if rng.random() < 0.004:
        return long_string_case(rng)
    g = CGen(rng)
    pre_a, pre_b = [], []
    # earlier constants (simple ones, both programs declare them identically so that only c differs)
    for i in range(rng.choice([0, 0, 1, 2])):
        kind = rng.choice(["num", "num", "str"])
        e = g.num(1) if kind == "num" else g.s(1)
        nm = "P%d" % i
        if kind == "str" and rng.random() < 0.5:
            nm += "$"
        line = "CONST %s = %s" % (nm, e)
        pre_a.append(line)
        pre_b.append(line)
        spell = [nm]
        g.consts.append((nm, kind, spell))
    kind = rng.choice(["num", "num", "num", "str"])
    depth = rng.choice([1, 2, 3, 4])
    e = g.num(depth) if kind == "num" else g.s(min(depth, 2))
    suffix = ""
    if kind == "num" and rng.random() < 0.45:
        suffix = rng.choice(["%", "&", "!", "#"])
    if kind == "str" and rng.random() < 0.5:
        suffix = "$"
    name = "K" + suffix
    where = rng.choice(["global", "global", "sub_uses_global", "inside_sub"])
    use = name
    uses_a = ["PRINT %s" % use]
    if suffix and kind == "num":
        # e converted to the suffix type: through a variable of that type
        uses_b = ["V%s = (%s)" % (suffix, e), "PRINT V%s" % suffix]
    else:
        uses_b = ["PRINT (%s)" % e]
    # a second use inside an expression
    if kind == "num":
        uses_a.append("PRINT %s + 1" % use if rng.random() < 0.5 else "IF %s > 0 THEN PRINT \"pos\" ELSE PRINT \"notpos\"" % use)
        inl = ("V%s" % suffix) if (suffix and kind == "num") else "(%s)" % e
        uses_b.append(uses_a[-1].replace(use, inl, 1))
    else:
        uses_a.append("PRINT %s + \"!\"" % use)
        uses_b.append("PRINT (%s) + \"!\"" % e)
    decl = "CONST %s = %s" % (name, e)
    if where == "inside_sub" and pre_a and rng.random() < 0.5:
        # the SUB redefines an earlier global constant with another value; K's expression may refer to it,
        # and then means the local one
        shadow = pre_a[rng.randrange(len(pre_a))].split(" = ")[0].split(" ", 1)[1]
        sk = "str" if shadow.endswith("$") or any(c[0] == shadow and c[1] == "str" for c in g.consts) else "num"
        new_val = g.str_lit() if sk == "str" else g.num_lit()
        local = "  CONST %s = %s" % (shadow, new_val)
        a = pre_a + ["Show", "SUB Show", local, "  " + decl] + ["  " + u for u in uses_a] + ["END SUB"]
        b = pre_b + ["Show", "SUB Show", local] + ["  " + u for u in uses_b] + ["END SUB"]
        return {"A": "\n".join(a) + "\n", "B": "\n".join(b) + "\n", "expr": e, "name": name, "where": "inside_sub_shadowing", "suffix": suffix, "kind": kind}
    num_bare = [c[0] for c in g.consts if c[1] == "num" and not c[0].endswith("$")]
    if where == "inside_sub" and kind == "num" and num_bare and rng.random() < 0.4:
        # a parameter of the SUB has the name of a global constant: inside the SUB the name means the parameter, so an
        # expression that uses it is not constant (rejected), or else it must mean the same in both programs
        shadow = rng.choice(num_bare)
        e2 = "%s %s (%s)" % (shadow, rng.choice(["+", "-", "*"]), e) if rng.random() < 0.7 else "(%s) + %s" % (e, shadow)
        decl2 = "CONST %s = %s" % (name, e2)
        uses_b2 = [u.replace("(%s)" % e, "(%s)" % e2) for u in uses_b]
        arg = rng.choice(["5", "-3", "1000", "0.5"])
        a = pre_a + ["Show " + arg, "SUB Show (%s)" % shadow, "  " + decl2] + ["  " + u for u in uses_a] + ["END SUB"]
        b = pre_b + ["Show " + arg, "SUB Show (%s)" % shadow] + ["  " + u for u in uses_b2] + ["END SUB"]
        return {"A": "\n".join(a) + "\n", "B": "\n".join(b) + "\n", "expr": e2, "name": name, "where": "inside_sub_param_hides_const", "suffix": suffix, "kind": kind}
    if where == "global":
        a = pre_a + [decl] + uses_a
        b = pre_b + uses_b
    elif where == "sub_uses_global":
        a = pre_a + [decl, "Show", "SUB Show"] + ["  " + u for u in uses_a] + ["END SUB"]
        b = pre_b + ["Show", "SUB Show"] + ["  " + u for u in uses_b] + ["END SUB"]
    else:
        a = pre_a + ["Show", "SUB Show", "  " + decl] + ["  " + u for u in uses_a] + ["END SUB"]
        b = pre_b + ["Show", "SUB Show"] + ["  " + u for u in uses_b] + ["END SUB"]
    return {"A": "\n".join(a) + "\n", "B": "\n".join(b) + "\n", "expr": e, "name": name, "where": where, "suffix": suffix, "kind": kind}


def first_print_tag(rep):
    for ev in (rep.get("mon") or {}).get("atags", []):
        if ev[0] == "print":
            return ev[1]
    return None


def judge(case, ra, rb):
    oa, ob = outcome(ra), outcome(rb)
    for o in (oa, ob):
        if o[0] in ("watchdog", "harness_error", "died", "budget"):
            return ("INCONCLUSIVE", o[0])
        if o[0] == "panic":
            return ("panic", "panic: %s / %s" % (ra.get("panic"), rb.get("panic")))
    if ob[0] in ("parse_error", "lint_error"):
        # the inlined program itself is not accepted: the expression is not well-formed, nothing to compare
        return ("DISCARD", "inlined_form_rejected:" + str(ob[1]))
    if oa[0] == "parse_error":
        return ("DISCARD", "const_form_parse_error")
    if oa[0] == "lint_error":
        kind = oa[1]
        if case["where"] == "inside_sub_param_hides_const" and kind == "InvalidConstant":
            # the expression names a parameter: it is not a constant expression
            return None
        if kind == "Overflow":
            if not (ob[0] == "error" and ob[1] == 6):
                return ("rejected_overflow_but_runtime:%s" % (ob[1] if ob[0] == "error" else "ok"),
                        "CONST rejected with Overflow, but evaluating the expression at run time gives %s %r" % (ob, (rb.get("run") or {}).get("stdout")))
            return None
        if kind == "DivisionByZero":
            if not (ob[0] == "error" and ob[1] == 11):
                return ("rejected_div0_but_runtime:%s" % (ob[1] if ob[0] == "error" else "ok"),
                        "CONST rejected with DivisionByZero, but evaluating the expression at run time gives %s" % (ob,))
            return None
        if ob[0] == "ok":
            # the expression evaluates normally at run time, so the constant must exist and have that value
            return ("rejected_%s_but_runtime_ok" % kind, "CONST rejected with %s, but the same expression evaluates at run time to %r" % (kind, (rb.get("run") or {}).get("stdout")))
        return ("OTHER_REJECTION", kind)
    # accepted
    if ob[0] == "error" and ob[1] in (6, 11) and oa != ob:
        return ("accepted_but_runtime_error:%s" % ob[1], "CONST accepted (program A: %s) but evaluating the expression at run time raises %s" % (oa, ob))
    if oa != ob and not (oa[0] == "error" and ob[0] == "error" and oa[1] == ob[1]):
        return ("outcome", "outcomes differ: CONST form %s, inlined form %s" % (oa, ob))
    sa, sb = (ra.get("run") or {}).get("stdout"), (rb.get("run") or {}).get("stdout")
    if sa != sb:
        return ("output", "CONST form prints %r, inlined form prints %r" % (sa, sb))
    ta, tb = first_print_tag(ra), first_print_tag(rb)
    if ta is not None and tb is not None and ta != tb:
        return ("type:%s_vs_%s" % (ta, tb), "the constant has run-time type %s, its expression %s" % (ta, tb))
    return None


def shard(ctx):
    r = ShardResult()
    rng = ctx.rng
    w = Worker()
    n = ctx.params["n"] // ctx.n
    for _ in range(n):
        c = make_case(rng)
        ra = w.run(c["A"], want=["atag"])
        rb = w.run(c["B"], want=["atag"])
        v = judge(c, ra, rb)
        if v is not None and v[0] == "INCONCLUSIVE":
            r.inconc(v[1])
            continue
        if v is not None and v[0] == "DISCARD":
            r.discard(v[1])
            continue
        if v is not None and v[0] == "OTHER_REJECTION":
            r.count(v[1], group="rejected_with_other_error_not_judged")
            if len(r.stats.setdefault("other_rejection_examples", [])) < 5:
                r.stats["other_rejection_examples"].append({"expr": c["expr"], "error": v[1]})
            continue
        r.evaluations += 1
        oa = outcome(ra)
        r.count("accepted" if oa[0] not in ("lint_error",) else "rejected_" + oa[1], group="const_verdicts")
        r.count(c["where"], group="where")
        r.count(c["suffix"] or "bare", group="const_suffix")
        if any(op in c["expr"] for op in ("+", "-", "*", "/", "MOD", "AND", "OR", "=", "<", ">")):
            r.nontrivial.add(h64(c["A"]))
        if v is not None:
            r.fail("C14:" + v[0], "CONST %s = %s (%s): %s" % (c["name"], c["expr"], c["where"], v[1]), c)
        elif len(r.samples) < 3 and rng.random() < 0.01:
            r.sample({"A": c["A"], "B": c["B"], "outcome": list(oa), "stdout": (ra.get("run") or {}).get("stdout"), "run_time_tag": first_print_tag(ra)})
    w.close()
    return r


RULE = ("constant expressions over literals of all five types (values at and around the type boundaries, zero divisors) and earlier constants, all operators incl. string + and comparisons, "
        "depth <= 4, declared at global level, used inside a SUB, or declared inside a SUB, the constant bare or with each suffix; program A (CONST form) and program B (every use replaced by "
        "the parenthesised expression, converted through a variable of the suffix type when the constant has a suffix) are run by the real code and compared (stdout, outcome, run-time tag of "
        "the printed value); rejections for Overflow / DivisionByZero are compared with the run-time outcome of the expression; non-trivial = the expression contains an operator; distinct by program text")


def main(tier, seed):
    params = {"n": 30000 if tier == "quick" else 500000}
    return driver.run_check(
        PID, shard, params, tier, seed,
        min_evaluations=12000 if tier == "quick" else 250000,
        rule=RULE,
        assumptions=["a constant expression rejected with an error other than Overflow / DivisionByZero is a violation when the same expression evaluates normally at run time; when the run-time evaluation fails too it is counted and listed, not judged",
                     "the run-time type is observed as the variant tag of register A at PrintValueFromA (hook H1)"],
    )


def replay(rec):
    driver.build()
    c = rec["case"]
    w = Worker()
    ra = w.run(c["A"], want=["atag"])
    rb = w.run(c["B"], want=["atag"])
    w.close()
    v = judge(c, ra, rb)
    if v is None or v[0] in ("INCONCLUSIVE", "DISCARD", "OTHER_REJECTION"):
        print("replay: case now passes (%s)" % (v,))
        return 0
    print("replay: " + v[1])
    print("VIOLATION property=%s replay=(replayed)" % PID)
    return 1
