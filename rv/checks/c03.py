"""C03 Calls: by-reference arguments, fresh locals, results, STATIC and SHARED state.

Oracle: (1) the reference call semantics (rv.ref: copy-in/copy-out by-reference for variables and array
elements, by-value with conversion otherwise, fresh locals per activation, function result = last value
assigned, STATIC memory per subprogram, DIM SHARED, CONST) predicts the printed trace and the outcome;
(2) context invariants walked by the hook at every statement boundary and at the end of the run;
(3) the typed dump of the global memory block at the end of the run is compared with the reference store."""
import random
from fractions import Fraction

from .. import driver
from ..driver import ShardResult, h64
from ..gen import GenCalls, emit_with_procs
from ..ref import Discard, Interp, StepLimit, match_segments
from ..worker import Worker, outcome
from .c01 import compare
from .common import panic_sig

PID = "C03"


def make_case(seed, index):
    rng = random.Random("C03/%s/%d" % (seed, index))
    g = GenCalls(rng, max_depth=rng.choice([2, 3, 4]), size=rng.choice([4, 6, 9]), allow_fractions=rng.random() < 0.7, errors=0.1)
    prog = g.program()
    src, spans = emit_with_procs(prog)
    return g, prog, src, spans


def compare_globals(it, rep):
    """Compares the scalar variables of the global block with the reference store."""
    v = rep.get("vars")
    if not v or not v.get("blocks"):
        return None
    got = {}
    for name, q, val in v["blocks"][0]["vars"]:
        if q is None:
            continue
        got[name.upper()] = val
    for name, (t, x) in it.globals.vars.items():
        if name not in got:
            # a variable that was only read never exists in the real store: it must then be zero / empty
            if (t == "$" and x == "") or (t != "$" and x == 0):
                continue
            return ("missing_global", "global %s should hold %r but does not exist" % (name, x))
        tag, val = got[name][0], got[name][1]
        if tag != t:
            return ("global_tag", "global %s has run-time type %s, declared %s" % (name, tag, t))
        if t == "$":
            if val != x:
                return ("global_value", "global %s holds %r, reference says %r" % (name, val, x))
        else:
            if isinstance(val, str) or Fraction(val) != Fraction(x):
                return ("global_value", "global %s holds %r, reference says %s" % (name, val, x))
    return None


def run_case(w, seed, index, r):
    g, prog, src, spans = make_case(seed, index)
    try:
        it = Interp(prog, max_steps=6000)
        res = it.execute()
    except Discard as d:
        r.discard(str(d))
        return
    except StepLimit:
        r.discard("reference_step_limit")
        return
    except RecursionError:
        r.discard("reference_recursion")
        return
    exp_out = it.screen.text()
    if res[0] == "ok":
        exp_oc = ("ok",)
    else:
        row = spans.get(res[2], (None,))[0]
        exp_oc = ("error", res[1], None if it.fail_any_row else row)
    rep = w.run(src, want=["c03", "vars"], budget=600000)
    v = compare(exp_out, exp_oc, rep, it.screen.segments)
    if v is not None and v[0] == "INCONCLUSIVE":
        r.inconc(v[1])
        return
    r.evaluations += 1
    m = rep.get("mon") or {}
    r.count("context_invariant_walks", m.get("c03_walks", 0))
    r.count("reference_calls", it.trace_calls)
    r.count("max_call_depth_%d" % min(it.max_depth, 6), group="call_depth")
    n_static = sum(1 for p in prog["procs"] if p["static"])
    r.count("programs_with_static_procs", 1 if n_static else 0)
    if it.trace_calls >= 2:
        r.nontrivial.add(h64(src))
    case = {"seed": seed, "index": index, "src": src, "expected_stdout": exp_out, "expected_outcome": list(exp_oc)}
    if v is None and m.get("c03"):
        v = ("context_invariant", m["c03"][0])
    if v is None and exp_oc[0] == "ok":
        v = compare_globals(it, rep)
    if v is not None:
        r.fail("C03:" + v[0], v[1] + " | program:\n" + src[:1200], case)
    elif len(r.samples) < 3 and it.trace_calls >= 3 and len(src) < 1200:
        r.sample({"src": src, "expected_stdout": exp_out, "calls": it.trace_calls, "max_states": m.get("max_states"), "max_blocks": m.get("max_blocks")})


def shard(ctx):
    r = ShardResult()
    w = Worker()
    for index in ctx.indices(ctx.params["n"]):
        run_case(w, ctx.seed, index, r)
    w.close()
    return r


RULE = ("random call graphs: 1-5 subprograms (SUB/FUNCTION, a third STATIC), calls nested in argument lists, every argument shape (variable, array element, parenthesised variable, "
        "expression, literal) x parameter type, aliasing (same variable passed twice), histories of up to 10 extra calls interleaving STATIC and ordinary subprograms from the main module and "
        "from inside other subprograms, DIM SHARED variables and CONSTs used inside subprograms; compared with the reference call semantics (stdout, outcome, end-of-run globals) and "
        "walked by the context-invariant monitor at every statement boundary; non-trivial = at least two calls executed; distinct by program text")


def main(tier, seed):
    params = {"n": 12000 if tier == "quick" else 300000}
    return driver.run_check(
        PID, shard, params, tier, seed,
        min_evaluations=4000 if tier == "quick" else 100000,
        rule=RULE, witness_fn=driver.program_witness,
        assumptions=["by-reference passing is judged as copy-in/copy-out with write-back left to right after return, as the property states",
                     "by-reference arguments whose subscript has side effects (KF-C03-2) and REDIM of shared arrays inside subprograms (KF-C03-1) are pinned known findings and not generated"],
    )


def replay(rec):
    driver.build()
    c = rec["case"]
    r = ShardResult()
    w = Worker()
    run_case(w, c["seed"], c["index"], r)
    w.close()
    if r.failures:
        print("replay: " + r.failures[0]["what"][:2500])
        print("VIOLATION property=%s replay=(replayed)" % PID)
        return 1
    print("replay: case now passes")
    return 0
