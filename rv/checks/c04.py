"""C04 Arrays, records and fixed-length strings change only where they are written.

Oracle: a shadow model keyed by (variable, index tuple, field path) holding the values converted to the
slot type. Two observation routes: the program prints read-backs (predicted by the model), and at the end
of the run the hook dumps EVERY element of every array and record, which is compared in full with the
shadow model (this shows that nothing else changed and that distinct index tuples are distinct elements)."""
import itertools
import random
from fractions import Fraction

from .. import driver
from ..driver import ShardResult, h64
from ..lang import fmt_fraction
from ..ref import BasicError, Discard, convert, match_segments
from ..worker import Worker, outcome

PID = "C04"
TNAME = {"%": "INTEGER", "&": "LONG", "!": "SINGLE", "#": "DOUBLE", "$": "STRING"}


def default(t):
    if t[0] == "fixed":
        return " " * t[1]
    if t == "$":
        return ""
    if t in "%&":
        return 0
    return Fraction(0)


def conv(t, val):
    """val: (type, value). Converts to slot type t ('%', ..., '$', ('fixed', n))."""
    if isinstance(t, tuple):
        if val[0] != "$":
            raise Discard("type")
        s = val[1][:t[1]]
        return s + " " * (t[1] - len(s))
    return convert(val, t)[1]


def lit(val):
    t, v = val
    if t == "$":
        return '"' + v + '"'
    if t in "%&":
        return str(v)
    s = fmt_fraction(v)
    return s if t == "!" else s + "#"


def rand_value(rng, t):
    """A value (type, v) assignable to a slot of type t; sometimes of another numeric type."""
    if t == "$" or isinstance(t, tuple):
        # a few values carry characters above 127 (one character, two bytes in the interpreter's strings)
        alphabet = "abcXYZ 12" if rng.random() < 0.8 else "ab \u00e9\u00c8\u00ff1"
        return ("$", "".join(rng.choice(alphabet) for _ in range(rng.choice([0, 1, 2, 3, 5, 8]))))
    src = rng.choice([t, t, "%", "!", "&"])
    if src == "%":
        return ("%", rng.randrange(-999, 1000))
    if src == "&":
        return ("&", rng.choice([rng.randrange(-99999, 100000), 32768, -40000]))
    v = Fraction(rng.randrange(-4000, 4000), rng.choice([4, 8]))
    if v.denominator == 1:
        v += Fraction(1, 4)
    return (src, v)


class Model:
    def __init__(self):
        self.arrays = {}      # name -> (elem type or record type name, dims, dict idx -> value or record dict)
        self.scalars = {}     # fixed strings / records at top level: name -> value
        self.types = {}       # record type name -> [(field, type)]
        self.lines = []
        self.expected = []    # segments of expected output
        self.error = None

    def new_record(self, tn):
        out = {}
        for f, ft in self.types[tn]:
            out[f] = self.new_record(ft[1]) if isinstance(ft, tuple) and ft[0] == "rec" else default(ft)
        return out


def flat_index(dims, idx):
    k = 0
    for (lb, ub), i in zip(dims, idx):
        k = k * (ub - lb + 1) + (i - lb)
    return k


def all_indices(dims):
    return list(itertools.product(*[range(lb, ub + 1) for lb, ub in dims]))


def gen_program(rng, exhaustive_shape=None):
    """Returns (source, expected stdout segments, expected outcome, model) for a straight-line program."""
    m = Model()
    L = m.lines
    L += ["TYPE Inner", "  X AS INTEGER", "  T AS STRING * 2", "END TYPE",
          "TYPE Rec", "  N AS INTEGER", "  F AS STRING * 3", "  I AS Inner", "  D AS DOUBLE", "  L AS LONG", "END TYPE"]
    m.types["Inner"] = [("X", "%"), ("T", ("fixed", 2))]
    m.types["Rec"] = [("N", "%"), ("F", ("fixed", 3)), ("I", ("rec", "Inner")), ("D", "#"), ("L", "&")]
    segs = []
    names = []
    if exhaustive_shape is not None:
        shapes = [exhaustive_shape]
    else:
        shapes = []
        for _ in range(rng.choice([1, 2, 3])):
            nd = rng.choice([1, 1, 2, 2, 3])
            dims = []
            for _ in range(nd):
                lb = rng.choice([0, 1, -5, -2, 3])
                ub = lb + rng.choice([0, 1, 2, 3])
                dims.append((lb, ub))
            et = rng.choice(["%", "&", "!", "#", "$", ("fixed", rng.randrange(1, 7)), ("rec", "Rec")])
            shapes.append((dims, et))
    dynamic = set()
    for k, (dims, et) in enumerate(shapes):
        kw = "DIM"
        if exhaustive_shape is None and rng.random() < 0.3:
            kw = "REDIM"
        if isinstance(et, tuple) and et[0] == "rec":
            name = "RA%d" % k
            L.append(kw + " %s(%s) AS Rec" % (name, ", ".join("%d TO %d" % d for d in dims)))
            m.arrays[name] = (et, dims, {ix: m.new_record("Rec") for ix in all_indices(dims)})
        elif isinstance(et, tuple):
            name = "FS%d" % k
            L.append(kw + " %s(%s) AS STRING * %d" % (name, ", ".join("%d TO %d" % d for d in dims), et[1]))
            m.arrays[name] = (et, dims, {ix: default(et) for ix in all_indices(dims)})
        else:
            name = "AR%d%s" % (k, et)
            decl = ", ".join(("%d TO %d" % d) if (d[0] != 0 or rng.random() < 0.5) else str(d[1]) for d in dims)
            L.append(kw + " %s(%s)" % (name, decl))
            m.arrays[name] = (et, dims, {ix: default(et) for ix in all_indices(dims)})
        names.append(name)
        if kw == "REDIM":
            dynamic.add(name)
    L.append("DIM R1 AS Rec")
    L.append("DIM R2 AS Rec")
    L.append("DIM FX AS STRING * 4")
    m.scalars["R1"] = m.new_record("Rec")
    m.scalars["R2"] = m.new_record("Rec")
    m.scalars["FX"] = " " * 4
    uses_helper = False

    def emit_print(text_expr, val, t):
        L.append("PRINT " + text_expr)
        if t == "$" or isinstance(t, tuple):
            segs.append(("s", val + "\r\n"))
        else:
            body = (str(abs(val)) if isinstance(val, int) or Fraction(val).denominator == 1 else fmt_fraction(abs(Fraction(val))))
            if not isinstance(val, int) and Fraction(val).denominator == 1:
                body = str(abs(int(val)))
            segs.append(("n", t, val, ("-" if val < 0 else " ") + body + " "))
            segs.append(("s", "\r\n"))

    def idx_text(ix):
        parts = []
        for d, i in enumerate(ix):
            x = rng.random()
            if x < 0.7:
                parts.append(str(i))
            elif x < 0.8:
                parts.append("(%d + 2)" % (i - 2))
            elif x < 0.9:
                L.append("IXL%d& = %d" % (d, i))
                parts.append("IXL%d&" % d)
            else:
                parts.append(fmt_fraction(Fraction(i) + Fraction(1, 4)))
        return ", ".join(parts)

    ops = []
    helpers = set()
    if exhaustive_shape is not None:
        L.append("ON ERROR GOTO Handler")
        name = names[0]
        et, dims, store = m.arrays[name]
        # write a unique value into every element, then read all back
        n = 0
        for ix in all_indices(dims):
            n += 1
            if isinstance(et, tuple) and et[0] == "rec":
                ops.append(("write_field", name, ix, "N", ("%", n)))
                ops.append(("write_field", name, ix, "I.T", ("$", "%02d" % n)))
            else:
                ops.append(("write", name, ix, ("%", n) if not (et == "$" or isinstance(et, tuple)) else ("$", "v%d" % n)))
        for ix in all_indices(dims):
            ops.append(("read", name, ix))
        ops.append(("sweep", name))
        ops.append(("bounds", name))
    else:
        for _ in range(rng.randrange(8, 40)):
            x = rng.random()
            name = rng.choice(names)
            et, dims, store = m.arrays[name]
            ix = tuple(rng.randrange(lb, ub + 1) for lb, ub in dims)
            if x < 0.4:
                if isinstance(et, tuple) and et[0] == "rec":
                    f = rng.choice(["N", "F", "I.X", "I.T", "D", "L"])
                    ops.append(("write_field", name, ix, f, None))
                else:
                    ops.append(("write", name, ix, rand_value(rng, et)))
            elif x < 0.65:
                ops.append(("read", name, ix))
            elif x < 0.72:
                ops.append(("bounds", name))
            elif x < 0.735 and et in ("%", "&", "!", "#", "$"):
                # the whole array goes to a procedure as a parameter: elements are written and read there
                ops.append((rng.choice(["write_param", "read_param", "bounds_param"]), name, ix, rand_value(rng, et)))
            elif x < 0.76:
                ops.append(("fixed_to_fixed", name, ix))
            elif x < 0.8:
                ops.append(("fixed_direct",))
            elif x < 0.88:
                ops.append(("fixed_byref", name, ix))
            elif x < 0.93:
                ops.append(("record_copy",))
            elif x < 0.955 and name in dynamic:
                ops.append(("redim", name))
            elif x < 0.97:
                ops.append(("scalar_field", rng.choice(["N", "F", "I.X", "I.T", "D", "L"])))
            else:
                bad = list(ix)
                d = rng.randrange(len(dims))
                bad[d] = rng.choice([dims[d][0] - 1, dims[d][1] + 1])
                ops.append(("oob", name, tuple(bad), rng.choice(["read", "write"])))
    ftype = {"N": "%", "F": ("fixed", 3), "I.X": "%", "I.T": ("fixed", 2), "D": "#", "L": "&"}

    def rec_get(rec, f):
        for p in f.split(".")[:-1]:
            rec = rec[p]
        return rec, f.split(".")[-1]

    for op in ops:
        if m.error:
            break
        k = op[0]
        if k in ("write", "write_field", "read", "fixed_byref", "fixed_to_fixed", "write_param", "read_param", "bounds_param"):
            cur = m.arrays[op[1]][1]
            if not all(lb <= i <= ub for i, (lb, ub) in zip(op[2], cur)):
                op = op[:2] + (tuple(rng.randrange(lb, ub + 1) for lb, ub in cur),) + op[3:]
        elif k == "oob":
            cur = m.arrays[op[1]][1]
            bad = [rng.randrange(lb, ub + 1) for lb, ub in cur]
            d = rng.randrange(len(cur))
            bad[d] = rng.choice([cur[d][0] - 1, cur[d][1] + 1])
            op = op[:2] + (tuple(bad),) + op[3:]
        try:
            if k == "write":
                _, name, ix, val = op
                et, dims, store = m.arrays[name]
                L.append("%s(%s) = %s" % (name, idx_text(ix), lit(val)))
                store[ix] = conv(et, val)
            elif k == "write_field":
                _, name, ix, f, val = op
                et, dims, store = m.arrays[name]
                val = val or rand_value(rng, ftype[f])
                # a fixed-length string field may be spelled with the $ qualifier: it stays a STRING * n slot
                fq = "$" if isinstance(ftype[f], tuple) and rng.random() < 0.3 else ""
                L.append("%s(%s).%s%s = %s" % (name, idx_text(ix), f, fq, lit(val)))
                rec, leaf = rec_get(store[ix], f)
                rec[leaf] = conv(ftype[f], val)
            elif k == "read":
                _, name, ix = op
                et, dims, store = m.arrays[name]
                if isinstance(et, tuple) and et[0] == "rec":
                    f = rng.choice(list(ftype))
                    rec, leaf = rec_get(store[ix], f)
                    emit_print("%s(%s).%s" % (name, idx_text(ix), f), rec[leaf], ftype[f])
                else:
                    emit_print("%s(%s)" % (name, idx_text(ix)), store[ix], et)
            elif k in ("write_param", "read_param", "bounds_param"):
                _, name, ix, val = op
                et, dims, store = m.arrays[name]
                base = name.rstrip("%&!#$")
                helpers.add((base, et, len(dims)))
                args = ", ".join(str(i) for i in ix)
                if k == "write_param":
                    L.append("Put%s %s(), %s, %s" % (base, name, args, lit(val)))
                    store[ix] = conv(et, val)
                elif k == "read_param":
                    emit_print("Get%s%s(%s(), %s)" % (base, et, name, args), store[ix], et)
                else:
                    L.append("Bnd%s %s()" % (base, name))
                    txt = ""
                    for lb, ub in dims:
                        txt += ("%s%d " % ("-" if lb < 0 else " ", abs(lb))) + ("%s%d " % ("-" if ub < 0 else " ", abs(ub)))
                    segs.append(("s", txt + "\r\n"))
            elif k == "bounds":
                _, name = op
                et, dims, store = m.arrays[name]
                d = rng.randrange(len(dims))
                if len(dims) == 1 and rng.random() < 0.5:
                    L.append("PRINT LBOUND(%s); UBOUND(%s)" % (name, name))
                else:
                    L.append("PRINT LBOUND(%s, %d); UBOUND(%s, %d)" % (name, d + 1, name, d + 1))
                lb, ub = dims[d] if not (len(dims) == 1) else dims[0]
                segs.append(("s", ("%s%d " % ("-" if lb < 0 else " ", abs(lb))) + ("%s%d " % ("-" if ub < 0 else " ", abs(ub))) + "\r\n"))
            elif k == "fixed_to_fixed":
                # a fixed-length string assigned to a fixed-length string of another length (both directions)
                _, name, ix = op
                et, dims, store = m.arrays[name]
                if isinstance(et, tuple) and et[0] == "fixed":
                    el = "%s(%s)" % (name, idx_text(ix))
                    if rng.random() < 0.5:
                        L.append("FX = %s" % el)
                        m.scalars["FX"] = conv(("fixed", 4), ("$", store[ix]))
                    else:
                        L.append("%s = FX" % el)
                        store[ix] = conv(et, ("$", m.scalars["FX"]))
                        L.append('PRINT "[" + %s + "]"; LEN(%s)' % (el, el))
                        segs.append(("s", "[" + store[ix] + "] %d \r\n" % et[1]))
                elif isinstance(et, tuple) and et[0] == "rec":
                    el = "%s(%s)" % (name, idx_text(ix))
                    y = rng.random()
                    if y < 0.35:
                        L.append("%s.F = %s.I.T" % (el, el))
                        store[ix]["F"] = conv(("fixed", 3), ("$", store[ix]["I"]["T"]))
                    elif y < 0.7:
                        L.append("FX = %s.I.T" % el)
                        m.scalars["FX"] = conv(("fixed", 4), ("$", store[ix]["I"]["T"]))
                    else:
                        L.append("%s.I.T = FX" % el)
                        store[ix]["I"]["T"] = conv(("fixed", 2), ("$", m.scalars["FX"]))
                else:
                    L.append("FX = R1.I.T")
                    m.scalars["FX"] = conv(("fixed", 4), ("$", m.scalars["R1"]["I"]["T"]))
                if rng.random() < 0.5:
                    # LEN passes its argument by reference, which would re-fix a wrongly sized value before the final dump sees it
                    L.append('PRINT "[" + FX + "]"')
                    segs.append(("s", "[" + m.scalars["FX"] + "]\r\n"))
                else:
                    L.append('PRINT "[" + FX + "]"; LEN(FX)')
                    segs.append(("s", "[" + m.scalars["FX"] + "] 4 \r\n"))
            elif k == "fixed_direct":
                val = rand_value(rng, "$")
                L.append("FX = %s" % lit(val))
                m.scalars["FX"] = conv(("fixed", 4), val)
                L.append('PRINT "[" + FX + "]"; LEN(FX)')
                segs.append(("s", "[" + m.scalars["FX"] + "] 4 \r\n"))
            elif k == "fixed_byref":
                _, name, ix = op
                et, dims, store = m.arrays[name]
                uses_helper = True
                if isinstance(et, tuple) and et[0] == "fixed":
                    L.append("SetStr %s(%s)" % (name, idx_text(ix)))
                    store[ix] = conv(et, ("$", "longer text"))
                    emit_print('"[" + %s(%s) + "]"' % (name, idx_text(ix)), "[" + store[ix] + "]", "$")
                elif isinstance(et, tuple) and et[0] == "rec":
                    L.append("SetStr %s(%s).F" % (name, idx_text(ix)))
                    store[ix]["F"] = conv(("fixed", 3), ("$", "longer text"))
                    L.append("SetStr %s(%s).I.T" % (name, idx_text(ix)))
                    store[ix]["I"]["T"] = conv(("fixed", 2), ("$", "longer text"))
                else:
                    L.append("SetStr FX")
                    m.scalars["FX"] = conv(("fixed", 4), ("$", "longer text"))
            elif k == "record_copy":
                val = rand_value(rng, "%")
                L.append("R1.N = %s" % lit(val))
                m.scalars["R1"]["N"] = conv("%", val)
                L.append('R1.I.T = "zq"')
                m.scalars["R1"]["I"]["T"] = "zq"
                L.append("R2 = R1")
                import copy
                m.scalars["R2"] = copy.deepcopy(m.scalars["R1"])
                L.append("R1.N = 1")
                m.scalars["R1"]["N"] = 1
                emit_print("R2.N", m.scalars["R2"]["N"], "%")
            elif k == "scalar_field":
                f = op[1]
                val = rand_value(rng, ftype[f])
                fq = "$" if isinstance(ftype[f], tuple) and rng.random() < 0.3 else ""
                L.append("R1.%s%s = %s" % (f, fq, lit(val)))
                rec, leaf = rec_get(m.scalars["R1"], f)
                rec[leaf] = conv(ftype[f], val)
            elif k == "redim":
                _, name = op
                et, dims, store = m.arrays[name]
                nd = []
                for _ in dims:
                    lb = rng.choice([0, 1, -5, -2, 3])
                    nd.append((lb, lb + rng.choice([0, 1, 2, 3])))
                decl = ", ".join("%d TO %d" % d for d in nd)
                if rng.random() < 0.6:
                    L.append("REDIM %s(%s)" % (name, decl))
                elif isinstance(et, tuple) and et[0] == "rec":
                    L.append("REDIM %s(%s) AS Rec" % (name, decl))
                elif isinstance(et, tuple):
                    L.append("REDIM %s(%s) AS STRING * %d" % (name, decl, et[1]))
                else:
                    L.append("REDIM %s(%s) AS %s" % (name.rstrip("%&!#$"), decl, TNAME[et]) if rng.random() < 0.0 else "REDIM %s(%s)" % (name, decl))
                m.arrays[name] = (et, nd, {ix: (m.new_record("Rec") if isinstance(et, tuple) and et[0] == "rec" else default(et)) for ix in all_indices(nd)})
                # read one element straight after the REDIM (fresh default, declared length)
                ix = tuple(rng.randrange(lb, ub + 1) for lb, ub in nd)
                if isinstance(et, tuple) and et[0] == "fixed":
                    L.append('PRINT "[" + %s(%s) + "]"; LEN(%s(%s))' % (name, ", ".join(map(str, ix)), name, ", ".join(map(str, ix))))
                    segs.append(("s", "[" + " " * et[1] + "] %d \r\n" % et[1]))
            elif k == "sweep":
                _, name = op
                et, dims, store = m.arrays[name]
                rec = isinstance(et, tuple) and et[0] == "rec"
                strv = et == "$" or (isinstance(et, tuple) and et[0] == "fixed")
                ext = itertools.product(*[range(lb - 1, ub + 2) for lb, ub in dims])
                n_bad = 0
                for t in ext:
                    if all(lb <= i <= ub for i, (lb, ub) in zip(t, dims)):
                        continue
                    n_bad += 1
                    txt = ", ".join(str(i) for i in t)
                    if n_bad % 3 == 0:
                        L.append("%s = %s(%s)%s" % ("SW$" if strv else "SW#", name, txt, ".N" if rec else ""))
                    else:
                        L.append("%s(%s)%s = %s" % (name, txt, ".N" if rec else "", '"!"' if strv else "77"))
                L.append('PRINT "errs"; ERRS%; OTHER%')
                segs.append(("s", "errs %d  0 \r\n" % n_bad))
            elif k == "oob":
                _, name, ix, how = op
                et, dims, store = m.arrays[name]
                txt = ", ".join(str(i) for i in ix)
                suffix = ".N" if (isinstance(et, tuple) and et[0] == "rec") else ""
                if how == "read":
                    L.append("PRINT %s(%s)%s" % (name, txt, suffix))
                else:
                    v = '"x"' if (et == "$" or (isinstance(et, tuple) and et[0] == "fixed")) else "1"
                    L.append("%s(%s)%s = %s" % (name, txt, suffix, v))
                m.error = (9, len([l for l in L]))
        except BasicError as e:
            m.error = (e.code, len(L))
    if not m.error:
        L.append('PRINT "end"')
        segs.append(("s", "end\r\n"))
    if exhaustive_shape is not None:
        L.append("END")
        L.append("Handler:")
        L.append("IF ERR = 9 THEN ERRS% = ERRS% + 1 ELSE OTHER% = OTHER% + 1")
        L.append("RESUME NEXT")
    for base, et, nd in sorted(helpers):
        ixs = ", ".join("I%d%%" % d for d in range(nd))
        L.append("SUB Put%s (X%s(), %s, V%s)" % (base, et, ixs, et))
        L.append("  X%s(%s) = V%s" % (et, ixs, et))
        L.append("END SUB")
        L.append("FUNCTION Get%s%s (X%s(), %s)" % (base, et, et, ixs))
        L.append("  Get%s%s = X%s(%s)" % (base, et, et, ixs))
        L.append("END FUNCTION")
        L.append("SUB Bnd%s (X%s())" % (base, et))
        L.append("  PRINT " + "; ".join("LBOUND(X%s, %d); UBOUND(X%s, %d)" % (et, d + 1, et, d + 1) for d in range(nd)))
        L.append("END SUB")
    L.append("SUB SetStr (X$)")
    L.append('  X$ = "longer text"')
    L.append("END SUB")
    return "\n".join(L) + "\n", segs, m


def compare_dump(m, rep):
    v = rep.get("vars")
    if not v or not v.get("blocks"):
        return ("no_dump", "no variable dump")
    got = {}
    for name, q, val in v["blocks"][0]["vars"]:
        got[name.upper().rstrip("$")] = val

    def cmp_val(path, t, exp, val):
        if isinstance(t, tuple) and t[0] == "rec":
            if val[0] != "rec":
                return "%s is not a record" % path
            fields = dict((f, x) for f, x in val[1])
            for f, ft in m.types[t[1]]:
                r = cmp_val(path + "." + f, ft, exp[f], fields.get(f))
                if r:
                    return r
            return None
        if val is None:
            return "%s missing" % path
        tag, x = val[0], val[1]
        if isinstance(t, tuple) or t == "$":
            if tag != "$" or x != exp:
                return "%s holds %r, model says %r" % (path, x, exp)
            if isinstance(t, tuple) and len(x) != t[1]:
                return "%s has length %d instead of %d" % (path, len(x), t[1])
            return None
        if tag != t:
            return "%s has run-time type %s, declared %s" % (path, tag, t)
        if isinstance(x, str) or Fraction(x) != Fraction(exp):
            return "%s holds %r, model says %s" % (path, x, exp)
        return None

    for name, (et, dims, store) in m.arrays.items():
        val = got.get(name.upper().rstrip("$")) or got.get(name.upper())
        if val is None or val[0] != "arr":
            return ("dump_array_missing", "array %s not found in the dump" % name)
        gdims = [tuple(d) for d in val[1]]
        if gdims != [tuple(d) for d in dims]:
            return ("bounds", "array %s has bounds %s, declared %s" % (name, gdims, dims))
        els = val[2]
        if len(els) != len(store):
            return ("element_count", "array %s has %d elements, expected %d" % (name, len(els), len(store)))
        for ix, exp in store.items():
            r = cmp_val("%s%s" % (name, list(ix)), et, exp, els[flat_index(dims, ix)])
            if r:
                return ("element", r)
    for name, exp in m.scalars.items():
        val = got.get(name.upper())
        t = ("rec", "Rec") if name.startswith("R") else ("fixed", 4)
        r = cmp_val(name, t, exp, val)
        if r:
            return ("scalar", r)
    return None


def judge(src, segs, m, rep):
    oc = outcome(rep)
    if oc[0] in ("watchdog", "harness_error", "died", "budget"):
        return ("INCONCLUSIVE", oc[0])
    if oc[0] == "panic":
        return ("panic:" + str(rep["panic"].get("msg"))[:40], "panic: %s" % rep["panic"])
    if oc[0] in ("parse_error", "lint_error"):
        e = rep.get("parse") if oc[0] == "parse_error" else rep.get("lint")
        return ("rejected:%s" % oc[1], "program rejected: %s at %s:%s" % (e["err"], e["row"], e["col"]))
    out = rep["run"]["stdout"]
    # the worker reports the bytes of stdout one character per byte
    segs = [(("s", x[1].encode("utf-8").decode("latin-1")) if x[0] == "s" else x) for x in segs]
    exp_text = "".join(s[1] if s[0] == "s" else s[3] for s in segs)
    if m.error:
        if not (oc[0] == "error" and oc[1] == m.error[0]):
            return ("missing_error:%d" % m.error[0] if oc[0] == "ok" else "wrong_error:%s" % (oc[1],), "expected error %d at line %d, got %s" % (m.error[0], m.error[1], oc))
        pos = rep["run"]["result"].get("pos") or []
        if not pos or pos[0][0] != m.error[1]:
            return ("error_row", "error %d expected at row %d, reported at %s" % (m.error[0], m.error[1], pos))
    elif oc[0] != "ok":
        return ("unexpected_error:%s" % (oc[1],), "expected normal end, got %s at %s" % (oc, rep["run"]["result"].get("pos")))
    if out != exp_text and match_segments(segs, out) not in (True, "width"):
        i = 0
        while i < min(len(out), len(exp_text)) and out[i] == exp_text[i]:
            i += 1
        return ("read_back", "output differs at offset %d: expected %r got %r" % (i, exp_text[max(0, i - 25):i + 30], out[max(0, i - 25):i + 30]))
    return compare_dump(m, rep)


def shapes_upto(max_elements):
    out = []
    for nd in (1, 2, 3):
        for sizes in itertools.product([1, 2, 3, 4, 5, 6], repeat=nd):
            n = 1
            for s in sizes:
                n *= s
            if n <= max_elements:
                out.append(sizes)
    return out


def shard(ctx):
    r = ShardResult()
    rng = ctx.rng
    w = Worker()

    def run(kind, shape=None):
        try:
            src, segs, m = gen_program(rng, shape)
        except Discard as d:
            r.discard(str(d))
            return
        rep = w.run(src, want=["vars"], budget=400000)
        v = judge(src, segs, m, rep)
        if v is not None and v[0] == "INCONCLUSIVE":
            r.inconc(v[1])
            return
        r.evaluations += 1
        r.count(kind, group="workload")
        r.count("elements_compared_with_shadow", sum(len(a[2]) for a in m.arrays.values()))
        r.nontrivial.add(h64(src))
        if v is not None:
            r.fail("C04:%s:%s" % (kind, v[0]), v[1] + " | program:\n" + src[:1500], {"src": src})
        elif len(r.samples) < 3 and rng.random() < 0.01:
            r.sample({"program": src[:1200], "stdout": rep["run"]["stdout"][:300], "outcome": list(outcome(rep))})

    # bounded-exhaustive shapes: every shape with <= N elements, a few lower-bound placements and element types
    shapes = shapes_upto(ctx.params["max_elements"])
    ets = ["%", "&", "!", "#", "$", ("fixed", 3), ("rec", "Rec")]
    jobs = []
    for si, sizes in enumerate(shapes):
        for lbs in ([0] * len(sizes), [1] * len(sizes), [-5] * len(sizes), [(-2, 3, 1)[k % 3] for k in range(len(sizes))]):
            jobs.append((sizes, lbs))
    r.stats["exhaustive_shapes"] = len(shapes)
    for j in ctx.indices(len(jobs)):
        sizes, lbs = jobs[j]
        dims = [(lb, lb + s - 1) for lb, s in zip(lbs, sizes)]
        et = ets[j % len(ets)]
        run("exhaustive_shape", (dims, et))
    for _ in range(ctx.params["n"] // ctx.n):
        run("random")
    w.close()
    return r


RULE = ("straight-line programs over arrays of 1-3 dimensions with lower bounds in -5..3 (element types: the five built-ins, STRING * n, records with a nested record and fixed strings), "
        "record variables and fixed-length string variables: mixed writes (values of other numeric types, subscripts given as INTEGER, LONG and SINGLE expressions), read-backs, LBOUND/UBOUND, "
        "fixed strings assigned directly / through a by-reference parameter / by record copy, and one out-of-range access on a random face; bounded-exhaustive: every shape with at most N "
        "elements (N=24 quick, 60 thorough) x four lower-bound placements gets the write-all-unique / read-all test and an access one step outside a face; the full end-of-run dump of every "
        "element and field is compared with the shadow model; non-trivial = every program; distinct by program text")


def main(tier, seed):
    params = {"n": 24000 if tier == "quick" else 400000, "max_elements": 24 if tier == "quick" else 60}
    return driver.run_check(
        PID, shard, params, tier, seed,
        min_evaluations=15000 if tier == "quick" else 250000,
        rule=RULE,
        assumptions=["rounding ties in numeric conversions and in SINGLE subscripts are avoided by construction", "REDIM and array parameters are not generated"],
    )


def replay(rec):
    print("replay: C04 cases are regenerated from the seed; re-run the check with the same seed (program below)")
    print(rec["case"].get("src", "")[:3000])
    return 0
