"""C06 A numeric variable only ever holds a value of its own type and range.

Oracle: (1) invariant at a hook - at every statement boundary the monitor walks all live memory blocks and
checks tag-vs-declaration and range of every scalar slot (variables, array elements, record fields,
parameters, FOR counters); (2) the reference conversion/arithmetic predicts for each generated statement
either the stored value or Overflow (6)."""
import random
from fractions import Fraction

from .. import driver
from ..driver import ShardResult, h64
from ..lang import fmt_fraction
from ..ref import BasicError, Discard, Interp, convert, match_segments
from ..worker import Worker, outcome

PID = "C06"
TYPES = "%&!#"
TYPE_NAME = {"%": "INTEGER", "&": "LONG", "!": "SINGLE", "#": "DOUBLE"}

BOUNDARY = {
    "%": [-32768, -32767, -2, -1, 0, 1, 2, 255, 32766, 32767],
    "&": [-2147483648, -2147483647, -65536, -32769, -32768, 32767, 32768, 65535, 2147483646, 2147483647],
    "!": [Fraction(1, 4), Fraction(-3, 4), Fraction(5, 4), Fraction(32767 * 4 + 1, 4), Fraction(32767 * 4 + 3, 4), Fraction(-32768 * 4 - 1, 4), Fraction(-32768 * 4 - 3, 4),
          Fraction(16777216), Fraction(2147483520), Fraction(2147483648), Fraction(-2147483648), Fraction(-2147483904), Fraction(4294967296), Fraction(3), Fraction(-32768), Fraction(32768)],
    "#": [Fraction(1, 4), Fraction(-3, 4), Fraction(32767 * 4 + 1, 4), Fraction(32767 * 4 + 3, 4), Fraction(-32768 * 4 - 3, 4), Fraction(2147483647 * 4 + 1, 4), Fraction(2147483647 * 4 + 3, 4),
          Fraction(-2147483648 * 4 - 1, 4), Fraction(-2147483648 * 4 - 3, 4), Fraction(2147483648), Fraction(4294967296), Fraction(2 ** 53), Fraction(3000000000), Fraction(-5), Fraction(2 ** 40) + Fraction(1, 2)],
}


def value_expr(t, v):
    """BASIC expression whose evaluation yields exactly v, to be assigned to a variable of type t."""
    if t in "%&":
        return str(v) if v >= 0 else "-%d" % (-v) if v > -32768 or t == "&" or True else str(v)
    v = Fraction(v)
    if v.denominator == 1:
        n = int(v)
        return str(n) if n >= 0 else "-%d" % (-n)
    whole = int(v)  # toward zero
    frac = v - whole
    fs = fmt_fraction(abs(frac)) + ("#" if t == "#" else "")
    if whole == 0:
        return ("-" if v < 0 else "") + fs
    return "%d %s %s" % (whole, "-" if v < 0 else "+", fs)


def num_print(t, v):
    v = Fraction(v)
    body = str(abs(v.numerator)) if v.denominator == 1 else fmt_fraction(abs(v))
    return ("-" if v < 0 else " ") + body + " "


LITERALS = [("-&H8000", "&", 32768), ("-&O100000", "&", 32768), ("- -32768", "&", 32768), ("-&H80000000", "#", 2147483648), ("-&O20000000000", "#", 2147483648),
            ("- -2147483648", "#", 2147483648), ("&H8000", "%", -32768), ("&HFFFF", "%", -1), ("-&HFFFF", "%", 1), ("-&H8001", "%", 32767),
            ("&H80000000", "&", -2147483648), ("-&H80000001", "&", 2147483647), ("-&H7FFFFFFF", "&", -2147483647), ("32768", "&", 32768), ("-32768", "%", -32768), ("-32769", "&", -32769),
            ("2147483648", "#", 2147483648), ("-2147483648", "&", -2147483648), ("-2147483649", "#", -2147483649), ("- - -32768", "&", -32768), ("&O177777", "%", -1), ("-&O177777", "%", 1)]
ROUTES = ["assign", "byval", "byref", "for_init", "for_limit", "read", "input", "input_file", "function_result", "array", "field", "const", "shared_in_sub"]
OPS = ["+", "-", "*"]


def gen_cases(tier, seed):
    rng = random.Random("C06/%d" % seed)
    cases = []
    for ts in TYPES:
        for v in BOUNDARY[ts]:
            for tt in TYPES:
                for route in ROUTES:
                    cases.append({"kind": "convert", "ts": ts, "v": v, "tt": tt, "route": route})
    # FOR increments reaching past the type maximum / minimum
    for tt, lo, hi, step in [("%", 32766, 32767, 1), ("%", 32760, 32767, 5), ("%", -32767, -32768, -1), ("&", 2147483646, 2147483647, 1), ("&", -2147483647, -2147483648, -1),
                             ("%", 1, 3, 1), ("&", 1, 2, 1), ("%", 32000, 32767, 700), ("!", 1, 3, 1), ("%", 1, 5, Fraction(5, 2)), ("!", 1, 2, Fraction(1, 2))]:
        cases.append({"kind": "for_incr", "tt": tt, "lo": lo, "hi": hi, "step": step})
    # arithmetic on boundary pairs, result assigned to each type
    pairs = []
    for ta in TYPES:
        for tb in TYPES:
            for a in BOUNDARY[ta]:
                for b in BOUNDARY[tb]:
                    pairs.append((ta, a, tb, b))
    rng.shuffle(pairs)
    for ta, a, tb, b in pairs:
        for op in OPS:
            tt = rng.choice(TYPES) if tier == "quick" else None
            for t in ([tt, rng.choice(TYPES)] if tt else TYPES):
                cases.append({"kind": "arith", "ta": ta, "a": a, "tb": tb, "b": b, "op": op, "tt": t, "form": rng.choice(["plain", "paren", "byval"])})
    # small operands whose quotients are exact but not whole (3 / 4, 9 / 4, -7 / 8): the computed value has another
    # run-time type than its static type, so the store has to convert it
    for ta in TYPES:
        for tb in TYPES:
            for a in (3, 9, -7, 5, 100, 1):
                for b in (4, 8, -4, 16):
                    for op in OPS + ["/"]:
                        for t in TYPES:
                            cases.append({"kind": "arith", "ta": ta, "a": a, "tb": tb, "b": b, "op": op, "tt": t, "form": rng.choice(["plain", "paren", "byval"])})
    # exact quotients that lie within 0.0001 of a whole number without being one
    for ta in TYPES:
        for a, b in ((1, 16384), (32767, 32768), (-1, 32768), (65537, 65536), (3, 32768)):
            for t in TYPES:
                cases.append({"kind": "arith", "ta": ta, "a": a if ta != "%" or abs(a) <= 32767 else 1, "tb": "&", "b": b, "op": "/", "tt": t, "form": rng.choice(["plain", "paren", "byval"])})
    for tt in TYPES:
        for what, n in (("len_long", 16383), ("len_long", 16384), ("len_long", 32767), ("instr_long", 16383), ("instr_long", 20000), ("val_int", 400), ("val_int", 320), ("val_frac", 400)):
            cases.append({"kind": "special", "what": what, "n": n, "tt": tt})
    # literals beyond the range of every floating type: Overflow (at parse time or at run time), never a stored infinity
    for tt in TYPES:
        for n in (39, 45, 309, 400):
            for tail in ("", "!", "#", ".5", ".25#"):
                cases.append({"kind": "special", "what": "huge_literal", "n": n, "tt": tt, "tail": tail})
    # literals written at the edges of the whole-number types, stored directly (no source variable in between): hex / octal words
    # whose negation leaves the type, double negations, the minima themselves
    for lit, lt, lv in LITERALS:
        for tt in TYPES:
            for route in ("assign", "byval", "for_init", "for_limit", "array", "field", "const"):
                cases.append({"kind": "literal", "lit": lit, "ts": lt, "v": lv, "tt": tt, "route": route})
    # random values inside the ranges
    nr = 4000 if tier == "quick" else 300000
    for _ in range(nr):
        ts = rng.choice(TYPES)
        if ts == "%":
            v = rng.randrange(-32768, 32768)
        elif ts == "&":
            v = rng.randrange(-2147483648, 2147483648)
        else:
            v = Fraction(rng.randrange(-2 ** 20, 2 ** 20), rng.choice([1, 2, 4, 8])) * rng.choice([1, 1, 64, 4096])
        cases.append({"kind": "convert", "ts": ts, "v": v, "tt": rng.choice(TYPES), "route": rng.choice(ROUTES)})
    return cases


def build(case):
    """Returns (source, stdin, files, expected) where expected = ('value', tt, v) | ('error', 6) | raises Discard."""
    if case["kind"] == "special":
        tt = case["tt"]
        if case["what"] == "len_long":
            # the length of a string can exceed the INTEGER range
            n = case["n"]
            src = 'S$ = STRING$(%d, "a")\nS$ = S$ + S$\nT%s = LEN(S$)\nPRINT T%s\n' % (n, tt, tt)
            try:
                return src, "", None, ("value", tt, convert(("&", 2 * n), tt)[1])
            except BasicError as e:
                return src, "", None, ("error", e.code)
        if case["what"] == "instr_long":
            n = case["n"]
            src = 'S$ = STRING$(%d, "a")\nS$ = S$ + S$ + "b"\nT%s = INSTR(S$, "b")\nPRINT T%s\n' % (n, tt, tt)
            try:
                return src, "", None, ("value", tt, convert(("&", 2 * n + 1), tt)[1])
            except BasicError as e:
                return src, "", None, ("error", e.code)
        if case["what"] == "huge_literal":
            # a rejection of any kind is the parser's business (C07 / C10); what must not happen is that the value is stored
            lit = "1" + "0" * case["n"] + case["tail"]
            fits = tt == "#" and case["n"] < 309 and not case["tail"].endswith("!")
            return 'T%s = %s\nPRINT T%s > 1\n' % (tt, lit, tt), "", None, ("no_infinity", fits)
        # VAL of more digits than a DOUBLE can hold: Overflow, never infinity
        src = 'T%s = VAL(STRING$(%d, "9")%s)\nPRINT T%s\n' % (tt, case["n"], ' + ".5"' if case["what"] == "val_frac" else "", tt)
        return src, "", None, ("error", 6)
    if case["kind"] == "for_incr":
        tt = case["tt"]
        c = "C" + tt
        src = "FOR %s = %s TO %s STEP %s\nNEXT\nPRINT %s\n" % (c, value_expr(tt, case["lo"]), value_expr(tt, case["hi"]), value_expr("!", case["step"]), c)
        # reference: run the loop
        prog = {"main": [{"k": "for", "id": 1, "var": c, "lo": lit_of(case["lo"]), "hi": lit_of(case["hi"]), "step": lit_of(case["step"]), "body": []},
                         {"k": "print", "id": 2, "items": [("e", ("var", c))]}]}
        it = Interp(prog)
        res = it.execute()
        if res[0] == "ok":
            return src, "", None, ("text", it.screen.text(), it.screen.segments)
        return src, "", None, ("error", res[1])
    if case["kind"] == "arith":
        ta, a, tb, b, op, tt = case["ta"], case["a"], case["tb"], case["b"], case["op"], case["tt"]
        # the computed value also reaches the variable through parentheses and a unary minus (other code paths of the store)
        form = case.get("form", "plain")
        expr = "A%s %s B%s" % (ta, op, tb)
        if form == "paren":
            expr = "(" + expr + ")"
        elif form == "negneg":
            expr = "-(-(" + expr + "))"
        src = "A%s = %s\nB%s = %s\nT%s = %s\nPRINT T%s\n" % (ta, value_expr(ta, a), tb, value_expr(tb, b), tt, expr, tt)
        if form == "byval":
            # the computed value is bound to a parameter of the target type (by value: it is an expression)
            src = "A%s = %s\nB%s = %s\nPV %s\nSUB PV (X%s)\nPRINT X%s\nEND SUB\n" % (ta, value_expr(ta, a), tb, value_expr(tb, b), expr, tt, tt)
        it = Interp({"main": []})
        try:
            r = it.binop(op, (ta, a if ta in "%&" else Fraction(a)), (tb, b if tb in "%&" else Fraction(b)))
            r = convert(r, tt)
        except BasicError as e:
            return src, "", None, ("error", e.code)
        return src, "", None, ("value", tt, r[1])
    ts, v, tt, route = case["ts"], case["v"], case["tt"], case["route"]
    setup = "S%s = %s\n" % (ts, value_expr(ts, v))
    if case["kind"] == "literal":
        setup = ""
    stdin = ""
    files = None
    try:
        r = convert((ts, v if ts in "%&" else Fraction(v)), tt)
        exp = ("value", tt, r[1])
    except BasicError as e:
        exp = ("error", e.code)
    S, T = "S" + ts, "T" + tt
    if case["kind"] == "literal":
        S = case["lit"]
    if route == "assign":
        src = setup + "%s = %s\nPRINT %s\n" % (T, S, T)
    elif route == "byval":
        src = setup + "P (%s)\nSUB P (X%s)\nPRINT X%s\nEND SUB\n" % (S, tt, tt)
    elif route == "byref":
        src = "DIM SHARED %s\n" % S + setup + "Q %s\nPRINT %s\nSUB Q (X%s)\nX%s = %s\nEND SUB\n" % (T, T, tt, tt, S)
    elif route == "shared_in_sub":
        src = "DIM SHARED %s\nDIM SHARED %s\n" % (S, T) + setup + "Q\nPRINT %s\nSUB Q\n%s = %s\nEND SUB\n" % (T, T, S)
    elif route == "for_init":
        # the body leaves at once, so only the conversion of the initial value is exercised
        src = setup + "FOR %s = %s TO %s\nPRINT %s\nGOTO Done\nNEXT\nDone:\nPRINT \"done\"\n" % (T, S, S, T)
        if exp[0] == "value":
            exp = ("text", num_print(tt, exp[2]) + "\r\ndone\r\n", [("n", tt, exp[2], num_print(tt, exp[2])), ("s", "\r\ndone\r\n")])
    elif route == "for_limit":
        src = setup + "FOR %s = 0 TO %s\nGOTO Done\nNEXT\nDone:\nPRINT \"done\"\n" % (T, S)
        if exp[0] == "value":
            exp = ("any_ok",)
    elif route == "read":
        text = read_text(ts, v)
        if text is None:
            raise Discard("no_data_text")
        src = "DATA %s\nREAD %s\nPRINT %s\n" % (text, T, T)
    elif route == "input":
        text = read_text(ts, v)
        if text is None:
            raise Discard("no_data_text")
        src = "INPUT %s\nPRINT %s\n" % (T, T)
        stdin = text.rstrip("#") + "\n"
    elif route == "input_file":
        text = read_text(ts, v)
        if text is None:
            raise Discard("no_data_text")
        src = "OPEN \"N.TXT\" FOR INPUT AS #1\nINPUT #1, %s\nCLOSE\nPRINT %s\n" % (T, T)
        files = {"N.TXT": text.rstrip("#") + "\r\n"}
    elif route == "function_result":
        src = "DIM SHARED %s\n" % S + setup + "%s = F%s\nPRINT %s\nFUNCTION F%s\nF%s = %s\nEND FUNCTION\n" % (T, tt, T, tt, tt, S)
    elif route == "array":
        src = setup + "DIM A%s(1 TO 3)\nA%s(2) = %s\nPRINT A%s(2)\n" % (tt, tt, S, tt)
    elif route == "field":
        src = "TYPE Rec\nBefore AS INTEGER\nF AS %s\nAfter AS INTEGER\nEND TYPE\nDIM R AS Rec\n" % TYPE_NAME[tt] + setup + "R.F = %s\nPRINT R.F\n" % S
    elif route == "const":
        src = "CONST K%s = %s\nPRINT K%s\n" % (tt, S if case["kind"] == "literal" else value_expr(ts, v), tt)
        if exp[0] == "error":
            exp = ("lint_or_error", exp[1])
    else:
        raise Discard("route")
    return src, stdin, files, exp


def lit_of(v):
    if isinstance(v, Fraction) and v.denominator != 1:
        return ("lit", "!", v)
    v = int(v)
    return ("lit", "%", v) if -32768 < v <= 32767 else ("lit", "&", v)


def read_text(ts, v):
    """Decimal text of the value for DATA / INPUT (no exponent forms)."""
    v = Fraction(v)
    if v.denominator == 1:
        return str(int(v))
    # a DATA item follows the literal rule: a fraction is a SINGLE unless it carries #
    return fmt_fraction(v) + ("#" if ts == "#" else "")


def judge(case, src, exp, rep):
    oc = outcome(rep)
    if oc[0] in ("watchdog", "harness_error", "died", "budget"):
        return ("INCONCLUSIVE", oc[0])
    mon = (rep.get("mon") or {}).get("c06", [])
    if mon:
        return ("slot_invariant", "a variable holds a value that is not of its type/range: %s" % mon[0])
    if oc[0] == "panic":
        return ("panic", "panic: %s" % (rep["panic"],))
    if exp[0] == "no_infinity":
        if oc[0] in ("parse_error", "lint_error") or (oc[0] == "error" and oc[1] == 6):
            return None
        if oc[0] == "ok" and exp[1] and rep["run"]["stdout"] == "-1 \r\n":
            return None
        return ("literal_stored", "a literal beyond the range of the variable was stored or mis-handled: %s %r" % (oc, (rep.get("run") or {}).get("stdout")))
    if exp[0] == "lint_or_error":
        if oc[0] == "lint_error" and oc[1] == "Overflow":
            return None
        if oc[0] == "error" and oc[1] == exp[1]:
            return None
        return ("const_not_rejected", "expected the constant to be rejected with Overflow, got %s %r" % (oc, (rep.get("run") or {}).get("stdout")))
    if oc[0] in ("parse_error", "lint_error"):
        e = rep.get("parse") if oc[0] == "parse_error" else rep.get("lint")
        return ("rejected:%s" % oc[1], "program rejected: %s" % e.get("err"))
    if exp[0] == "error":
        if oc[0] == "error" and oc[1] == exp[1]:
            return None
        return ("missing_overflow" if oc[0] == "ok" else "wrong_error:%s" % oc[1], "expected error %d, got %s %r" % (exp[1], oc, (rep.get("run") or {}).get("stdout")))
    if oc[0] != "ok":
        return ("unexpected_error:%s" % oc[1], "expected a stored value %s, got %s" % (exp[1:], oc))
    out = rep["run"]["stdout"]
    if exp[0] == "any_ok":
        return None
    if exp[0] == "text":
        if out == exp[1] or match_segments(exp[2], out) in (True, "width"):
            return None
        return ("wrong_value", "expected output %r got %r" % (exp[1], out))
    tt, v = exp[1], exp[2]
    # the printed line is the last one (INPUT echoes nothing in the harness)
    lines = out.split("\r\n")
    got = lines[-2] if len(lines) >= 2 else out
    seg = [("n", tt, v, num_print(tt, v))]
    if match_segments(seg, got) in (True, "width") or match_segments([("s", "? ")] + seg, got) in (True, "width"):
        return None
    return ("wrong_value", "expected %s stored in a %s variable, program printed %r" % (num_print(tt, v), TYPE_NAME[tt], got))


def run_case(w, case, r, profile_tag=""):
    try:
        src, stdin, files, exp = build(case)
    except Discard as d:
        r.discard(str(d))
        return
    rep = w.run(src, want=["c06"] + (["files"] if files is not None else []), stdin=stdin, files=files, budget=100000)
    v = judge(case, src, exp, rep)
    if v is not None and v[0] == "INCONCLUSIVE":
        r.inconc(v[1])
        return
    r.evaluations += 1
    r.count(case.get("route", case["kind"]), group="routes")
    r.count("expected_%s" % exp[0], group="expected")
    m = rep.get("mon") or {}
    r.count("slots_checked_at_statement_boundaries", m.get("c06_slots", 0))
    r.count("statement_boundary_walks", m.get("c06_walks", 0))
    if exp[0] in ("error", "lint_or_error", "no_infinity") or (exp[0] == "value" and case.get("ts") != case.get("tt")):
        r.nontrivial.add(h64(src + stdin))
    if v is not None:
        what = case.get("route", case["kind"])
        r.fail("C06%s:%s:%s" % (profile_tag, what, v[0]), v[1] + " | program:\n" + src[:500] + ("| stdin %r" % stdin if stdin else ""), {"case": jsonable(case)})
    elif len(r.samples) < 3 and exp[0] == "error" and random.random() < 0.01:
        r.sample({"program": src, "stdin": stdin, "expected": list(exp[:2]), "observed": list(outcome(rep)), "slots_checked": m.get("c06_slots")})


def jsonable(case):
    return {k: (str(v) if isinstance(v, Fraction) else v) for k, v in case.items()}


def unjson(case):
    out = {}
    for k, v in case.items():
        if k in ("v", "a", "b", "lo", "hi", "step") and isinstance(v, str):
            out[k] = Fraction(v) if "/" in v else int(v)
            t = case.get({"v": "ts", "a": "ta", "b": "tb"}.get(k, ""), None)
            if t in ("!", "#"):
                out[k] = Fraction(v)
        else:
            out[k] = v
    return out


def shard(ctx):
    r = ShardResult()
    cases = gen_cases(ctx.tier, ctx.seed)
    mine = [cases[i] for i in ctx.indices(len(cases))]
    w = Worker()
    for c in mine:
        run_case(w, c, r)
    w.close()
    # the numeric workload is repeated on the plain release build: the verdict can flip (i32 wrap vs panic)
    if ctx.params.get("release"):
        w2 = Worker(profile="verifrel")
        sub = mine[:: ctx.params["release_stride"]]
        for c in sub:
            run_case(w2, c, r, profile_tag="(release)")
        r.stats["release_build_cases"] = len(sub)
        w2.close()
    return r


RULE = ("exhaustive over the boundary set of every numeric type x every target type x every route a value takes into a variable (assignment, by-value parameter, by-ref parameter, "
        "SHARED variable in a SUB, FOR initial value and limit, READ, INPUT from console and file, function result, array element, record field, CONST with suffix), FOR increments reaching past "
        "the type range, every arithmetic operator on boundary pairs assigned to each type, plus random in-range values; one small program per case, run with the slot-invariant monitor walking "
        "all memory blocks at every statement boundary; non-trivial = an Overflow is expected or source and target type differ; distinct by (program, stdin)")


def main(tier, seed):
    params = {"release": True, "release_stride": 4 if tier == "quick" else 2}
    return driver.run_check(
        PID, shard, params, tier, seed,
        min_evaluations=15000 if tier == "quick" else 400000,
        rule=RULE, extra_profiles=("verifrel",),
        assumptions=["rounding ties and values that are not exactly representable in their type are outside the judged domain",
                     "record fields are identified with their TYPE definition by field-name list; the monitor checks every scalar slot of every live memory block"],
    )


def replay(rec):
    driver.build()
    case = unjson(rec["case"]["case"])
    r = ShardResult()
    w = Worker()
    run_case(w, case, r)
    w.close()
    if r.failures:
        print("replay: " + r.failures[0]["what"][:1500])
        print("VIOLATION property=%s replay=(replayed)" % PID)
        return 1
    print("replay: case now passes")
    return 0
