"""C13 Names resolve by the documented bare/qualified/extended rules in every scope.

Oracle: a model of name resolution written from the property statement and the README (default type by
first letter under DEFtype statements in program order; five variables per base name; an extended name owns
its base name; locals / parameters / SHARED / CONST in subprograms; case-insensitive). The generated program
assigns a distinct value through every spelling it uses and then prints every spelling; two spellings print
the same value iff the model resolves them to the same variable. Programs the model says the checker must
reject (another suffix on an extended name, assignment to a CONST, a second DIM of the same name) must be rejected."""
import random

from .. import driver
from ..driver import ShardResult, h64
from ..worker import Worker, outcome

PID = "C13"
QS = "%&!#$"
TYPE_OF = {"INTEGER": "%", "LONG": "&", "SINGLE": "!", "DOUBLE": "#", "STRING": "$"}
NAME_OF = {v: k for k, v in TYPE_OF.items()}
DEFKW = {"%": "DEFINT", "&": "DEFLNG", "!": "DEFSNG", "#": "DEFDBL", "$": "DEFSTR"}
BASES = ["A", "Ab", "B", "Bq", "C", "M", "Mx", "N", "Z", "Zed"]


def mixcase(rng, s):
    return "".join(c.upper() if rng.random() < 0.5 else c.lower() for c in s)


class Scope:
    def __init__(self, name, deftab):
        self.name = name            # "G" or the procedure's name
        self.ext = {}               # NAME -> q (DIM x AS type, "x AS type" parameters)
        self.compact = set()        # (NAME, q) declared or implicitly created here
        self.consts = {}            # NAME -> (q, value)
        self.params = {}            # (NAME, q) compact parameters
        self.deftab = deftab


class Prog:
    def __init__(self, rng):
        self.rng = rng
        self.deftab = {chr(c): "!" for c in range(65, 91)}
        self.lines = []
        self.g = Scope("G", self.deftab)
        self.shared_ext = {}        # NAME -> q
        self.shared_compact = set()
        self.values = {}            # cell -> value
        self.expected = []
        self.counter = 0
        self.features = set()
        self.reject = None

    # ---- resolution model ----
    def resolve(self, sc, base, suffix):
        """Returns ("var", cell) | ("const", q, value) | ("reject", why)."""
        N = base.upper()
        if N in sc.consts:
            q, v = sc.consts[N]
            if suffix is None or suffix == q:
                return ("const", q, v)
            return ("reject", "suffix_on_const")
        if N in sc.ext:
            q = sc.ext[N]
            if suffix is None or suffix == q:
                return ("var", (sc.name, N, "ext"))
            return ("reject", "suffix_on_extended")
        if sc is not self.g:
            if N in self.shared_ext:
                q = self.shared_ext[N]
                if suffix is None or suffix == q:
                    return ("var", ("G", N, "ext"))
                return ("reject", "suffix_on_shared_extended")
            if N in self.g.consts:
                q, v = self.g.consts[N]
                if suffix is None or suffix == q:
                    return ("const", q, v)
                return ("reject", "suffix_on_const")
        q = suffix or self.deftab[N[0]]
        if sc is not self.g:
            if (N, q) in sc.params:
                return ("var", (sc.name, N, q))
            if (N, q) in self.shared_compact:
                return ("var", ("G", N, q))
        return ("var", (sc.name, N, q))

    def type_of_cell(self, sc_name, cell):
        if cell[2] != "ext":
            return cell[2]
        if cell[0] == "G":
            return self.g.ext.get(cell[1]) or self.shared_ext.get(cell[1])
        return self.scopes[cell[0]].ext[cell[1]]

    # ---- generation ----
    def spelled(self, base, suffix):
        return mixcase(self.rng, base) + (suffix or "")

    def free_bases(self, sc):
        """Base names not owned by an extended variable or constant visible in sc."""
        out = []
        for b in BASES:
            N = b.upper()
            if N in sc.consts or N in sc.ext:
                continue
            if sc is not self.g and (N in self.shared_ext or N in self.g.consts):
                continue
            out.append(b)
        return out

    def use(self, sc, indent=""):
        """One assignment through a random spelling, or a print of one."""
        r = self.rng
        base = r.choice(BASES)
        N = base.upper()
        # choose a suffix that is legal under the model (rejections are generated separately)
        cands = [None] + list(QS)
        r.shuffle(cands)
        for suffix in cands:
            res = self.resolve(sc, base, suffix)
            if res[0] != "reject":
                break
        else:
            return
        name = self.spelled(base, suffix)
        if res[0] == "const":
            self.lines.append(indent + 'PRINT "k"; %s' % name)
            self.expected.append("k" + self.fmt(res[1], res[2]))
            self.features.add("const_read" + ("_in_sub" if sc is not self.g else ""))
            return
        cell = res[1]
        q = self.cell_type(cell)
        if r.random() < 0.6 or cell not in self.values:
            self.counter += 1
            v = "s%d" % self.counter if q == "$" else self.counter
            self.values[cell] = v
            self.lines.append(indent + "%s = %s" % (name, ('"%s"' % v) if q == "$" else str(v)))
            if cell[2] != "ext" and sc.name == cell[0]:
                sc.compact.add((cell[1], cell[2]))
        else:
            self.lines.append(indent + 'PRINT "v"; %s' % name)
            self.expected.append("v" + self.fmt(q, self.values[cell]))
        if suffix is None:
            self.features.add("bare_default_" + q)
        if cell[0] == "G" and sc is not self.g:
            self.features.add("shared_from_sub")
        if cell[2] == "ext":
            self.features.add("extended")

    def cell_type(self, cell):
        if cell[2] != "ext":
            return cell[2]
        if cell[0] == "G":
            return self.g.ext.get(cell[1]) or self.shared_ext[cell[1]]
        return self.scopes[cell[0]].ext[cell[1]]

    @staticmethod
    def fmt(q, v):
        if q == "$":
            return str(v)
        return (" " if v >= 0 else "-") + str(abs(v)) + " "

    def deftype(self):
        r = self.rng
        q = r.choice(QS)
        a = r.randrange(26)
        b = min(25, a + r.choice([0, 0, 1, 3, 12, 25]))
        rng_text = chr(65 + a) if a == b else "%s-%s" % (chr(65 + a), chr(65 + b))
        if r.random() < 0.3:
            c = r.randrange(26)
            rng_text += ", " + chr(65 + c)
            self.deftab[chr(65 + c)] = q
        for i in range(a, b + 1):
            self.deftab[chr(65 + i)] = q
        self.lines.append("%s %s" % (mixcase(r, DEFKW[q]), mixcase(r, rng_text)))
        self.features.add("deftype")

    def dump_all(self, sc, indent=""):
        """Prints every spelling of every base name that is legal in this scope."""
        for base in BASES:
            for suffix in [None] + list(QS):
                res = self.resolve(sc, base, suffix)
                if res[0] == "reject":
                    continue
                name = self.spelled(base, suffix)
                if res[0] == "const":
                    self.lines.append(indent + 'PRINT "d"; %s' % name)
                    self.expected.append("d" + self.fmt(res[1], res[2]))
                    continue
                cell = res[1]
                q = self.cell_type(cell)
                if cell not in self.values:
                    # never assigned: prints the default of its type
                    self.values_default = True
                    v = "" if q == "$" else 0
                else:
                    v = self.values[cell]
                self.lines.append(indent + 'PRINT "d"; %s' % name)
                self.expected.append("d" + self.fmt(q, v))

    def build(self):
        r = self.rng
        self.scopes = {}
        g = self.g
        for _ in range(r.choice([0, 0, 1, 2, 3])):
            self.deftype()
        # global declarations
        for _ in range(r.choice([0, 1, 2, 3])):
            free = self.free_bases(g)
            if not free:
                break
            base = r.choice(free)
            N = base.upper()
            if any(n == N for n, _ in g.compact) or any(n == N for n, _ in self.shared_compact):
                continue
            y = r.random()
            if y < 0.35:
                q = r.choice(QS)
                shared = r.random() < 0.5
                self.lines.append("DIM %s%s AS %s" % ("SHARED " if shared else "", mixcase(r, base), NAME_OF[q]))
                g.ext[N] = q
                if shared:
                    self.shared_ext[N] = q
                self.features.add("dim_as" + ("_shared" if shared else ""))
            elif y < 0.6:
                q = r.choice(QS)
                self.lines.append("DIM SHARED %s%s" % (mixcase(r, base), q))
                g.compact.add((N, q))
                self.shared_compact.add((N, q))
                self.features.add("dim_shared_compact")
            elif y < 0.8:
                q = r.choice("%$")
                self.counter += 1
                v = "c%d" % self.counter if q == "$" else 1000 + self.counter
                self.lines.append("CONST %s%s = %s" % (mixcase(r, base), q if r.random() < 0.5 else ("" if self.deftab[N[0]] == q else q), ('"%s"' % v) if q == "$" else str(v)))
                g.consts[N] = (q, v)
                self.features.add("const")
            else:
                q = self.deftab[N[0]]
                self.lines.append("DIM %s" % mixcase(r, base))
                g.compact.add((N, q))
        # procedures to be defined
        nprocs = r.choice([0, 1, 1, 2])
        procs = []
        for i in range(nprocs):
            procs.append({"name": "Sub%d" % i, "params": []})
        # main body
        for _ in range(r.randrange(4, 14)):
            if r.random() < 0.08:
                self.deftype()
            else:
                self.use(g)
        self.dump_all(g)
        for p in procs:
            sc = Scope(p["name"], self.deftab)
            self.scopes[p["name"]] = sc
            heads, args = [], []
            used = set()
            for _ in range(r.choice([0, 0, 1, 2, 3])):
                free = [b for b in self.free_bases(sc) if b.upper() not in used and not any(n == b.upper() for n, _ in self.shared_compact)]
                if not free:
                    break
                base = r.choice(free)
                N = base.upper()
                used.add(N)
                y = r.random()
                if y < 0.35:
                    q = self.deftab[N[0]]
                    heads.append(mixcase(r, base))
                    sc.params[(N, q)] = True
                    cell = (sc.name, N, q)
                    self.features.add("bare_parameter")
                elif y < 0.7:
                    q = r.choice(QS)
                    heads.append(mixcase(r, base) + q)
                    sc.params[(N, q)] = True
                    cell = (sc.name, N, q)
                    self.features.add("suffixed_parameter")
                else:
                    q = r.choice(QS)
                    heads.append("%s AS %s" % (mixcase(r, base), NAME_OF[q]))
                    sc.ext[N] = q
                    cell = (sc.name, N, "ext")
                    self.features.add("extended_parameter")
                self.counter += 1
                v = "p%d" % self.counter if q == "$" else self.counter
                self.values[cell] = v
                args.append(('"%s"' % v) if q == "$" else str(v))
            p["head"] = " (" + ", ".join(heads) + ")" if heads else ""
            self.lines.append(p["name"] + (" " + ", ".join(args) if args else ""))
        self.lines.append('PRINT "after"')
        self.expected.append("after")
        # the globals again after the calls (SHARED ones may have changed) - filled in after the procedures are generated
        main_tail_at = len(self.lines)
        proc_lines = []
        saved_lines = self.lines
        for p in procs:
            self.lines = []
            sc = self.scopes[p["name"]]
            self.lines.append("SUB %s%s" % (p["name"], p["head"]))
            for _ in range(r.choice([0, 1, 2, 3])):
                shadowable = [b for b in BASES if b.upper() in self.g.consts and b.upper() not in sc.consts and b.upper() not in sc.ext]
                if shadowable and r.random() < 0.35:
                    # a local CONST that shadows the global CONST of the same name (same type, another value)
                    base = r.choice(shadowable)
                    N = base.upper()
                    q = self.g.consts[N][0]
                    self.counter += 1
                    v = "c%d" % self.counter if q == "$" else 1000 + self.counter
                    self.lines.append("  CONST %s%s = %s" % (mixcase(r, base), q, ('"%s"' % v) if q == "$" else str(v)))
                    sc.consts[N] = (q, v)
                    self.features.add("local_const_shadows_global")
                    continue
                free = self.free_bases(sc)
                if not free:
                    break
                base = r.choice(free)
                N = base.upper()
                if any(n == N for n, _ in sc.compact) or any(n == N for n, _ in self.shared_compact) or any(n == N for n, _ in sc.params):
                    # a SHARED compact variable of that base name is visible here: QBasic's Duplicate definition
                    continue
                y = r.random()
                if y < 0.5:
                    q = r.choice(QS)
                    self.lines.append("  DIM %s AS %s" % (mixcase(r, base), NAME_OF[q]))
                    sc.ext[N] = q
                    self.features.add("local_dim_as")
                else:
                    q = r.choice("%$")
                    self.counter += 1
                    v = "c%d" % self.counter if q == "$" else 1000 + self.counter
                    rhs = ('"%s"' % v) if q == "$" else str(v)
                    # sometimes defined by a constant expression over a CONST visible here (the local one wins over a global one)
                    visible = {}
                    for NN, (qq, vv) in list(self.g.consts.items()) + list(sc.consts.items()):
                        visible[NN] = (qq, vv)
                    same = [NN for NN, (qq, vv) in visible.items() if qq == q]
                    if same and r.random() < 0.6:
                        NN = r.choice(sorted(same))
                        ref_name = mixcase(r, NN) + (q if r.random() < 0.5 else "")
                        if q == "$":
                            v = visible[NN][1] + "z"
                            rhs = ref_name + ' + "z"'
                        else:
                            v = visible[NN][1] + 1
                            rhs = ref_name + " + 1"
                        self.features.add("const_defined_by_const" + ("_shadowed" if NN in sc.consts and NN in self.g.consts else ""))
                    self.lines.append("  CONST %s%s = %s" % (mixcase(r, base), q, rhs))
                    sc.consts[N] = (q, v)
                    self.features.add("local_const")
            for _ in range(r.randrange(3, 10)):
                self.use(sc, "  ")
            self.dump_all(sc, "  ")
            self.lines.append("END SUB")
            proc_lines.append(self.lines)
        self.lines = saved_lines
        # the procedure bodies run in call order, between the main dump and "after": move their expectations there.
        # expectations were appended in generation order, which is: main uses, main dump, "after", proc1..., so reorder
        return procs, proc_lines


def make_case(rng):
    """Returns (src, expected lines or None, reject reason or None, features)."""
    p = Prog(rng)
    # generate main first, remember where "after" is in the expectations
    procs, proc_lines = p.build()
    exp = p.expected
    i = exp.index("after")
    main_exp = exp[:i]
    proc_exp = exp[i + 1:]
    expected = main_exp + proc_exp + ["after"]
    lines = list(p.lines)
    # after the calls, the main module prints its variables again
    p.lines = []
    p.expected = []
    p.dump_all(p.g)
    lines += p.lines
    expected += p.expected
    # function-result names: a FUNCTION with a bare name (and a bare parameter) has the default type of its first letter;
    # it can be called bare or with the matching suffix, and assigned inside under either spelling
    fn_lines = []
    if rng.random() < 0.5:
        for base in rng.sample(["Fa", "Qn", "Tx", "Gv"], rng.choice([1, 2])):
            q = p.deftab[base[0].upper()]
            # a bare variable of the main module with the same first letter: typed by the table as it stands in the main module
            if q != "$":
                wv = base[0] + "w"
                lines.append("%s = 11 / 4" % mixcase(rng, wv))
                lines.append('PRINT "w"; %s' % mixcase(rng, wv))
                expected.append("w" + (" 3 " if q in "%&" else " 2.75 "))
            if rng.random() < 0.5:
                # a DEFtype statement between the procedures: it types this FUNCTION and its bare parameter, nothing before it
                q = rng.choice(QS)
                fn_lines.append("%s %s" % (mixcase(rng, DEFKW[q]), rng.choice([base[0].upper(), base[0].lower()])))
                p.features.add("deftype_between_procedures")
            par = base[0] + "p"
            call = mixcase(rng, base) + (q if rng.random() < 0.4 else "")
            if q == "$":
                lines.append('PRINT "f"; %s("p")' % call)
                expected.append("fps")
                rhs = '%s + "s"' % mixcase(rng, par)
            else:
                lines.append('PRINT "f"; %s(7)' % call)
                expected.append("f" + (" 10 " if q in "%&" else " 9.75 "))
                rhs = "%s + 11 / 4" % mixcase(rng, par)
            fn_lines += ["FUNCTION %s (%s)" % (mixcase(rng, base), mixcase(rng, par) + (q if rng.random() < 0.3 else "")),
                         "  %s%s = %s" % (mixcase(rng, base), q if rng.random() < 0.4 else "", rhs), "END FUNCTION"]
            p.features.add("function_result_name_" + q)
    lines.append("END")
    for pl in proc_lines:
        lines += pl
    lines += fn_lines
    reject = None
    if rng.random() < 0.25:
        # one illegal use, which the checker must reject
        kinds = []
        if p.g.ext:
            kinds.append("suffix_on_extended")
            kinds.append("dim_twice")
        if p.g.consts:
            kinds.append("assign_const")
        if kinds:
            kind = rng.choice(kinds)
            if kind == "suffix_on_extended":
                N = rng.choice(sorted(p.g.ext))
                q = rng.choice([x for x in QS if x != p.g.ext[N]])
                bad = "%s%s = %s" % (mixcase(rng, N), q, '"x"' if q == "$" else "1")
            elif kind == "dim_twice":
                N = rng.choice(sorted(p.g.ext))
                bad = "DIM %s AS %s" % (mixcase(rng, N), NAME_OF[rng.choice(QS)])
            else:
                N = rng.choice(sorted(p.g.consts))
                q = p.g.consts[N][0]
                bad = "%s%s = %s" % (mixcase(rng, N), q, '"x"' if q == "$" else "1")
            # insert in the main module after the declarations (before END)
            at = lines.index("END")
            lines.insert(at, bad)
            reject = kind
    return "\n".join(lines) + "\n", expected, reject, p.features


def shard(ctx):
    r = ShardResult()
    w = Worker()
    for index in ctx.indices(ctx.params["n"]):
        rng = random.Random("C13/%s/%d" % (ctx.seed, index))
        src, expected, reject, feats = make_case(rng)
        rep = w.run(src, budget=200000)
        oc = outcome(rep)
        if oc[0] in ("watchdog", "harness_error", "died", "budget"):
            r.inconc(oc[0])
            continue
        r.evaluations += 1
        for f in feats:
            r.count(f, group="features")
        case = {"src": src}
        if len(feats) >= 3:
            r.nontrivial.add(h64(src))
        if reject is not None:
            r.count("must_reject_" + reject, group="rejections")
            if oc[0] != "lint_error":
                r.fail("C13:not_rejected:%s" % reject, "the checker must reject this program (%s) but the outcome is %s | program:\n%s" % (reject, oc, src[:2000]), case)
            continue
        if oc[0] in ("parse_error", "lint_error"):
            e = rep.get("parse") if oc[0] == "parse_error" else rep.get("lint")
            r.fail("C13:rejected:%s" % oc[1], "legal program rejected: %s at %s:%s | program:\n%s" % (e["err"], e["row"], e["col"], src[:2000]), case)
            continue
        if oc[0] != "ok":
            r.fail("C13:outcome:%s" % (oc[1],), "outcome %s at %s | program:\n%s" % (oc, rep["run"]["result"].get("pos"), src[:2000]), case)
            continue
        got = rep["run"]["stdout"].split("\r\n")
        if got and got[-1] == "":
            got.pop()
        if got != expected:
            k = 0
            while k < min(len(got), len(expected)) and got[k] == expected[k]:
                k += 1
            # find the source line of the k-th PRINT
            r.fail("C13:value", "output line %d: expected %r, got %r | program:\n%s" % (k + 1, expected[k] if k < len(expected) else None, got[k] if k < len(got) else None, src[:2500]), case)
        elif len(r.samples) < 2 and (len(feats) >= 5 or not r.samples):
            keep = [l for l in src.split("\n") if not l.strip().upper().startswith('PRINT "D"')]
            r.sample({"program_without_the_dump_lines": "\n".join(keep)[:1500], "stdout_head": rep["run"]["stdout"][:400], "features": sorted(feats)})
    w.close()
    return r


RULE = ("generated programs: 0-3 DEFtype statements with random letter ranges (also in the middle of the main module), global DIM x AS type / DIM SHARED (extended and compact) / CONST / bare DIM, "
        "0-2 SUBs with local DIM AS and CONST; ten base names sharing first letters, every use spelled in random letter case with no suffix or any of the five suffixes the model allows; "
        "each assignment stores a fresh value, each scope finally prints all 60 spellings, the main module again after the calls; a quarter of the programs carry one illegal use "
        "(other suffix on an extended name, second DIM of a name, assignment to a CONST) that must be rejected; non-trivial = at least 3 distinct features; distinct by program text")


def main(tier, seed):
    params = {"n": 16000 if tier == "quick" else 400000}
    return driver.run_check(
        PID, shard, params, tier, seed,
        min_evaluations=10000 if tier == "quick" else 250000,
        rule=RULE,
        assumptions=["the resolution model rv/checks/c13.py (written from the property statement and the README) is the prescription",
                     "not generated: parameters, function-result names, a suffix on a CONST name other than its own, DEFtype statements after the first SUB, arrays and records"],
    )


def replay(rec):
    driver.build()
    w = Worker()
    rep = w.run(rec["case"]["src"], budget=200000)
    w.close()
    print("replay: outcome %s\n%s" % (outcome(rep), rep.get("run", {}).get("stdout", "")))
    print("replay: compare with the expectation recorded in the replay file ('what')")
    return 0
