"""C20 Parser combinators honour their backtracking and error contract.

Monitor: pcmon (Rust, /verif/harness/pcmon) builds real rusty_pc parsers from generated parser expressions,
wraps every sub-parser in an observer that checks the local contract clauses online, and compares the root
result and position with a denotational model written from the documentation."""
import subprocess

from .. import driver

PID = "C20"

RULE = ("parser expressions over the library's primitives and all its combinators, alphabet {a,b,c}, all 1093 inputs of length <= 6: exhaustive to depth 1 plus "
        "random expressions of depth 2-4 (quick), depth-2 strata enumerated in a fixed order as far as the budget allows plus 2e6 random deeper ones (thorough; the "
        "evidence states the fraction completed); every sub-parser is observed (position before, result class, position after) and the root is compared with the model; "
        "non-trivial = an expression in which at least one combinator node observed a child failure or a backtrack on some input; distinct by expression text")


def main(tier, seed):
    return driver.run_external_check(
        PID, "pcmon", [], tier, seed, RULE,
        min_evaluations=10_000_000,
        assumptions=["the model follows the doc comments of rusty_pc; where they are silent the reading that makes the real code correct was chosen (listed in DESIGN.md)",
                     "a repetition over an element that succeeds without consuming diverges by definition: both sides run on logical fuel, 'both diverge' is counted and not judged"],
    )


def replay(rec):
    driver.build(("pcmon",))
    c = rec["case"]
    if not c:
        print("replay: no witness was recorded for this signature")
        return 0
    rc = subprocess.call([driver.HARNESS + "/target/verif/pcmon", "--replay", c["expr"], c["input"]])
    if rc == 1:
        print("VIOLATION property=%s replay=(replayed)" % PID)
        return 1
    return 0
