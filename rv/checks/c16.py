"""C16 PRINT lays text out by the column rules, on screen, printer and files alike.

Oracle: a shadow model with one column counter per device (screen, LPT1, each open file): number ->
(space | -) digits space; string verbatim; ; adds nothing; , pads to the next multiple of 14; CR LF at the
end unless the statement ends in a separator; the column restarts after CR or LF inside a string;
PRINT USING over # , . fields, \\ \\ and !, literal text copied, format reused cyclically."""
import itertools
import random
from fractions import Fraction

from .. import driver
from ..driver import ShardResult, h64
from ..lang import fmt_fraction
from ..ref import round_half_away, Discard
from ..worker import Worker, outcome

PID = "C16"
DEVS = ["screen", "lpt1", "f1", "f2"]


class Dev:
    def __init__(self):
        self.raw = []      # strict reading: embedded CR/LF bytes verbatim
        self.impl = []     # embedded CR or LF written as a CR LF pair (the implementation's own test pins this)
        self.col = 0

    def put(self, s):
        for ch in s:
            if ch in "\r\n":
                self.raw.append(ch)
                self.impl.append("\r\n")
                self.col = 0
            else:
                self.raw.append(ch)
                self.impl.append(ch)
                self.col += 1

    def newline(self):
        self.raw.append("\r\n")
        self.impl.append("\r\n")
        self.col = 0

    def comma(self):
        self.put(" " * (14 - self.col % 14))


def num_text(t, v):
    """(sign-or-space) digits (space) for a number of type t."""
    if t in "%&":
        body = str(abs(v))
    else:
        v = Fraction(v)
        body = str(abs(v.numerator)) if v.denominator == 1 else fmt_fraction(abs(v))
    return ("-" if v < 0 else " ") + body + " "


class NegZero(Fraction):
    """The value 0 written as an expression whose floating result is a negative zero: it prints like any other zero."""


def lit(t, v):
    if isinstance(v, NegZero):
        return "(-1 * 0.0)" if t == "!" else "(-1 * 0.0#)"
    if t == "$":
        # embedded CR / LF go through CHR$
        parts = []
        cur = ""
        for ch in v:
            if ch in "\r\n":
                if cur:
                    parts.append('"' + cur + '"')
                    cur = ""
                parts.append("CHR$(%d)" % ord(ch))
            else:
                cur += ch
        if cur or not parts:
            parts.append('"' + cur + '"')
        return " + ".join(parts)
    if t == "%":
        return str(v)
    if t == "&":
        return str(v)
    s = fmt_fraction(v)
    return s if t == "!" else s + "#"


def rand_item(rng):
    t = rng.choice(["%", "%", "&", "!", "#", "$", "$", "$"])
    if t == "%":
        return (t, rng.choice([0, 1, -1, 7, -12, 123, 32767, -32767, rng.randrange(-9999, 9999)]))
    if t == "&":
        return (t, rng.choice([40000, -40000, 2147483647, -2147483647, 100000, 1234567]))
    if t in "!#":
        if rng.random() < 0.06:
            return (t, NegZero(0))
        k = rng.choice([1, 3, 5, -7, 9, 11, -13, 21])
        v = Fraction(k, rng.choice([2, 4, 8]))
        if v.denominator == 1:
            v += Fraction(1, 2)
        return (t, v)
    n = rng.choice([0, 1, 2, 5, 13, 14, 15, 27, 28, 30, rng.randrange(0, 31)])
    # one string in ten has characters above 127: one column each (two bytes inside the interpreter)
    s = "".join(rng.choice("abcXYZ 09.,;:-" if rng.random() < 0.9 else "ab \u00e9\u00c8\u00ff") for _ in range(n))
    if rng.random() < 0.15 and n > 0:
        i = rng.randrange(len(s) + 1)
        s = s[:i] + rng.choice(["\r", "\n", "\r\n"]) + s[i:]
    return ("$", s)


def print_stmt(dev_name, items):
    """items: list of ('e', t, v) | (';',) | (',',). Returns BASIC text."""
    head = {"screen": "PRINT", "lpt1": "LPRINT", "f1": "PRINT #1,", "f2": "PRINT #2,"}[dev_name]
    parts = []
    for it in items:
        parts.append(lit(it[1], it[2]) if it[0] == "e" else (it[1] if it[0] == "f" else ("1 / ZQ%" if it[0] == "err" else it[0])))
    body = " ".join(parts)
    if not body:
        return head.rstrip(",") if dev_name in ("screen", "lpt1") else head
    return head + " " + body


def model_print(dev, items, devs=None):
    for it in items:
        if it[0] == "err":
            # the item fails (trapped by ON ERROR RESUME NEXT): what was written stays, the statement ends without a new line
            return
        if it[0] == "f":
            # a FUNCTION that prints on another device while this statement is half way through
            _, name, v, inner = it
            model_print(devs[inner[1]], inner[2])
            dev.put(num_text("%", v))
        elif it[0] == "e":
            if it[1] == "$":
                dev.put(it[2])
            else:
                dev.put(num_text(it[1], it[2]))
        elif it[0] == ",":
            dev.comma()
    if not items or items[-1][0] in ("e", "f"):
        dev.newline()


# ---- PRINT USING ---------------------------------------------------------------------------------

def parse_format(fmt):
    """Returns a list of segments: ('lit', text) | ('num', int_fmt, frac_digits or None) | ('str', width) | ('chr',)."""
    segs = []
    i = 0
    litbuf = ""
    while i < len(fmt):
        c = fmt[i]
        if c == "#":
            j = i
            while j < len(fmt) and fmt[j] in "#,.":
                j += 1
            field = fmt[i:j]
            if field.count(".") > 1:
                return None
            if "." in field:
                ip, fp = field.split(".")
                if not fp or "," in fp:
                    return None
            else:
                ip, fp = field, None
            if litbuf:
                segs.append(("lit", litbuf))
                litbuf = ""
            segs.append(("num", ip, None if fp is None else len(fp)))
            i = j
        elif c == "\\":
            j = i + 1
            while j < len(fmt) and fmt[j] == " ":
                j += 1
            if j >= len(fmt) or fmt[j] != "\\":
                return None
            if litbuf:
                segs.append(("lit", litbuf))
                litbuf = ""
            segs.append(("str", j - i + 1))
            i = j + 1
        elif c == "!":
            if litbuf:
                segs.append(("lit", litbuf))
                litbuf = ""
            segs.append(("chr",))
            i += 1
        else:
            if c in ".,":
                return None      # a stray . or , outside a numeric field: not covered by the property
            litbuf += c
            i += 1
    if litbuf:
        segs.append(("lit", litbuf))
    return segs


def canonical_commas(ip):
    """Commas every three digit positions from the right (the only placement the model has an opinion about)."""
    digits_from_right = 0
    for ch in reversed(ip):
        if ch == ",":
            if digits_from_right == 0 or digits_from_right % 3 != 0:
                return False
        else:
            digits_from_right += 1
    return not ip.startswith(",")


def render_num(ip, fd, t, v):
    if not canonical_commas(ip):
        raise Discard("comma_placement")
    v = Fraction(v)
    if fd is None:
        n = v if v.denominator == 1 else round_half_away(v)
        n = int(n)
        frac = ""
    else:
        scaled = v * (10 ** fd)
        n_scaled = int(scaled) if scaled.denominator == 1 else int(round_half_away(scaled))
        n = abs(n_scaled) // (10 ** fd)
        f = abs(n_scaled) % (10 ** fd)
        frac = "." + str(f).rjust(fd, "0")
        if n_scaled < 0:
            n = -n if n != 0 else 0
        neg_zero = n_scaled < 0 and n == 0
    digits = str(abs(n))
    if fd is not None and n_scaled < 0:
        sign = "-"
    elif fd is None and n < 0:
        sign = "-"
    else:
        sign = ""
    text = sign + digits
    # insert digits right to left into the pattern
    out = []
    j = len(text)
    for ch in reversed(ip):
        if ch == ",":
            if j > 0 and text[j - 1] == "-":
                # no digits left to separate: the sign stands directly in front of the number
                out.append("-")
                j -= 1
            else:
                out.append("," if j > 0 else " ")
        else:
            if j > 0:
                out.append(text[j - 1])
                j -= 1
            else:
                out.append(" ")
    if j > 0:
        raise Discard("number_wider_than_field")
    return "".join(reversed(out)) + frac


def model_using(dev, fmt, values, trailing):
    """Returns None normally, or the expected error code."""
    segs = parse_format(fmt)
    if segs is None:
        raise Discard("format_outside_model")
    fields = [s for s in segs if s[0] != "lit"]
    if not fields:
        if values:
            return 5
        raise Discard("using_without_values")
    idx = 0
    for (t, v) in values:
        # copy literals up to the next field, wrapping around
        guard = 0
        while segs[idx % len(segs)][0] == "lit":
            dev.put(segs[idx % len(segs)][1])
            idx += 1
            guard += 1
        seg = segs[idx % len(segs)]
        idx += 1
        if seg[0] == "num":
            if t == "$":
                return 13
            dev.put(render_num(seg[1], seg[2], t, v))
        elif seg[0] == "str":
            if t != "$":
                return 13
            if "\r" in v or "\n" in v:
                raise Discard("newline_in_using")
            dev.put(v[:seg[1]].ljust(seg[1]))
        else:
            if t != "$":
                return 13
            if v == "":
                return 5
            dev.put(v[0])
        if idx % len(segs) == 0:
            pass
    # trailing literal text up to the next field (not wrapping)
    k = idx % len(segs) if idx % len(segs) != 0 else len(segs)
    if idx % len(segs) != 0:
        k = idx % len(segs)
        while k < len(segs) and segs[k][0] == "lit":
            dev.put(segs[k][1])
            k += 1
    if not trailing:
        dev.newline()
    return None


# ---- cases ---------------------------------------------------------------------------------------

def gen_history(rng, allow_err=True):
    """A sequence of PRINT statements interleaved over the four devices."""
    stmts = []
    n = rng.randrange(1, 13)
    for _ in range(n):
        dev = rng.choice(DEVS)
        items = []
        k = rng.choice([0, 1, 1, 2, 2, 3, 4])
        if rng.random() < 0.15:
            items.append((rng.choice([";", ","]),))
        for i in range(k):
            if rng.random() < 0.08:
                # the value comes from a FUNCTION that itself prints on a different device
                other = rng.choice([d for d in DEVS if d != dev])
                inner_items = []
                nin = rng.choice([1, 2])
                for j in range(nin):
                    t2, v2 = rand_item(rng)
                    inner_items.append(("e", t2, v2))
                    if j < nin - 1 or rng.random() < 0.4:
                        inner_items.append((rng.choice([";", ","]),))
                items.append(("f", "NF%d%%" % rng.randrange(10 ** 6), rng.randrange(-99, 100), ("print", other, inner_items)))
            else:
                t, v = rand_item(rng)
                items.append(("e", t, v))
            if i < k - 1:
                items.append((rng.choice([";", ",", ";", ","]),))
                if rng.random() < 0.1:
                    items.append((rng.choice([";", ","]),))
        if k and rng.random() < 0.3:
            items.append((rng.choice([";", ","]),))
        if allow_err and rng.random() < 0.06:
            # a failing item somewhere in the list
            at = rng.randrange(len(items) + 1)
            while at > 0 and items[at - 1][0] not in (";", ","):
                at -= 1
            items[at:at] = [("err",)] + ([(rng.choice([";", ","]),)] if at < len(items) else [])
        stmts.append(("print", dev, items))
    return stmts


def gen_boundary(idx):
    """Exhaustive column boundary set: start column 0..30 x item width 0..16 x separator."""
    c = idx % 31
    w = (idx // 31) % 17
    sep = [";", ","][(idx // (31 * 17)) % 2]
    dev = DEVS[(idx // (31 * 17 * 2)) % 4]
    first = ("e", "$", "x" * c)
    item = ("e", "$", "y" * w)
    return [("print", dev, [first, (";",), item, (sep,), ("e", "$", "Z")]),
            ("print", dev, [("e", "%", 5), (",",), ("e", "%", -5)])]


USING_ALPHABET = ["#", ",", ".", "\\", " ", "!", "a"]


def gen_using(rng, exhaustive_fmt=None):
    if exhaustive_fmt is not None:
        fmt = exhaustive_fmt
    else:
        fmt = rng.choice(["###", "###.##", "#,###", "##,###.#", "###,###", "#,###,###.##", "\\  \\", "!", "Total: ### and \\ \\!", "a#b#c", "#.#", "##", "\\\\", "x\\   \\y###.###z", "####.#"])
    nv = rng.choice([1, 1, 2, 3, 4])
    values = []
    for _ in range(nv):
        if rng.random() < 0.6:
            t = rng.choice(["%", "%", "!", "#", "&"])
            if t == "%":
                # -123 / -999: the sign ends up where a thousands separator is written in the format
                v = rng.choice([0, 1, 7, 12, 123, -5, -42, 999, 1234, -123, -999, -1000])
            elif t == "&":
                v = rng.choice([40000, 123456, -70000, -123456, -100000])
            else:
                v = Fraction(rng.choice([1, 3, 5, 7, 9, 11, 13, 101, -3, -9]), rng.choice([4, 8, 16]))
                if v.denominator == 1:
                    v += Fraction(1, 4)
            values.append((t, v))
        else:
            values.append(("$", rng.choice(["", "a", "ab", "Hello", "hello world", "XYZ"])))
    dev = rng.choice(DEVS)
    return [("using", dev, fmt, values, rng.random() < 0.25)]


def gen_using_history(rng):
    """Several PRINT USING statements (value counts that do not match the field counts, so that a statement
    ends in the middle of its format), interleaved with plain PRINTs over the devices."""
    out = []
    for _ in range(rng.randrange(2, 6)):
        if rng.random() < 0.3:
            out += gen_history(rng, allow_err=False)[:2]
        else:
            out += gen_using(rng)
    return out


def build_program(stmts):
    lines = ['OPEN "F1.TXT" FOR OUTPUT AS #1', 'OPEN "F2.TXT" FOR OUTPUT AS #2']
    if any(s[0] == "print" and any(it[0] == "err" for it in s[2]) for s in stmts):
        lines.insert(0, "ON ERROR RESUME NEXT")
    for s in stmts:
        if s[0] == "print":
            lines.append(print_stmt(s[1], s[2]))
        else:
            _, dev, fmt, values, trailing = s
            head = {"screen": "PRINT", "lpt1": "LPRINT", "f1": "PRINT #1,", "f2": "PRINT #2,"}[dev]
            lines.append("%s USING %s; %s%s" % (head, lit("$", fmt), "; ".join(lit(t, v) for t, v in values), ";" if trailing else ""))
    lines.append("CLOSE")
    for s in stmts:
        if s[0] == "print":
            for it in s[2]:
                if it[0] == "f":
                    # STATIC procedures are entered through another instruction
                    lines.append("FUNCTION " + it[1] + (" STATIC" if sum(map(ord, it[1])) % 3 == 0 else ""))
                    lines.append("  " + print_stmt(it[3][1], it[3][2]))
                    lines.append("  %s = %d" % (it[1], it[2]))
                    lines.append("END FUNCTION")
    return "\n".join(lines) + "\n"


def model_program(stmts):
    """Returns (devices, expected error code or None)."""
    devs = {d: Dev() for d in DEVS}
    for s in stmts:
        if s[0] == "print":
            model_print(devs[s[1]], s[2], devs)
        else:
            err = model_using(devs[s[1]], s[2], s[3], s[4])
            if err is not None:
                return devs, err
    return devs, None


def observe(rep):
    run = rep.get("run") or {}
    files = rep.get("files") or {}
    def f(name):
        x = files.get(name)
        return x[0] if isinstance(x, list) else None
    return {"screen": run.get("stdout"), "lpt1": run.get("lpt1"), "f1": f("F1.TXT"), "f2": f("F2.TXT")}


def judge(stmts, rep):
    try:
        devs, err = model_program(stmts)
    except Discard as d:
        return ("DISCARD", str(d))
    oc = outcome(rep)
    if oc[0] in ("watchdog", "harness_error", "died", "budget"):
        return ("INCONCLUSIVE", oc[0])
    if oc[0] in ("parse_error", "lint_error", "panic"):
        return ("rejected:%s" % oc[1], "program not run: %s" % (oc,))
    if err is not None:
        if oc[0] != "error" or oc[1] != err:
            return ("using_error:%s" % err, "expected error %s, got %s" % (err, oc))
        return None
    if oc[0] != "ok":
        return ("unexpected_error:%s" % (oc[1],), "expected normal end, got %s" % (oc,))
    obs = observe(rep)
    for d in DEVS:
        # the worker reports the device bytes one character per byte
        raw = "".join(devs[d].raw).encode("utf-8").decode("latin-1")
        impl = "".join(devs[d].impl).encode("utf-8").decode("latin-1")
        got = obs[d]
        if got is None:
            got = ""
        if got != raw and got != impl:
            i = 0
            while i < min(len(got), len(impl)) and got[i] == impl[i]:
                i += 1
            return ("layout:%s" % ("screen" if d == "screen" else "lpt1" if d == "lpt1" else "file"),
                    "device %s differs at offset %d: expected %r got %r" % (d, i, impl[max(0, i - 25):i + 30], got[max(0, i - 25):i + 30]))
    return None


def shard(ctx):
    r = ShardResult()
    rng = ctx.rng
    w = Worker()

    def run(kind, stmts):
        src = build_program(stmts)
        rep = w.run(src, want=["files"], files={}, budget=200000)
        v = judge(stmts, rep)
        if v is not None and v[0] == "DISCARD":
            r.discard(v[1])
            return
        if v is not None and v[0] == "INCONCLUSIVE":
            r.inconc(v[1])
            return
        r.evaluations += 1
        r.count(kind, group="workload")
        r.nontrivial.add(h64(src))
        if v is not None:
            r.fail("C16:%s:%s" % (kind, v[0]), v[1] + " | program:\n" + src[:800], {"kind": kind, "stmts": stmts, "src": src})
        elif len(r.samples) < 3 and kind in ("history", "using") and rng.random() < 0.02:
            r.sample({"kind": kind, "src": src, "observed": observe(rep)})

    # exhaustive column boundaries (31 x 17 x 2 x 4 devices)
    total_b = 31 * 17 * 2 * 4
    for idx in ctx.indices(total_b):
        run("boundary", gen_boundary(idx))
    r.stats["exhaustive_boundary_cases"] = total_b
    # bounded-exhaustive format strings
    L = ctx.params["using_len"]
    fmts = []
    for n in range(1, L + 1):
        for tup in itertools.product(USING_ALPHABET, repeat=n):
            fmts.append("".join(tup))
    r.stats["exhaustive_format_len"] = L
    frng = random.Random("C16fmt/%d" % ctx.seed)
    for i in ctx.indices(len(fmts)):
        lr = random.Random("C16fmt/%d/%d" % (ctx.seed, i))
        run("using_exhaustive", gen_using(lr, fmts[i]))
    n = ctx.params["n"] // ctx.n
    for _ in range(n):
        x = rng.random()
        if x < 0.6:
            run("history", gen_history(rng))
        elif x < 0.8:
            run("using", gen_using(rng))
        else:
            run("using_history", gen_using_history(rng))
    w.close()
    return r


RULE = ("histories of 1-12 PRINT / LPRINT / PRINT # statements interleaved over screen, LPT1 and two files (numbers of all five types and signs, strings of length 0-30 incl. "
        "embedded CR/LF/CRLF, separators in leading, trailing and consecutive positions); the exhaustive column boundary set (start column 0..30 x item width 0..16 x separator x device); "
        "PRINT USING with all format strings up to length N over {# , . \\\\ space ! a} (N=4 quick, 5 thorough) and random longer ones; the bytes on every device are compared with the column model; "
        "non-trivial = every program (each prints on at least one device); distinct by program text")


def main(tier, seed):
    params = {"n": 12000 if tier == "quick" else 300000, "using_len": 4 if tier == "quick" else 5}
    return driver.run_check(
        PID, shard, params, tier, seed,
        min_evaluations=10000 if tier == "quick" else 250000,
        rule=RULE,
        assumptions=["an embedded CR or LF may be written raw or as a CR LF pair (the statement only fixes its column effect); both are accepted",
                     "PRINT USING: numbers wider than their field, commas outside thousands positions, rounding ties and stray . , outside fields are outside the model and discarded",
                     "LPRINT is observed on the in-memory printer device of the harness"],
    )


def replay(rec):
    driver.build()
    c = rec["case"]
    w = Worker()
    rep = w.run(c["src"], want=["files"], files={}, budget=200000)
    w.close()
    stmts = [tuple(s) for s in c["stmts"]]
    def fix(s):
        if s[0] == "print":
            return ("print", s[1], [tuple(x) if x[0] != "e" else ("e", x[1], Fraction(x[2]) if x[1] in "!#" else x[2]) for x in s[2]])
        return ("using", s[1], s[2], [(t, Fraction(v) if t in "!#" else v) for t, v in s[3]], s[4])
    v = judge([fix(s) for s in stmts], rep)
    if v is None or v[0] in ("DISCARD", "INCONCLUSIVE"):
        print("replay: case now passes")
        return 0
    print("replay: " + v[1])
    print("VIOLATION property=%s replay=(replayed)" % PID)
    return 1
