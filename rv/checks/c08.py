"""C08 A program the checker accepts always compiles and runs to a BASIC-level outcome.

Oracle: crash monitor around generate_instructions + interpret (caught panic + site, worker death);
the outcome must be normal termination or a run-time error with a code and a position."""
import random

from .. import corpus, driver
from ..btext import tokenize, untokenize
from ..driver import ShardResult, h64
from ..gen import Gen
from ..gen_full import FullGen
from ..lang import emit_program
from ..worker import Worker, outcome
from .common import panic_sig

PID = "C08"

EXPR_MUT = ["0", "-1", "32767", "40000", "2147483647", "0.5", '""', '"x"', "1 / 0", "A%", "LEN(S$)", "(1)", "-(2)", "1E"]


def mutate_expr(rng, text):
    """Expression-level mutation of a corpus program: replaces one number or string literal."""
    toks = tokenize(text)
    idx = [i for i, t in enumerate(toks) if t[0] in ("num", "str")]
    if not idx:
        return text
    i = rng.choice(idx)
    if toks[i][0] == "num":
        toks[i] = ["num", rng.choice(["0", "-1", "1", "32767", "32768", "65536", "255", "256", "0.5", "2147483647", "3000000000", "(1 / 0)", "100000"])]
    else:
        toks[i] = ["str", rng.choice(['""', '"x"', '"12"', '"a,b"', '"' + "y" * 300 + '"'])]
    return untokenize(toks)


def make_case(rng, texts, accepted):
    """Returns (kind, src, stdin, uses_files, lpt1)."""
    x = rng.random()
    if x < 0.62:
        g = FullGen(rng, size=rng.choice([6, 10, 16]))
        src = g.program()
        lpt1 = "shipped" if g.uses_lprint and rng.random() < 0.5 else None
        return ("full", src, g.stdin_bytes(), True, lpt1, sorted(g.features))
    if x < 0.74:
        g = Gen(rng, max_depth=rng.choice([2, 3, 4]), size=rng.choice([6, 10]))
        prog = g.program()
        src, _ = emit_program(prog["main"])
        return ("core", src, "", False, None, sorted(g.kinds))
    if x < 0.86:
        # small programs that use one name in many roles; the rejected ones are C07's business, the accepted ones must compile and run
        from .c07 import gen_semantic_soup
        return ("semantic", gen_semantic_soup(rng), "1\n2\n", False, None, [])
    fg = FullGen(rng)
    if x < 0.93:
        return ("corpus", rng.choice(accepted), fg.stdin_bytes(), True, None, [])
    return ("corpus_mutation", mutate_expr(rng, rng.choice(accepted)), fg.stdin_bytes(), True, None, [])


def judge(rep):
    """None (held) | ("INCONCLUSIVE", why) | ("REJECTED", kind) | (sig, text)."""
    oc = outcome(rep)
    if oc[0] in ("parse_error", "lint_error"):
        return ("REJECTED", oc[0] + ":" + oc[1])
    if oc[0] == "died":
        return ("died", "worker died (exit %s): stack overflow or abort" % (oc[1],))
    if oc[0] == "panic":
        p = rep["panic"]
        if p.get("phase") in ("parse", "lint"):
            return ("REJECTED", "panic_in_" + p.get("phase"))   # C07's business
        return (panic_sig(p), "internal failure: panic in %s: %s at %s:%s" % (p.get("phase"), p.get("msg"), p.get("file"), p.get("line")))
    if oc[0] in ("watchdog", "harness_error"):
        return ("INCONCLUSIVE", oc[0])
    if oc[0] == "budget":
        return ("INCONCLUSIVE", "instruction_budget")
    if oc[0] == "error":
        res = rep["run"]["result"]
        if res.get("code") is None:
            return ("no_error_code:" + str(res.get("kind")), "run-time error %s has no error code" % res.get("err"))
        if not res.get("pos"):
            return ("no_position:" + str(res.get("kind")), "run-time error %s carries no position" % res.get("err"))
        return None
    if oc[0] == "ok":
        return None
    return ("INCONCLUSIVE", oc[0])


def shard(ctx):
    r = ShardResult()
    rng = ctx.rng
    w = Worker()
    texts = corpus.load()
    accepted, _ = corpus.classify(w, texts)
    # environment-dependent built-ins are out of scope: INKEY$ polls the real terminal
    accepted = [t for t in accepted if "INKEY$" not in t.upper()]
    n = ctx.params["n"] // ctx.n
    tried = 0
    # every accepted corpus program once (sharded), then the random workload
    queue = [("corpus", accepted[i], FullGen(rng).stdin_bytes(), True, None, []) for i in ctx.indices(len(accepted))]
    while (r.evaluations < n or queue) and tried < n * 3 + len(accepted):
        tried += 1
        if queue:
            kind, src, stdin, uses_files, lpt1, feats = queue.pop()
        else:
            kind, src, stdin, uses_files, lpt1, feats = make_case(rng, texts, accepted)
        if "INKEY$" in src.upper():
            continue
        rep = w.run(src, want=["files"] if uses_files else [], stdin=stdin, files={} if uses_files else None, budget=ctx.params["budget"], lpt1=lpt1)
        v = judge(rep)
        case = {"kind": kind, "src": src, "stdin": stdin, "files": uses_files, "lpt1": lpt1}
        if v is not None and v[0] == "REJECTED":
            r.count(kind, group="rejected_by_kind")
            r.count(v[1], group="rejection_kinds")
            continue
        if v is not None and v[0] == "INCONCLUSIVE":
            r.inconc(v[1])
            continue
        r.evaluations += 1
        r.count(kind, group="workload")
        oc = outcome(rep)
        r.count(oc[0] if oc[0] != "error" else "error_%s" % oc[1], group="outcomes")
        for f in feats:
            r.count(f, group="features")
        if oc[0] == "error" or len(feats) >= 3:
            r.nontrivial.add(h64(src + "\0" + stdin))
        if v is not None:
            r.fail("C08:" + v[0], v[1] + " | program:\n" + src[:700], case)
        elif len(r.samples) < 3 and kind == "full" and len(src) < 700 and oc[0] == "error":
            r.sample({"kind": kind, "src": src, "stdin": stdin, "outcome": list(oc), "steps": rep["run"]["steps"]})
    r.stats["worker_restarts"] = w.restarts
    w.close()
    return r


RULE = ("accepted programs from a type-directed generator over the whole statement and built-in repertoire (file statements on a per-worker "
        "scratch directory, wild argument values, random stdin bytes incl. invalid UTF-8), core-grammar programs, and every accepted program "
        "embedded in the repository (as is and with literal-level mutations); each is compiled and run by the real code under a crash monitor; "
        "only accepted programs count; non-trivial = the run ended in a BASIC run-time error or used >= 3 distinct feature groups; distinct by (program, stdin)")


def main(tier, seed):
    params = {"n": 24000 if tier == "quick" else 800000, "budget": 100000}
    return driver.run_check(
        PID, shard, params, tier, seed,
        min_evaluations=8000 if tier == "quick" else 300000,
        rule=RULE,
        assumptions=["INKEY$ (polls the real terminal) is excluded as environment-dependent",
                     "screen statements run against the harness's null screen; LPRINT runs against an in-memory device, and in half of the LPRINT-bearing cases against the shipped LPT1 device",
                     "an exhausted instruction budget is inconclusive (a BASIC program may loop forever)"],
    )


def replay(rec):
    driver.build()
    c = rec["case"]
    w = Worker()
    rep = w.run(c["src"], want=["files"] if c.get("files") else [], stdin=c.get("stdin", ""), files={} if c.get("files") else None, budget=100000, lpt1=c.get("lpt1"))
    w.close()
    v = judge(rep)
    if v is None or v[0] in ("INCONCLUSIVE", "REJECTED"):
        print("replay: case now passes (%s)" % (outcome(rep),))
        return 0
    print("replay: " + v[1])
    print("VIOLATION property=%s replay=(replayed)" % PID)
    return 1
