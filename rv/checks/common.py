"""Signature helpers shared by the crash-monitoring checks."""
import re


def norm_msg(msg):
    """Normalises a panic message: numbers and quoted payloads erased, so that the site, not the input, is the key."""
    m = msg or ""
    m = re.sub(r'"[^"]*"', '"_"', m)
    m = re.sub(r"\d+", "#", m)
    m = re.sub(r"\s+", " ", m)
    return m[:90]


def panic_sig(p):
    f = (p.get("file") or "?").replace("/repo/", "")
    return "panic:%s:%s:%s" % (p.get("phase"), f, norm_msg(p.get("msg")))
