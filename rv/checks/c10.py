"""C10 Expressions group by standard precedence; literals keep exact value and type.

Oracle: (a) an independent precedence climber produces the standard full parenthesisation of every chain;
the real parse tree (rendered by the worker from the public Expression enum) must have that shape, and a
chain whose shape differs is adjudicated by evaluating chain and parenthesisation on assignment vectors
with the real interpreter; (b) the rule table of the property for literals."""
import itertools
import random
import struct
from fractions import Fraction

from .. import driver
from ..driver import ShardResult, h64
from ..worker import Worker, outcome

PID = "C10"
BINOPS = ["*", "/", "MOD", "+", "-", "=", "<>", "<", "<=", ">", ">=", "AND", "OR"]
PREC = {"OR": 1, "AND": 2, "NOT": 3, "=": 4, "<>": 4, "<": 4, "<=": 4, ">": 4, ">=": 4, "+": 5, "-": 5, "MOD": 6, "*": 7, "/": 7, "NEG": 8}
UNARY = ["", "-", "NOT ", "NOT -", "- -"]
VARS = ["A%", "B%", "C%", "D%", "E%", "F%", "G%"]


# ---- reference grouping (precedence climbing over a token list) ---------------------------------

def tokens_of(chain):
    """chain: list of items: ('un', text) | ('opnd', name) | ('bin', op) | ('(',) | (')',)"""
    return chain


class Climber:
    def __init__(self, toks):
        self.t = toks
        self.i = 0

    def peek(self):
        return self.t[self.i] if self.i < len(self.t) else None

    def next(self):
        x = self.t[self.i]
        self.i += 1
        return x

    def expr(self, min_prec):
        left = self.unary()
        while True:
            p = self.peek()
            if p is None or p[0] != "bin" or PREC[p[1]] < min_prec:
                return left
            op = self.next()[1]
            right = self.expr(PREC[op] + 1)
            left = ("bin", op, left, right)

    def unary(self):
        p = self.peek()
        if p[0] == "un":
            self.next()
            if p[1] == "-":
                # unary minus binds tighter than every binary operator
                return ("un", "NEG", self.unary())
            # NOT binds weaker than the relational operators
            return ("un", "NOT", self.expr(PREC["NOT"] + 1))
        return self.atom()

    def atom(self):
        p = self.next()
        if p[0] == "(":
            e = self.expr(1)
            self.next()
            return ("par", e)
        return ("var", p[1])


def render(e):
    if e[0] == "var":
        return e[1]
    if e[0] == "par":
        return "[" + render(e[1]) + "]"
    if e[0] == "un":
        return "(%s %s)" % (e[1], render(e[2]))
    return "(%s %s %s)" % (render(e[2]), e[1], render(e[3]))


def basic_full(e):
    """BASIC text of the fully parenthesised expression."""
    if e[0] == "var":
        return e[1]
    if e[0] == "par":
        return "(" + basic_full(e[1]) + ")"
    if e[0] == "un":
        return "(" + ("-" if e[1] == "NEG" else "NOT ") + basic_full(e[2]) + ")"
    return "(" + basic_full(e[2]) + " " + e[1] + " " + basic_full(e[3]) + ")"


def chain_text(toks, tight=False):
    """tight: no blank between an operator keyword (NOT, AND, OR, MOD, ...) and a following parenthesis."""
    out = []
    for k, t in enumerate(toks):
        before_paren = tight and k + 1 < len(toks) and toks[k + 1][0] == "("
        if t[0] == "un":
            out.append("-" if t[1] == "-" else ("NOT" if before_paren else "NOT "))
        elif t[0] == "opnd":
            out.append(t[1])
        elif t[0] == "bin":
            out.append(" " + t[1] + ("" if before_paren else " "))
        else:
            out.append(t[0])
    return "".join(out)


def make_chain(unaries, binops, paren=None, paren_un=()):
    """unaries: list (len n+1) of unary prefixes (tuples of '-'/'NOT'); binops: list (len n); paren: (i, j) operand span;
    paren_un: unary operators applied to the parenthesised group."""
    toks = []
    n = len(binops)
    for k in range(n + 1):
        if paren and paren[0] == k:
            for u in paren_un:
                toks.append(("un", u))
            toks.append(("(",))
        for u in unaries[k]:
            toks.append(("un", u))
        toks.append(("opnd", VARS[k]))
        if paren and paren[1] == k:
            toks.append((")",))
        if k < n:
            toks.append(("bin", binops[k]))
    return toks


def enumerate_chains(max_ops):
    """All chains whose total operator count (binary + unary) is <= max_ops, without parentheses."""
    un_choices = [(), ("-",), ("NOT",), ("NOT", "-"), ("-", "-"), ("NOT", "NOT"), ("-", "NOT")]
    for nb in range(1, max_ops + 1):
        for binops in itertools.product(BINOPS, repeat=nb):
            left = max_ops - nb
            for unaries in itertools.product(un_choices, repeat=nb + 1):
                if sum(len(u) for u in unaries) > left:
                    continue
                # "- NOT x" is not valid BASIC (NOT binds weaker than unary minus)
                if any(u == ("-", "NOT") for u in unaries):
                    continue
                yield (unaries, binops)


VECTORS = None


def vectors(rng):
    global VECTORS
    if VECTORS is None:
        vs = []
        base = [[1, 2, 3, 4, 5, 6, 7], [7, 3, 2, 5, 1, 4, 6], [-1, 0, -1, 0, -1, 0, -1], [0, -1, 0, -1, 0, -1, 0],
                [2, 2, 2, 2, 2, 2, 2], [8, 4, 2, 1, 16, 32, 64], [-3, 5, -7, 2, -1, 4, -9], [100, 7, 3, 50, 9, 11, 13],
                [32767, 1, 2, 32767, 1, 2, 1], [-32768, 1, -1, 2, -2, 1, 1], [0, 0, 0, 0, 0, 0, 0], [1, 0, 1, 0, 1, 0, 1],
                [5, -1, 0, 5, -1, 0, 5], [12, 5, 7, 3, 2, 9, 4], [1, 1, 1, 1, 1, 1, 1], [-2, -4, -8, -16, 3, 5, 7]]
        vs += base
        r = random.Random(12345)
        for _ in range(16):
            vs.append([r.choice([-9, -5, -2, -1, 0, 1, 2, 3, 4, 6, 8, 10, 16, 255, 1000]) for _ in range(7)])
        VECTORS = vs
    return VECTORS


def adjudicate(w, ctext, full, rng):
    """Evaluates the chain and its standard parenthesisation on the assignment vectors with the real interpreter.
    Returns (verdict, detail): verdict in 'same' | 'differs' | 'inconclusive'."""
    lines = []
    vs = vectors(rng)
    for v in vs:
        assign = " : ".join("%s = %d" % (VARS[k], v[k]) for k in range(7))
        lines.append("ON ERROR GOTO H1")
        lines.append(assign)
    # one program per vector pair keeps error outcomes separable
    usable = 0
    for v in vs:
        assign = "\n".join("%s = %d" % (VARS[k], v[k]) for k in range(7))
        ra = w.run(assign + "\nPRINT " + ctext + "\n")
        rb = w.run(assign + "\nPRINT " + full + "\n")
        oa, ob = outcome(ra), outcome(rb)
        if oa[0] in ("lint_error", "parse_error") or ob[0] in ("lint_error", "parse_error"):
            if oa[:2] != ob[:2]:
                return "differs", "verdicts differ: %s vs %s" % (oa, ob)
            return "same", "both rejected"
        if oa[0] not in ("ok", "error") or ob[0] not in ("ok", "error"):
            continue
        usable += 1
        if oa != ob or ra["run"]["stdout"] != rb["run"]["stdout"]:
            return "differs", "with %s: chain gives %s %r, parenthesised form gives %s %r" % (
                dict(zip(VARS, v)), oa, ra["run"]["stdout"], ob, rb["run"]["stdout"])
    if usable < 8:
        return "inconclusive", "only %d usable vectors" % usable
    return "same", "%d vectors agree" % usable


# ---- literals ------------------------------------------------------------------------------------

def to_f32(x):
    return struct.unpack("<f", struct.pack("<f", x))[0]


def nearest_f32(x):
    """The SINGLE nearest to the exact rational x (ties to even), without going through a DOUBLE."""
    x = Fraction(x)
    c = to_f32(float(x))
    best = None
    for cand in (c, to_f32_next(c, 1), to_f32_next(c, -1)):
        d = abs(Fraction(cand) - x)
        key = (d, struct.unpack("<I", struct.pack("<f", cand))[0] & 1)
        if best is None or key < best[0]:
            best = (key, cand)
    return best[1]


def to_f32_next(f, direction):
    bits = struct.unpack("<i", struct.pack("<f", f))[0]
    if f == 0:
        return struct.unpack("<f", struct.pack("<i", 1))[0] * direction
    bits += direction if f > 0 else -direction
    return struct.unpack("<f", struct.pack("<i", bits))[0]


def expected_int(v):
    if -32768 <= v <= 32767:
        return "I:%d" % v
    if -2147483648 <= v <= 2147483647:
        return "L:%d" % v
    return "D:%r" % float(v)


def literal_cases(tier, rng):
    """Yields (source text of the literal, expected rendering or 'ERR')."""
    vals16 = range(0, 65536) if tier == "thorough" else sorted(set([0, 1, 7, 8, 9, 10, 255, 256, 32766, 32767, 32768, 32769, 65534, 65535] + [rng.randrange(65536) for _ in range(3000)]))
    for v in vals16:
        yield str(v), expected_int(v)
        yield "-" + str(v), expected_int(-v)
        s = v - 0x10000 if v >= 0x8000 else v
        yield "&H%X" % v, "I:%d" % s
        yield "&O%o" % v, "I:%d" % s
        if v % 5 == 0:
            # leading zeros of every length: the value and its narrowest type do not change
            z = "0" * (1 + (v // 5) % 24)
            yield z + str(v), expected_int(v)
            yield "-" + z + str(v), expected_int(-v)
            yield "&H" + z + "%X" % v, "I:%d" % s
            yield "&O" + z + "%o" % v, "I:%d" % s
        if v % 7 == 0:
            yield "&h%x" % v, "I:%d" % s
            yield "&H%06X" % v, "I:%d" % s
            yield "%07d" % v, expected_int(v)
            yield "&o%o" % v, "I:%d" % s
            yield "-&H%X" % v, ("I:%d" % -s) if s != -32768 else "L:32768"
    n32 = 200000 if tier == "thorough" else 6000
    bound = [32767, 32768, 65535, 65536, 2147483647, 2147483648, 4294967295, 4294967296, 2147483646, 99999999999, 10 ** 15]
    for i in range(n32):
        v = bound[i] if i < len(bound) else rng.randrange(0, 1 << 32)
        yield str(v), expected_int(v)
        yield "-" + str(v), expected_int(-v)
        if i % 3 == 0:
            z = "0" * (1 + i % 20)
            yield z + str(v), expected_int(v)
        if v < (1 << 32):
            if v <= 0xFFFF:
                s = v - 0x10000 if v >= 0x8000 else v
                yield "&H%X" % v, "I:%d" % s
            else:
                s = v - (1 << 32) if v >= (1 << 31) else v
                yield "&H%X" % v, "L:%d" % s
                yield "&O%o" % v, "L:%d" % s
                # negated: a LONG literal stays a LONG (only -32768 becomes an INTEGER, 2147483648 a DOUBLE)
                neg = "I:-32768" if -s == -32768 else ("L:%d" % -s if -s <= 2147483647 else "D:%r" % float(-s))
                yield "-&H%X" % v, neg
                yield "-&O%o" % v, neg
    # fractions
    nf = 40000 if tier == "thorough" else 3000
    for i in range(nf):
        whole = rng.choice([0, 0, 1, 2, 12, 100, 32767, 65536, 123456])
        fd = rng.randrange(1, 7)
        frac = "".join(rng.choice("0123456789") for _ in range(fd))
        text = "%d.%s" % (whole, frac)
        if rng.random() < 0.2 and whole == 0:
            text = "." + frac
        val = float(text)
        yield text, "S:%r" % to_f32(val)
        yield text + "#", "D:%r" % val
        yield "-" + text, "S:%r" % to_f32(-val)
        yield "-" + text + "#", "D:%r" % -val
    # fractional and # literals at the whole-number type boundaries, plain and directly after a unary minus: they keep their
    # floating type (the one value 2147483648 written with a fraction or # after a minus is the pinned finding KF-C10-1)
    for whole in (32767, 32768, 32769, 65535, 65536, 2147483647, 2147483649, 4294967295, 4294967296):
        for frac in ("0", "5", "25", "000"):
            text = "%d.%s" % (whole, frac)
            yield text + "#", "D:%r" % float(text)
            yield "-" + text + "#", "D:%r" % -float(text)
            if whole < 100000:
                yield text, "S:%r" % to_f32(float(text))
                yield "-" + text, "S:%r" % to_f32(-float(text))
    for frac in ("5", "25", "125"):
        yield "2147483648.%s#" % frac, "D:%r" % float("2147483648." + frac)
        yield "-2147483648.%s#" % frac, "D:%r" % -float("2147483648." + frac)
    # SINGLE literals with many digits that sit next to the midpoint of two neighbouring SINGLEs: the literal denotes the
    # SINGLE nearest to the written value (a detour through a DOUBLE rounds twice and picks the other neighbour)
    for i in range(60 if tier == "quick" else 2000):
        base = rng.choice([1.0, 2.0, 16777216.0, 0.5, 1024.0, 3.0, 100.0, 0.125])
        f = to_f32(base * (1 + rng.randrange(0, 1 << 20) / float(1 << 23)))
        g = to_f32_next(f, 1)
        mid = (Fraction(f) + Fraction(g)) / 2
        eps = Fraction(1, 10 ** rng.choice([25, 28, 32]))
        x = mid + eps * rng.choice([1, -1])
        # the exact decimal expansion of x (it terminates: x is a dyadic rational plus a power of ten)
        whole = int(x)
        frac = x - whole
        digits = ""
        while frac and len(digits) < 60:
            frac *= 10
            d = int(frac)
            digits += str(d)
            frac -= d
        if frac or not digits:
            continue
        text = "%d.%s" % (whole, digits)
        yield text, "S:%r" % nearest_f32(Fraction(text))
    # literals that no type can hold must be rejected, never become infinity
    yield "1" + "0" * 45 + ".5", "REJECT_OVERFLOW"
    yield "9" * 40 + ".25", "REJECT_OVERFLOW"
    yield "1" + "0" * 400, "REJECT_OVERFLOW"
    yield "1" + "0" * 400 + ".5#", "REJECT_OVERFLOW"
    # the largest ones that do fit
    yield "3" + "0" * 38 + ".5", "S:%r" % to_f32(float("3" + "0" * 38 + ".5"))
    yield "1" + "0" * 300, "D:%r" % float("1" + "0" * 300)


def norm_lit(s):
    """Normalises the worker's rendering of a float literal (-0.0 vs 0.0 carries no meaning for a literal)."""
    if s in ("S:-0.0", "D:-0.0"):
        return s.replace("-", "")
    return s


def shard(ctx):
    r = ShardResult()
    rng = ctx.rng
    w = Worker()
    tier = ctx.tier
    # ---- part 1: grouping ----
    max_ops = ctx.params["max_ops"]
    chains = []
    tight_chains = set()      # indices of chains rendered without the blank before a parenthesis
    for idx, (unaries, binops) in enumerate(enumerate_chains(max_ops)):
        if idx % ctx.n != ctx.k:
            continue
        chains.append(make_chain(unaries, binops))
        nb = len(binops)
        # parentheses around every contiguous proper sub-chain of at least two operands; the same with a unary operator
        # applied to the group, and with no blank between an operator keyword and the parenthesis ("NOT(", "AND(")
        if nb >= 2:
            for i in range(nb + 1):
                for j in range(i + 1, nb + 1):
                    if (i, j) != (0, nb):
                        chains.append(make_chain(unaries, binops, (i, j)))
                        tight_chains.add(len(chains))
                        chains.append(make_chain(unaries, binops, (i, j)))
                        for pu in (("NOT",), ("-",)):
                            if pu == ("NOT",) and any(u and u[-1] == "-" for u in [unaries[i]]):
                                continue
                            if (idx + i + j) % 2 == 0:
                                tight_chains.add(len(chains))
                            chains.append(make_chain(unaries, binops, (i, j), pu))
        elif nb == 1:
            # a whole parenthesised pair under a unary operator, followed by nothing: NOT(A + B)
            pass
    # random longer chains
    crng = random.Random("C10/%d/%d" % (ctx.seed, ctx.k))
    for _ in range(ctx.params["random_chains"] // ctx.n):
        nb = crng.randrange(max_ops + 1, 7)
        binops = [crng.choice(BINOPS) for _ in range(nb)]
        unaries = [crng.choice([(), (), (), ("-",), ("NOT",)]) for _ in range(nb + 1)]
        paren = None
        pu = ()
        if crng.random() < 0.5:
            i = crng.randrange(nb)
            j = crng.randrange(i + 1, nb + 1)
            if (i, j) != (0, nb):
                paren = (i, j)
                pu = crng.choice([(), (), ("NOT",), ("-",)])
                if crng.random() < 0.5:
                    tight_chains.add(len(chains))
        chains.append(make_chain(unaries, binops, paren, pu))
    r.stats["exhaustive_max_operators"] = max_ops
    B = 120
    for start in range(0, len(chains), B):
        chunk = chains[start:start + B]
        texts = [chain_text(c, tight=(start + q) in tight_chains) for q, c in enumerate(chunk)]
        refs = [Climber(c).expr(1) for c in chunk]
        src = "".join("PRINT %s\n" % t for t in texts)
        rep = w.run(src, want=["exprs"], stop="parse")
        if outcome(rep)[0] == "parse_error" or "exprs" not in rep or len(rep["exprs"]) != len(chunk):
            # one chain per program
            shapes = []
            for t in texts:
                rp = w.run("PRINT %s\n" % t, want=["exprs"], stop="parse")
                if "exprs" in rp and len(rp["exprs"]) == 1:
                    shapes.append(rp["exprs"][0])
                else:
                    shapes.append(("REJECT", outcome(rp), rp.get("parse")))
        else:
            shapes = rep["exprs"]
        for c, t, ref, shape in zip(chunk, texts, refs, shapes):
            r.evaluations += 1
            r.count("chains", group="parts")
            nontrivial = sum(1 for x in c if x[0] in ("bin", "un")) >= 2
            if nontrivial:
                r.nontrivial.add(h64(t))
            if isinstance(shape, tuple):
                r.fail("C10:chain_rejected:%s" % (shape[1][1] if len(shape[1]) > 1 else shape[1][0]), "chain %r rejected by the parser: %s" % (t, shape[2]), {"chain": t})
                continue
            want = render(ref)
            if shape == want:
                r.count("shape_equal")
                if len(r.samples) < 2 and nontrivial and rng.random() < 0.002:
                    r.sample({"chain": t, "parse_tree": shape, "reference_grouping": want})
                continue
            # value adjudication: the property says "evaluated as if"
            r.count("shape_differs_adjudicated")
            verdict, detail = adjudicate(w, t, basic_full(ref), rng)
            if verdict == "differs":
                pair = [x[1] for x in c if x[0] in ("bin", "un")]
                r.fail("C10:grouping:%s" % "_".join(pair[:3]), "chain %r parsed as %s, standard grouping %s: %s" % (t, shape, want, detail), {"chain": t})
            elif verdict == "inconclusive":
                r.inconc("adjudication:" + detail)
            else:
                r.count("shape_differs_value_equivalent")
    # ---- part 2: literals ----
    lrng = random.Random("C10lit/%d" % ctx.seed)
    lits = [c for i, c in enumerate(literal_cases(tier, lrng)) if i % ctx.n == ctx.k]
    B = 200
    for start in range(0, len(lits), B):
        chunk = lits[start:start + B]
        src = "".join("PRINT %s\n" % t for t, _ in chunk)
        rep = w.run(src, want=["exprs"], stop="parse")
        if "exprs" in rep and len(rep["exprs"]) == len(chunk):
            got = rep["exprs"]
        else:
            got = []
            for t, _ in chunk:
                rp = w.run("PRINT %s\n" % t, want=["exprs"], stop="parse")
                if "exprs" in rp and len(rp["exprs"]) == 1:
                    got.append(rp["exprs"][0])
                else:
                    got.append("ERR:" + str(outcome(rp)))
        for (t, exp), g in zip(chunk, got):
            r.evaluations += 1
            r.count("literals", group="parts")
            r.nontrivial.add(h64("lit" + t))
            if exp == "REJECT_OVERFLOW":
                if not (isinstance(g, str) and g.startswith("ERR:('parse_error', 'Overflow'")):
                    r.fail("C10:literal:out_of_range_not_rejected", "literal %s...(%d characters) is beyond every type but gives %s" % (t[:12], len(t), str(g)[:80]), {"literal": t, "expected": exp})
                continue
            g = norm_lit(g)
            exp = norm_lit(exp)
            if g == exp:
                continue
            if g[:2] == exp[:2] and g[:2] in ("S:", "D:"):
                try:
                    if float(g[2:]) == float(exp[2:]):   # two spellings of the same binary value
                        continue
                except ValueError:
                    pass
            kind = "decimal" if t.lstrip("-")[0].isdigit() or t.lstrip("-")[0] == "." else t.lstrip("-")[:2].upper()
            cls = "rejected" if g.startswith("ERR") else "wrong_node"
            mag = ""
            if kind == "decimal" and "." not in t:
                v = abs(int(t))
                mag = ":>u32" if v > 0xFFFFFFFF else (":neg_min" if t.startswith("-") and v in (32768, 2147483648) else "")
            r.fail("C10:literal:%s:%s%s" % (kind, cls, mag), "literal %s parsed as %s, rule says %s" % (t, g, exp), {"literal": t, "expected": exp})
        if start == 0 and len(r.samples) < 3:
            r.sample({"literals": [t for t, _ in chunk[:8]], "parsed_as": got[:8], "rule": [e for _, e in chunk[:8]]})
    # printed value of a sample of literals (end to end)
    sample = [c for c in lits if c[1][0] in "IL"][:: max(1, len(lits) // 400)][:400]
    if sample:
        src = "".join("PRINT %s\n" % t for t, _ in sample)
        rep = w.run(src)
        if outcome(rep) == ("ok",):
            lines = rep["run"]["stdout"].split("\r\n")[:-1]
            for (t, exp), line in zip(sample, lines):
                r.evaluations += 1
                r.count("literal_prints", group="parts")
                v = int(exp[2:])
                if line.strip() != str(v):
                    r.fail("C10:literal_print", "PRINT %s wrote %r, value is %d" % (t, line, v), {"literal": t, "expected": exp})
    w.close()
    return r


RULE = ("part 1: every chain of binary/unary operators over distinct integer variables with at most N operators (N=3 quick, 4 thorough), "
        "each also with parentheses around every contiguous sub-chain, plus random chains of up to 6 binary operators: the parse tree of the "
        "real parser is compared with the standard grouping from an independent precedence climber, and differing shapes are adjudicated by "
        "evaluating both on 32 assignment vectors; part 2: decimal, &H and &O literals (all 16-bit values in the thorough tier, sampled 32-bit, "
        "boundaries, leading zeros, lower case, after unary minus) and fractional literals with and without #, compared with the rule table; "
        "non-trivial = a chain with >= 2 operators or any literal; distinct by source text")


def main(tier, seed):
    params = {"max_ops": 3 if tier == "quick" else 4, "random_chains": 20000 if tier == "quick" else 300000}
    return driver.run_check(
        PID, shard, params, tier, seed,
        min_evaluations=20000 if tier == "quick" else 500000,
        rule=RULE, witness_fn=driver.program_witness,
        assumptions=["value adjudication compares the real interpreter with itself (chain vs its standard parenthesisation), so it needs no reference arithmetic",
                     "the fraction rule of the property (SINGLE unless #) is applied as written, also to literals with more than seven digits"],
    )


def replay(rec):
    driver.build()
    c = rec["case"]
    w = Worker()
    rng = random.Random(1)
    if "chain" in c:
        from ..btext import tokenize
        rp = w.run("PRINT %s\n" % c["chain"], want=["exprs"], stop="parse")
        print("parse tree:", rp.get("exprs"), rp.get("parse"))
        # rebuild tokens from the text
        toks = []
        for t in tokenize(c["chain"]):
            if t[0] == "ws":
                continue
            if t[0] == "word" and t[1].upper() == "NOT":
                toks.append(("un", "NOT"))
            elif t[0] == "word" and t[1].upper() in ("MOD", "AND", "OR"):
                toks.append(("bin", t[1].upper()))
            elif t[0] == "word":
                toks.append(("opnd", t[1]))
            elif t[1] in ("(", ")"):
                toks.append((t[1],))
            elif t[1] == "-" and (not toks or toks[-1][0] in ("bin", "un", "(")):
                toks.append(("un", "-"))
            else:
                toks.append(("bin", t[1]))
        ref = Climber(toks).expr(1)
        want = render(ref)
        print("reference :", want)
        if rp.get("exprs") == [want]:
            print("replay: case now passes")
            return 0
        verdict, detail = adjudicate(w, c["chain"], basic_full(ref), rng)
        print(verdict, detail)
        if verdict == "differs" or "exprs" not in rp:
            print("VIOLATION property=%s replay=(replayed)" % PID)
            return 1
        return 0
    rp = w.run("PRINT %s\n" % c["literal"], want=["exprs"], stop="parse")
    got = norm_lit(rp["exprs"][0]) if rp.get("exprs") else "ERR"
    print("literal %s parsed as %s, rule says %s" % (c["literal"], got, c["expected"]))
    if got != c["expected"]:
        print("VIOLATION property=%s replay=(replayed)" % PID)
        return 1
    return 0
