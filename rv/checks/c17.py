"""C17 String functions satisfy their defining equations.

Oracle: Python's own string operations evaluated on the same arguments (history + executable model).
Workload: bounded-exhaustive over a three-letter alphabet and small counts, plus random printable ASCII."""
import itertools
import random

from .. import driver
from ..driver import ShardResult, h64
from ..util import Packed, lit_str, parse_num_token
from ..worker import Worker, outcome

PID = "C17"
ALPHABET = ["a", "B", " "]
ERR5 = ("err", 5)


def strings_upto(n):
    out = []
    for l in range(n + 1):
        for t in itertools.product(ALPHABET, repeat=l):
            out.append("".join(t))
    return out


# ---- the model -------------------------------------------------------------

def m_left(s, n):
    return ERR5 if n < 0 else ("s", s[:n])


def m_right(s, n):
    if n < 0:
        return ERR5
    return ("s", s[len(s) - n:] if n < len(s) else s)


def m_mid(s, st, ln=None):
    if st <= 0 or (ln is not None and ln < 0):
        return ERR5
    return ("s", s[st - 1:] if ln is None else s[st - 1: st - 1 + ln])


def m_instr(n, s, t):
    if n <= 0:
        return ERR5
    assert t != ""
    return ("n", s.find(t, n - 1) + 1)


def m_ucase(s):
    return ("s", "".join(c.upper() if "a" <= c <= "z" else c for c in s))


def m_lcase(s):
    return ("s", "".join(c.lower() if "A" <= c <= "Z" else c for c in s))


def m_ltrim(s):
    return ("s", s.lstrip(" "))


def m_rtrim(s):
    return ("s", s.rstrip(" "))


def m_space(n):
    return ERR5 if n < 0 else ("s", " " * n)


def m_string(n, ch):
    return ERR5 if n < 0 else ("s", ch * n)


# ---- argument renderings ---------------------------------------------------

def s_forms(s, rng, form):
    """BASIC text of a string argument in the given form; returns (prelude, expr)."""
    if form == "lit":
        return "", lit_str(s)
    if form == "var":
        return "S$ = %s : " % lit_str(s), "S$"
    # nested calls that denote s
    k = rng.randrange(4)
    if k == 0:
        pad = rng.choice(["a", "B ", " aB"])
        return "", "MID$(%s, %d)" % (lit_str(pad + s), len(pad) + 1)
    if k == 1:
        pad = rng.choice(["B", " a", "aa "])
        return "", "LEFT$(%s, %d)" % (lit_str(s + pad), len(s))
    if k == 2:
        cut = rng.randrange(len(s) + 1)
        return "", "(%s + %s)" % (lit_str(s[:cut]), lit_str(s[cut:]))
    pad = rng.choice(["B", " a"])
    return "", "RIGHT$(%s, %d)" % (lit_str(pad + s), len(s))


def n_forms(n, rng, form):
    if form == "lit":
        return "", str(n)
    if form == "var":
        v = rng.choice(["N%", "N&"])
        return "%s = %d : " % (v, n), v
    if n >= 0 and rng.random() < 0.6:
        return "", "LEN(%s)" % lit_str("".join(rng.choice("aB ") for _ in range(n)))
    a = rng.randrange(-3, 4)
    return "", "(%d + %d)" % (n - a, a) if a >= 0 else "(%d - %d)" % (n - a, -a)


def mk(family, prelude, expr, exp, nontrivial):
    kind = exp[0]
    if kind == "s" or (kind == "err" and family not in ("instr2", "instr3", "len", "val")):
        stmt = prelude + 'PRINT "<" + ' + expr + ' + ">"'
        shape = "s"
    else:
        stmt = prelude + "PRINT " + expr
        shape = "n"
    return {"f": family, "stmt": stmt, "exp": list(exp), "shape": shape, "nt": nontrivial}


def gen_cases(tier, rng_seed):
    """The deterministic global list of cases (every shard generates the same list and takes a slice)."""
    rng = random.Random(rng_seed)
    L = 3 if tier == "quick" else 5
    SS = strings_upto(L)
    NS = list(range(-1, 8))
    needles = [t for t in strings_upto(3) if t]
    forms = ["lit", "var", "nest"]
    cases = []

    def form():
        return rng.choice(forms)

    for s in SS:
        for n in NS:
            for fam, model, name in (("left", m_left, "LEFT$"), ("right", m_right, "RIGHT$")):
                p1, e1 = s_forms(s, rng, form())
                p2, e2 = n_forms(n, rng, form())
                exp = model(s, n)
                cases.append(mk(fam, p1 + p2, "%s(%s, %s)" % (name, e1, e2), exp, exp[0] == "err" or exp[1] not in ("", s)))
            p1, e1 = s_forms(s, rng, form())
            p2, e2 = n_forms(n, rng, form())
            exp = m_mid(s, n)
            cases.append(mk("mid2", p1 + p2, "MID$(%s, %s)" % (e1, e2), exp, exp[0] == "err" or exp[1] not in ("", s)))
            # LEFT$(s,n) + MID$(s,n+1) = s
            if n >= 0:
                cases.append(mk("eq_left_mid", "", "((LEFT$(%s, %d) + MID$(%s, %d)) = %s)" % (lit_str(s), n, lit_str(s), n + 1, lit_str(s)), ("n", -1), 0 < n < len(s)))
            for m in NS:
                if tier == "quick" and rng.random() < 0.5:
                    continue
                p1, e1 = s_forms(s, rng, form())
                p2, e2 = n_forms(n, rng, form())
                p3, e3 = n_forms(m, rng, "lit" if p2 else form())
                exp = m_mid(s, n, m)
                cases.append(mk("mid3", p1 + p2 + p3, "MID$(%s, %s, %s)" % (e1, e2, e3), exp, exp[0] == "err" or exp[1] not in ("", s)))
        for t in needles:
            if tier == "quick" and rng.random() < 0.5:
                continue
            p1, e1 = s_forms(s, rng, form())
            f2 = form()
            p2, e2 = s_forms(t, rng, "lit" if (p1 and f2 == "var") else f2)
            exp = m_instr(1, s, t)
            cases.append(mk("instr2", p1 + p2, "INSTR(%s, %s)" % (e1, e2), exp, exp[1] != 0))
            for n in NS:
                if rng.random() < (0.8 if tier == "quick" else 0.0):
                    continue
                p0, e0 = n_forms(n, rng, form())
                exp = m_instr(n, s, t)
                cases.append(mk("instr3", p0, "INSTR(%s, %s, %s)" % (e0, lit_str(s), lit_str(t)), exp, exp[0] == "err" or exp[1] != 0))
        for fam, model, name in (("ucase", m_ucase, "UCASE$"), ("lcase", m_lcase, "LCASE$"), ("ltrim", m_ltrim, "LTRIM$"), ("rtrim", m_rtrim, "RTRIM$")):
            p1, e1 = s_forms(s, rng, form())
            exp = model(s)
            cases.append(mk(fam, p1, "%s(%s)" % (name, e1), exp, exp[1] != s))
    # INSTR over a two-letter alphabet: long hays with self-overlapping needles (partial matches that
    # fail inside the true first occurrence), every start position
    HL = 6 if tier == "quick" else 9
    hays = ["".join(t) for k in range(1, HL + 1) for t in itertools.product("ab", repeat=k)]
    ndl = ["".join(t) for k in range(1, 5) for t in itertools.product("ab", repeat=k)]
    for s in hays:
        for t in ndl:
            if len(t) > len(s):
                continue
            exp = m_instr(1, s, t)
            cases.append(mk("instr_overlap", "", "INSTR(%s, %s)" % (lit_str(s), lit_str(t)), exp, exp[1] > 1))
            n = rng.randrange(1, len(s) + 1)
            exp = m_instr(n, s, t)
            cases.append(mk("instr_overlap", "", "INSTR(%d, %s, %s)" % (n, lit_str(s), lit_str(t)), exp, exp[1] > n))
    # LTRIM$ / RTRIM$ remove blanks only: a TAB is an ordinary character
    for k in range(1, 5):
        for t in itertools.product(" \tx", repeat=k):
            st = "".join(t)
            if "\t" not in st:
                continue
            for fam, model, name in (("ltrim", m_ltrim, "LTRIM$"), ("rtrim", m_rtrim, "RTRIM$")):
                exp = model(st)
                cases.append(mk(fam + "_tab", "", "%s(%s)" % (name, lit_str(st)), exp, exp[1] != st))
    # LEN(a + b) = LEN(a) + LEN(b)
    pairs = [(a, b) for a in SS for b in SS]
    if tier == "quick":
        pairs = rng.sample(pairs, min(len(pairs), 1200))
    for a, b in pairs:
        cases.append(mk("len", "", "LEN(%s + %s)" % (lit_str(a), lit_str(b)), ("n", len(a) + len(b)), bool(a) and bool(b)))
    for n in NS:
        for f in forms:
            p, e = n_forms(n, rng, f)
            cases.append(mk("space", p, "SPACE$(%s)" % e, m_space(n), n != 0))
            cases.append(mk("string_code", p, "STRING$(%s, 32)" % e, m_string(n, " "), n != 0))
            cases.append(mk("string_code", p, "STRING$(%s, 66)" % e, m_string(n, "B"), n != 0))
            cases.append(mk("string_str", p, "STRING$(%s, %s)" % (e, lit_str("aB")), m_string(n, "a"), n != 0))
        if n >= 0:
            cases.append(mk("space_eq_string", "", "(SPACE$(%d) = STRING$(%d, 32))" % (n, n), ("n", -1), n > 0))
            cases.append(mk("len_space", "", "LEN(SPACE$(%d))" % n, ("n", n), n > 0))
    # VAL(STR$(k)) = k
    if tier == "quick":
        ks = sorted(set([-32768, -32767, -1, 0, 1, 32766, 32767] + [rng.randrange(-32768, 32768) for _ in range(3000)]))
    else:
        ks = list(range(-32768, 32768))
    for k in ks:
        cases.append(mk("val", "K% = " + str(k) + " : ", "VAL(STR$(K%))", ("n", k), k != 0))
    nl = 1500 if tier == "quick" else 40000
    for _ in range(nl):
        k = rng.choice([rng.randrange(-2147483648, 2147483648), rng.choice([-2147483648, 2147483647, 32768, -32769, 65536])])
        cases.append(mk("val", "K& = " + str(k) + " : ", "VAL(STR$(K&))", ("n", k), True))
    # random longer printable-ASCII strings
    printable = [chr(c) for c in range(32, 127) if chr(c) != '"']
    nr = 2500 if tier == "quick" else 120000
    for _ in range(nr):
        s = "".join(rng.choice(printable) for _ in range(rng.randrange(0, 61)))
        fam = rng.choice(["left", "right", "mid2", "mid3", "instr3", "ucase", "lcase", "ltrim", "rtrim", "len"])
        n = rng.randrange(-1, len(s) + 3)
        m = rng.randrange(-1, len(s) + 3)
        f1, f2 = form(), form()
        p1, e1 = s_forms(s, rng, f1)
        p2, e2 = n_forms(n, rng, f2)
        if fam == "left":
            exp = m_left(s, n); ex = "LEFT$(%s, %s)" % (e1, e2); p = p1 + p2
        elif fam == "right":
            exp = m_right(s, n); ex = "RIGHT$(%s, %s)" % (e1, e2); p = p1 + p2
        elif fam == "mid2":
            exp = m_mid(s, n); ex = "MID$(%s, %s)" % (e1, e2); p = p1 + p2
        elif fam == "mid3":
            exp = m_mid(s, n, m); ex = "MID$(%s, %s, %d)" % (e1, e2, m); p = p1 + p2
        elif fam == "instr3":
            if s and rng.random() < 0.7:
                a = rng.randrange(len(s)); t = s[a:a + rng.randrange(1, 5)]
            else:
                t = "".join(rng.choice(printable) for _ in range(rng.randrange(1, 4)))
            exp = m_instr(n, s, t); ex = "INSTR(%s, %s, %s)" % (e2, e1, lit_str(t)); p = p1 + p2
        elif fam == "len":
            t = "".join(rng.choice(printable) for _ in range(rng.randrange(0, 20)))
            exp = ("n", len(s) + len(t)); ex = "LEN(%s + %s)" % (e1, lit_str(t)); p = p1
        else:
            model, name = {"ucase": (m_ucase, "UCASE$"), "lcase": (m_lcase, "LCASE$"), "ltrim": (m_ltrim, "LTRIM$"), "rtrim": (m_rtrim, "RTRIM$")}[fam]
            exp = model(s); ex = "%s(%s)" % (name, e1); p = p1
        cases.append(mk(fam, p, ex, exp, True))
    # strings with characters above 127 (one character each, two bytes inside the interpreter): positions and counts are
    # in characters; UCASE$ / LCASE$ change the 26 letters only
    high = ["a", "b", "Z", " ", "1", "\u00e9", "\u00c8", "\u00ff", "\u00f1", "\u00a0"]
    for _ in range(700 if tier == "quick" else 30000):
        s = "".join(rng.choice(high) for _ in range(rng.randrange(0, 12)))
        fam = rng.choice(["left", "right", "mid2", "mid3", "instr3", "ltrim", "rtrim", "len", "ucase", "lcase"])
        n = rng.randrange(-1, len(s) + 3)
        m = rng.randrange(-1, len(s) + 3)
        f1, f2 = form(), form()
        p1, e1 = s_forms(s, rng, f1)
        p2, e2 = n_forms(n, rng, f2)
        if fam == "left":
            exp = m_left(s, n); ex = "LEFT$(%s, %s)" % (e1, e2); p = p1 + p2
        elif fam == "right":
            exp = m_right(s, n); ex = "RIGHT$(%s, %s)" % (e1, e2); p = p1 + p2
        elif fam == "mid2":
            exp = m_mid(s, n); ex = "MID$(%s, %s)" % (e1, e2); p = p1 + p2
        elif fam == "mid3":
            exp = m_mid(s, n, m); ex = "MID$(%s, %s, %d)" % (e1, e2, m); p = p1 + p2
        elif fam == "instr3":
            if s and rng.random() < 0.7:
                a = rng.randrange(len(s)); t = s[a:a + rng.randrange(1, 4)]
            else:
                t = "".join(rng.choice(high) for _ in range(rng.randrange(1, 3)))
            exp = m_instr(n, s, t); ex = "INSTR(%s, %s, %s)" % (e2, e1, lit_str(t)); p = p1 + p2
        elif fam == "len":
            t = "".join(rng.choice(high) for _ in range(rng.randrange(0, 6)))
            exp = ("n", len(s) + len(t)); ex = "LEN(%s + %s)" % (e1, lit_str(t)); p = p1
        else:
            model, name = {"ltrim": (m_ltrim, "LTRIM$"), "rtrim": (m_rtrim, "RTRIM$"), "ucase": (m_ucase, "UCASE$"), "lcase": (m_lcase, "LCASE$")}[fam]
            exp = model(s); ex = "%s(%s)" % (name, e1); p = p1
        c = mk(fam, p, ex, exp, True)
        c["f"] = "high_" + fam
        cases.append(c)
    return cases


def judge(case, res):
    """Compares what the worker observed for one case with the model. Returns None or (sigkind, text)."""
    exp = case["exp"]
    if res[0] == "line":
        line = res[1]
        if exp[0] == "err":
            return ("missing_error", "expected error %d but printed %r" % (exp[1], line))
        if case["shape"] == "s":
            if not (line.startswith("<") and line.endswith(">")):
                return ("bad_output", "output %r" % line)
            got = line[1:-1]
            # the worker reports the output one character per byte
            if got != exp[1].encode("utf-8").decode("latin-1"):
                return ("wrong_value", "expected %r got %r" % (exp[1], got))
            return None
        v = parse_num_token(line)
        if v is None:
            return ("bad_output", "numeric output %r" % line)
        if v != exp[1]:
            return ("wrong_value", "expected %r got %r" % (exp[1], line))
        return None
    if res[0] == "badsplit":
        return ("bad_output", "output %r" % (res[1],))
    oc = res[1]
    if oc[0] == "error":
        if exp[0] == "err" and oc[1] == exp[1]:
            return None
        return ("unexpected_error_%s" % (oc[1],), "expected %r got run-time error %r" % (exp, oc))
    if oc[0] in ("watchdog", "harness_error", "budget"):
        return ("INCONCLUSIVE", oc[0])
    return ("%s" % oc[0], "expected %r got %r" % (exp, oc))


def shard(ctx):
    r = ShardResult()
    cases = gen_cases(ctx.tier, "C17/%d" % ctx.seed)
    mine = [cases[i] for i in ctx.indices(len(cases))]
    w = Worker()
    packed = Packed(w)
    ok_cases = [c for c in mine if c["exp"][0] != "err"]
    err_cases = [c for c in mine if c["exp"][0] == "err"]
    r.stats["exhaustive_alphabet_len"] = 3 if ctx.tier == "quick" else 5
    def handle(c, res):
        v = judge(c, res)
        if v is not None and v[0] == "INCONCLUSIVE":
            r.inconc(v[1], c["stmt"])
            return
        r.evaluations += 1
        r.count(c["f"], group="families")
        if c["exp"][0] == "err":
            r.count("expected_error_cases")
        if c["nt"]:
            r.nontrivial.add(h64(c["stmt"]))
        if v is not None:
            r.fail("C17:%s:%s" % (c["f"], v[0]), "%s  =>  %s" % (c["stmt"], v[1]), c)
        elif len(r.samples) < 3 and c["nt"]:
            r.sample({"statement": c["stmt"], "expected": c["exp"], "observed": res[1] if res[0] == "line" else list(res[1])})
    for i in range(0, len(ok_cases), 150):
        chunk = ok_cases[i:i + 150]
        results = packed.run([c["stmt"] for c in chunk])
        for c, res in zip(chunk, results):
            handle(c, res)
    for c in err_cases:
        res = packed.run([c["stmt"]])[0]
        handle(c, res)
    r.stats["programs_run"] = packed.programs
    w.close()
    return r


RULE = ("bounded-exhaustive enumeration of LEFT$/RIGHT$/MID$/INSTR/LEN/UCASE$/LCASE$/LTRIM$/RTRIM$/SPACE$/STRING$/VAL(STR$) "
        "instances over the alphabet {a,B,space} and counts -1..7 (arguments as literals, variables, nested calls) plus random "
        "printable-ASCII strings up to length 60; a case is non-trivial when the model result is an error, differs from the "
        "string argument and from the empty string, or is a non-zero number; distinct by the statement text")


def main(tier, seed):
    return driver.run_check(
        PID, shard, {}, tier, seed,
        min_evaluations=5000 if tier == "quick" else 200000,
        rule=RULE,
        assumptions=["Python str slicing/find/strip/upper/lower restricted to ASCII is the model of the defining equations",
                     "PRINT of a string without CR/LF writes it verbatim followed by CR LF (checked by C16)"],
    )


def replay(rec):
    driver.build()
    w = Worker()
    c = rec["case"]
    res = Packed(w).run([c["stmt"]])[0]
    v = judge(c, res)
    w.close()
    if v is None:
        print("replay: case now passes")
        return 0
    print("replay: %s => %s" % (c["stmt"], v[1]))
    print("VIOLATION property=%s replay=%s" % (PID, "(replayed)"))
    return 1
