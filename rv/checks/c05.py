"""C05 GOTO/GOSUB/RETURN and ON ERROR/RESUME transfer control exactly as written.

Oracle: the reference control semantics (rv.ref: labels, GOTO, GOSUB stack, RETURN [label], ON ERROR GOTO label / 0,
ON ERROR RESUME NEXT, RESUME / RESUME NEXT / RESUME label, ERR) predicts the printed trace, the ERR values, the
variable values after RESUME and the final outcome. Every generated statement prints a unique token, so the output
is the control-flow history; the context-invariant monitor runs at every statement boundary."""
import random
from fractions import Fraction

from .. import driver
from ..driver import ShardResult, h64
from ..gen import GenJumps, emit_with_procs
from ..ref import Discard, Interp, StepLimit, match_segments
from ..worker import Worker, outcome
from .c01 import compare
from .common import panic_sig

PID = "C05"


def make_case(seed, index):
    rng = random.Random("C05/%s/%d" % (seed, index))
    g = GenJumps(rng)
    prog = g.program()
    src, spans = emit_with_procs(prog)
    return g, prog, src, spans


def compare_globals(it, rep):
    """Compares the scalar variables of the global block with the reference store."""
    v = rep.get("vars")
    if not v or not v.get("blocks"):
        return None
    got = {}
    for name, q, val in v["blocks"][0]["vars"]:
        if q is None:
            continue
        got[name.upper()] = val
    for name, (t, x) in it.globals.vars.items():
        if name not in got:
            # a variable that was only read never exists in the real store: it must then be zero / empty
            if (t == "$" and x == "") or (t != "$" and x == 0):
                continue
            return ("missing_global", "global %s should hold %r but does not exist" % (name, x))
        tag, val = got[name][0], got[name][1]
        if tag != t:
            return ("global_tag", "global %s has run-time type %s, declared %s" % (name, tag, t))
        if t == "$":
            if val != x:
                return ("global_value", "global %s holds %r, reference says %r" % (name, val, x))
        else:
            if isinstance(val, str) or Fraction(val) != Fraction(x):
                return ("global_value", "global %s holds %r, reference says %s" % (name, val, x))
    return None


def run_case(w, seed, index, r):
    g, prog, src, spans = make_case(seed, index)
    try:
        it = Interp(prog, max_steps=6000)
        res = it.execute()
    except Discard as d:
        r.discard(str(d))
        return
    except StepLimit:
        r.discard("reference_step_limit")
        return
    except RecursionError:
        r.discard("reference_recursion")
        return
    exp_out = it.screen.text()
    if res[0] == "ok":
        exp_oc = ("ok",)
    else:
        row = spans.get(res[2], (None,))[0]
        exp_oc = ("error", res[1], None if it.fail_any_row else row)
    rep = w.run(src, want=["c03", "vars"], budget=600000)
    v = compare(exp_out, exp_oc, rep, it.screen.segments)
    if v is not None and v[0] == "INCONCLUSIVE":
        r.inconc(v[1])
        return
    r.evaluations += 1
    m = rep.get("mon") or {}
    r.count("context_invariant_walks", m.get("c03_walks", 0))
    r.count("handled_errors", it.handled_errors)
    r.count("resume_mode_" + str(g.resume_mode), group="resume_modes")
    r.count(exp_oc[0] if exp_oc[0] == "ok" else "error_%s" % exp_oc[1], group="expected_outcomes")
    if it.handled_errors >= 1 or "GOSUB" in src or "GOTO" in src:
        r.nontrivial.add(h64(src))
    case = {"seed": seed, "index": index, "src": src, "expected_stdout": exp_out, "expected_outcome": list(exp_oc)}
    if v is None and m.get("c03"):
        v = ("context_invariant", m["c03"][0])
    if v is None and exp_oc[0] == "ok":
        v = compare_globals(it, rep)
    if v is not None:
        r.fail("C05:" + v[0], v[1] + " | program:\n" + src[:1200], case)
    elif len(r.samples) < 3 and it.handled_errors >= 1 and len(src) < 1500:
        r.sample({"src": src, "expected_stdout": exp_out, "handled_errors": it.handled_errors, "outcome": list(exp_oc)})


def shard(ctx):
    r = ShardResult()
    w = Worker()
    for index in ctx.indices(ctx.params["n"]):
        run_case(w, ctx.seed, index, r)
    w.close()
    return r


RULE = ("label/jump layouts in the main module: GOSUB nesting to depth 3 incl. RETURN label and RETURN without GOSUB, counted backward GOTOs, GOTO out of 1-3 nested FOR/WHILE/DO loops with "
        "distinct bounds and steps per level (landing inside an enclosing loop or outside all), failing statements of every kind (division by zero, subscript, overflow, illegal function call "
        "inside an expression, READ out of data, failure inside a called SUB and inside a FUNCTION called in an expression) at first/middle/last position of FOR, WHILE, IF, ELSEIF and CASE "
        "blocks and inside GOSUB subroutines, under every handler form (ON ERROR GOTO with RESUME, RESUME NEXT, RESUME label; ON ERROR RESUME NEXT; ON ERROR GOTO 0; none) switched in every "
        "order; non-trivial = the program executes a jump or handles an error; distinct by program text")


def main(tier, seed):
    params = {"n": 12000 if tier == "quick" else 300000}
    return driver.run_check(
        PID, shard, params, tier, seed,
        min_evaluations=4000 if tier == "quick" else 100000,
        rule=RULE,
        assumptions=["a failing expression in a block header (IF/WHILE/FOR/SELECT CASE line) under an active handler, an error inside a handler, and RESUME label after an error raised inside a procedure are not generated: the property does not define them",
                     "handlers repair the cause of the error before a plain RESUME, so that the retry terminates"],
    )


def replay(rec):
    driver.build()
    c = rec["case"]
    r = ShardResult()
    w = Worker()
    run_case(w, c["seed"], c["index"], r)
    w.close()
    if r.failures:
        print("replay: " + r.failures[0]["what"][:2500])
        print("VIOLATION property=%s replay=(replayed)" % PID)
        return 1
    print("replay: case now passes")
    return 0
