"""C02 Loops and branches mean the same wherever they are nested or however written.

Oracle: metamorphic, the implementation against itself. A program and its rewrite by one of the listed
rules must print the same bytes and end with the same outcome code; the generated code of both must
pass the C15 structure walk."""
import copy
import random

from .. import corpus, driver
from ..btext import lines_of, tokenize, untokenize
from ..driver import ShardResult, h64
from ..gen import Gen, GenCalls, emit_with_procs
from ..lang import REL, emit_program, number_statements
from ..worker import Worker, outcome

PID = "C02"
RULES = ["for_to_while", "while_to_do", "until_to_while_not", "select_to_if", "ifline_to_block", "for_step_1", "wrap_body"]


def children(s):
    """The statement lists nested in s, as (container, key) pairs that can be assigned to."""
    out = []
    k = s["k"]
    if k == "if":
        for i in range(len(s["arms"])):
            out.append(("arm", i))
        if s.get("else") is not None:
            out.append(("key", "else"))
    elif k == "select":
        for i in range(len(s["cases"])):
            out.append(("case", i))
        if s.get("else") is not None:
            out.append(("key", "else"))
    elif k in ("for", "while", "do"):
        out.append(("key", "body"))
    return out


def get_list(s, ref):
    if ref[0] == "arm":
        return s["arms"][ref[1]][1]
    if ref[0] == "case":
        return s["cases"][ref[1]][1]
    return s[ref[1]]


def set_list(s, ref, lst):
    if ref[0] == "arm":
        s["arms"][ref[1]] = (s["arms"][ref[1]][0], lst)
    elif ref[0] == "case":
        s["cases"][ref[1]] = (s["cases"][ref[1]][0], lst)
    else:
        s[ref[1]] = lst


def is_literal_case(c):
    return all(x[0] == "lit" for x in c[1:] if isinstance(x, tuple))


class Rewriter:
    def __init__(self, rule, chooser):
        self.rule = rule
        self.chooser = chooser
        self.site = 0
        self.applied = 0
        self.skipped = 0
        self.fresh = 0

    def applicable(self, s):
        r = self.rule
        k = s["k"]
        if r == "for_to_while":
            if k != "for":
                return False
            st = s.get("step")
            while st is not None and st[0] in ("un", "par", "call"):
                if st[0] == "call":
                    st = st[2][0] if st[1] == "StepOf%" else None
                    if st is None:
                        self.skipped += 1
                        return False
                    continue
                st = st[2] if st[0] == "un" else st[1]
            if st is not None and not (st[0] == "lit" or (st[0] == "var" and st[1].startswith("ST"))):
                self.skipped += 1
                return False
            return True
        if r == "while_to_do":
            return k == "while"
        if r == "until_to_while_not":
            return k == "do" and s["kind"] == "until" and s["cond"][0] == "bin" and s["cond"][1] in REL
        if r == "select_to_if":
            if k != "select":
                return False
            for cases, _ in s["cases"]:
                for c in cases:
                    if not is_literal_case(c):
                        self.skipped += 1
                        return False
            return True
        if r == "ifline_to_block":
            return k == "ifline"
        if r == "for_step_1":
            return k == "for" and s.get("step") is None
        if r == "wrap_body":
            return k in ("for", "while", "do")
        return False

    def rewrite_list(self, stmts):
        out = []
        for s in stmts:
            for ref in children(s):
                set_list(s, ref, self.rewrite_list(get_list(s, ref)))
            if s["k"] == "ifline":
                s["then"] = self.rewrite_list(s["then"])
                if s.get("else") is not None:
                    s["else"] = self.rewrite_list(s["else"])
            if self.applicable(s):
                mine = self.site
                self.site += 1
                if self.chooser(mine):
                    self.applied += 1
                    out += self.apply(s)
                    continue
            out.append(s)
        return out

    def apply(self, s):
        r = self.rule
        self.fresh += 1
        n = self.fresh
        if r == "for_to_while":
            t = s["var"][-1]
            v = ("var", s["var"])
            lim = ("var", "RWL%d%s" % (n, t))
            stp = ("var", "RWS%d%s" % (n, t))
            zero = ("lit", "%", 0)
            step = s["step"] if s.get("step") is not None else ("lit", "%", 1)
            cond = ("bin", "OR",
                    ("bin", "AND", ("bin", ">=", stp, zero), ("bin", "<=", v, lim)),
                    ("bin", "AND", ("bin", "<", stp, zero), ("bin", ">=", v, lim)))
            body = list(s["body"]) + [{"k": "assign", "lhs": v, "rhs": ("bin", "+", v, stp)}]
            # limit and step first: they may refer to the counter's value from before the loop
            return [{"k": "assign", "lhs": lim, "rhs": s["hi"]},
                    {"k": "assign", "lhs": stp, "rhs": step},
                    {"k": "assign", "lhs": v, "rhs": s["lo"]},
                    {"k": "while", "cond": cond, "body": body}]
        if r == "while_to_do":
            return [{"k": "do", "pos": "top", "kind": "while", "cond": s["cond"], "body": s["body"]}]
        if r == "until_to_while_not":
            return [{"k": "do", "pos": s["pos"], "kind": "while", "cond": ("un", "NOT", s["cond"]), "body": s["body"]}]
        if r == "select_to_if":
            subj_t = None
            e = s["subj"]
            # the type of the fresh variable: that of the CASE literals (the generator uses one type per SELECT)
            for cases, _ in s["cases"]:
                for c in cases:
                    for x in c[1:]:
                        if isinstance(x, tuple) and x[0] == "lit":
                            subj_t = subj_t or x[1]
            if subj_t is None:
                subj_t = "%"
            if subj_t == "&":
                subj_t = "&"
            # a wider holder never loses the subject's value
            holder_t = "$" if subj_t == "$" else "#"
            sv = ("var", "RWC%d%s" % (n, holder_t))
            arms = []
            for cases, body in s["cases"]:
                tests = []
                for c in cases:
                    if c[0] == "val":
                        tests.append(("bin", "=", sv, c[1]))
                    elif c[0] == "is":
                        tests.append(("bin", c[1], sv, c[2]))
                    else:
                        tests.append(("bin", "AND", ("bin", ">=", sv, c[1]), ("bin", "<=", sv, c[2])))
                cond = tests[0]
                for tt in tests[1:]:
                    cond = ("bin", "OR", cond, tt)
                arms.append((cond, body))
            return [{"k": "assign", "lhs": sv, "rhs": e}, {"k": "if", "arms": arms, "else": s.get("else")}]
        if r == "ifline_to_block":
            return [{"k": "if", "arms": [(s["cond"], s["then"])], "else": s.get("else")}]
        if r == "for_step_1":
            s2 = dict(s)
            s2["step"] = ("lit", "%", 1)
            return [s2]
        if r == "wrap_body":
            s2 = dict(s)
            s2["body"] = [{"k": "if", "arms": [(("lit", "%", -1), s["body"])], "else": None}]
            return [s2]
        raise ValueError(r)


def count_sites(prog_main, rule):
    rw = Rewriter(rule, lambda i: False)
    rw.rewrite_list(copy.deepcopy(prog_main))
    return rw.site, rw.skipped


def rewrite(prog_main, rule, chooser):
    rw = Rewriter(rule, chooser)
    out = rw.rewrite_list(copy.deepcopy(prog_main))
    return out, rw.applied


def count_sites_prog(prog, rule):
    rw = Rewriter(rule, lambda i: False)
    rw.rewrite_list(copy.deepcopy(prog["main"]))
    for p in prog["procs"]:
        rw.rewrite_list(copy.deepcopy(p["body"]))
    return rw.site, rw.skipped


def rewrite_prog(prog, rule, chooser):
    """Rewrites the main module and every procedure body (site numbers run through the whole program)."""
    rw = Rewriter(rule, chooser)
    new = copy.deepcopy(prog)
    new["main"] = rw.rewrite_list(new["main"])
    for p in new["procs"]:
        p["body"] = rw.rewrite_list(p["body"])
    return new, rw.applied


def text_rewrites(rng, src):
    """Conservative text-level rewrites for corpus programs. Returns list of (rule, text)."""
    out = []
    toks = tokenize(src)
    lines = lines_of(toks)

    def fw(line):
        for t in line:
            if t[0] != "ws":
                return t
        return None
    # WHILE..WEND -> DO WHILE..LOOP when every WHILE/WEND sits alone at the start of its line
    n_while = sum(1 for l in lines if fw(l) and fw(l)[0] == "word" and fw(l)[1].upper() == "WHILE")
    n_wend = sum(1 for l in lines if fw(l) and fw(l)[0] == "word" and fw(l)[1].upper() == "WEND")
    all_words = [t[1].upper() for t in toks if t[0] == "word"]
    if n_while and n_while == n_wend == all_words.count("WHILE") - all_words.count("DO") * 0 and all_words.count("WEND") == n_wend and "DO" not in all_words and "LOOP" not in all_words:
        new = []
        for l in lines:
            f = fw(l)
            l2 = [list(t) for t in l]
            if f and f[0] == "word" and f[1].upper() == "WHILE":
                for t in l2:
                    if t[0] == "word" and t[1].upper() == "WHILE":
                        t[1] = "DO WHILE"
                        break
            elif f and f[0] == "word" and f[1].upper() == "WEND":
                for t in l2:
                    if t[0] == "word" and t[1].upper() == "WEND":
                        t[1] = "LOOP"
                        break
            new += l2
        out.append(("text_while_to_do", untokenize(new)))
    # FOR without STEP -> STEP 1 (line starts with FOR, holds no colon, no STEP, no comment)
    new = []
    changed = 0
    for l in lines:
        f = fw(l)
        words = [t[1].upper() for t in l if t[0] == "word"]
        l2 = [list(t) for t in l]
        if (f and f[0] == "word" and f[1].upper() == "FOR" and "STEP" not in words and "TO" in words
                and not any(t[0] in ("comment", "data") or (t[0] == "sym" and t[1] == ":") for t in l)):
            eol = l2.pop() if l2 and l2[-1][0] == "eol" else None
            while l2 and l2[-1][0] == "ws":
                l2.pop()
            l2.append(["ws", " "])
            l2.append(["word", "STEP 1"])
            if eol:
                l2.append(eol)
            changed += 1
        new += l2
    if changed:
        out.append(("text_for_step_1", untokenize(new)))
    return out


def behaviour(rep):
    oc = outcome(rep)
    if oc[0] == "error":
        oc = ("error", oc[1])
    run = rep.get("run") or {}
    return (oc, run.get("stdout"))


def compare(rep_p, rep_r):
    op, orr = outcome(rep_p), outcome(rep_r)
    for o in (op, orr):
        if o[0] in ("watchdog", "harness_error", "died"):
            return ("INCONCLUSIVE", o[0])
    if orr[0] in ("parse_error", "lint_error") and op[0] not in ("parse_error", "lint_error"):
        e = rep_r.get("parse") if orr[0] == "parse_error" else rep_r.get("lint")
        return ("rewrite_rejected:%s" % orr[1], "the rewritten program is rejected: %s at %s:%s" % (e["err"], e["row"], e["col"]))
    if op[0] == "panic" or orr[0] == "panic":
        return ("panic", "panic: %s / %s" % (rep_p.get("panic"), rep_r.get("panic")))
    for name, rep in (("original", rep_p), ("rewritten", rep_r)):
        st = (rep.get("gen") or {}).get("structure") or []
        if st:
            return ("structure", "%s program: %s" % (name, st[0]))
    bp, br = behaviour(rep_p), behaviour(rep_r)
    if bp[0][0] == "budget" or br[0][0] == "budget":
        if bp[0][0] != br[0][0]:
            return ("budget_one_side", "only one of the two programs exhausts the instruction budget: %s vs %s" % (bp[0], br[0]))
        return ("INCONCLUSIVE", "budget")
    if bp != br:
        a, b = bp[1] or "", br[1] or ""
        i = 0
        while i < min(len(a), len(b)) and a[i] == b[i]:
            i += 1
        return ("behaviour", "outcome %s vs %s; output differs at offset %d: %r vs %r" % (bp[0], br[0], i, a[max(0, i - 30):i + 40], b[max(0, i - 30):i + 40]))
    return None


def shard(ctx):
    r = ShardResult()
    rng = ctx.rng
    w = Worker()
    n = ctx.params["n"] // ctx.n
    # corpus part (text-level rewrites), sharded
    texts = [t for t in corpus.load() if "INKEY$" not in t.upper() and len(t) < 6000]
    for i in ctx.indices(len(texts)):
        src = texts[i]
        rws = text_rewrites(rng, src)
        if not rws:
            r.count("corpus_programs_without_applicable_site")
            continue
        rep_p = w.run(src, want=["files"], files={}, budget=100000)
        if outcome(rep_p)[0] in ("parse_error", "lint_error"):
            continue
        for rule, tsrc in rws:
            rep_r = w.run(tsrc, want=["files"], files={}, budget=100000)
            v = compare(rep_p, rep_r)
            if v is not None and v[0] == "INCONCLUSIVE":
                r.inconc(v[1])
                continue
            r.evaluations += 1
            r.count(rule, group="rules")
            r.nontrivial.add(h64(rule + tsrc))
            if v is not None:
                r.fail("C02:%s:%s" % (rule, v[0]), "%s: %s | original:\n%s\n| rewritten:\n%s" % (rule, v[1], src[:500], tsrc[:500]), {"rule": rule, "src": src, "rsrc": tsrc})
    for idx in range(n):
        with_procs = rng.random() < 0.3
        if with_procs:
            # the constructs inside SUB / FUNCTION bodies (with EXIT SUB / EXIT FUNCTION leaving them), called from expressions
            g = GenCalls(rng, max_depth=rng.choice([2, 3]), size=rng.choice([4, 7]), errors=0.05)
            g.exit_prob = 0.15
            prog = g.program()
            src, _ = emit_with_procs(prog)
        else:
            g = Gen(rng, max_depth=rng.choice([2, 3, 4, 5]), size=rng.choice([6, 10, 14]), errors=0.1)
            prog = g.program()
            prog["procs"] = []
            src, _ = emit_program(prog["main"])
        main = prog["main"]
        rep_p = None
        skip_program = False
        for rule in RULES:
            if skip_program:
                r.inconc("original_" + outcome(rep_p)[0])
                break
            sites, skipped = count_sites_prog(prog, rule)
            if skipped:
                r.count(rule, skipped, group="sites_skipped_as_not_applicable")
            if sites == 0:
                continue
            choices = [("all", lambda i: True)]
            ks = list(range(sites))
            rng.shuffle(ks)
            for k in ks[:ctx.params["sites_per_rule"]]:
                choices.append(("site%d" % k, (lambda kk: (lambda i: i == kk))(k)))
            for cname, chooser in choices:
                new_prog, applied = rewrite_prog(prog, rule, chooser)
                if not applied:
                    continue
                if with_procs:
                    rsrc, _ = emit_with_procs(new_prog)
                else:
                    number_statements(new_prog["main"])
                    rsrc, _ = emit_program(new_prog["main"])
                if rep_p is None:
                    rep_p = w.run(src, budget=400000)
                if outcome(rep_p)[0] in ("watchdog", "harness_error", "died", "budget"):
                    skip_program = True
                    break
                rep_r = w.run(rsrc, budget=600000)
                v = compare(rep_p, rep_r)
                if v is not None and v[0] == "INCONCLUSIVE":
                    r.inconc(v[1])
                    continue
                r.evaluations += 1
                r.count(rule, group="rules")
                r.count("all_sites" if cname == "all" else "single_site", group="site_choice")
                r.count("with_procedures" if with_procs else "main_module_only", group="program_kind")
                bp = behaviour(rep_p)
                r.count(str(bp[0][0]) if bp[0][0] != "error" else "error_%s" % bp[0][1], group="outcomes_of_originals")
                if rep_p.get("run", {}).get("steps", 0) > 50:
                    r.nontrivial.add(h64(rule + rsrc))
                if v is not None:
                    r.fail("C02:%s:%s" % (rule, v[0]), "%s (%s): %s | original:\n%s\n| rewritten:\n%s" % (rule, cname, v[1], src[:900], rsrc[:900]),
                           {"rule": rule, "src": src, "rsrc": rsrc})
                elif len(r.samples) < 3 and cname != "all" and len(src) < 500 and rng.random() < 0.05:
                    r.sample({"rule": rule, "original": src, "rewritten": rsrc, "stdout": bp[1], "outcome": list(bp[0])})
    w.close()
    return r


RULE = ("generated core-language programs rewritten on the AST by each rule (FOR -> WHILE with explicit counter/limit/step, WHILE -> DO WHILE, DO UNTIL c -> DO WHILE NOT c, "
        "SELECT CASE -> IF/ELSEIF chain, single-line IF -> block IF, FOR -> STEP 1, loop body wrapped in IF -1 THEN) at single sites and at all sites together, plus every "
        "repository program with conservative text-level rewrites (WHILE..WEND -> DO WHILE..LOOP, FOR -> STEP 1); original and rewrite are run by the real code and compared "
        "(stdout bytes, outcome code, structure walk of both); non-trivial = the original executed more than 50 instructions; distinct by (rule, rewritten text)")


def main(tier, seed):
    params = {"n": 2400 if tier == "quick" else 40000, "sites_per_rule": 2 if tier == "quick" else 6}
    return driver.run_check(
        PID, shard, params, tier, seed,
        min_evaluations=8000 if tier == "quick" else 200000,
        rule=RULE,
        assumptions=["a rewrite site is used only when it is provably applicable (literal CASE expressions, literal or freshly assigned non-zero steps); skipped sites are counted",
                     "error rows move under rewriting, so outcomes are compared as ok | error code"],
    )


def replay(rec):
    driver.build()
    c = rec["case"]
    w = Worker()
    a = w.run(c["src"], want=["files"], files={}, budget=400000)
    b = w.run(c["rsrc"], want=["files"], files={}, budget=600000)
    w.close()
    v = compare(a, b)
    if v is None or v[0] == "INCONCLUSIVE":
        print("replay: case now passes")
        return 0
    print("replay: " + v[1][:1500])
    print("VIOLATION property=%s replay=(replayed)" % PID)
    return 1
