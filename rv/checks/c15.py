"""C15 Generated code is well-formed: every branch lands where intended, stacks balance.

Oracle: (1) structural invariant walk over the public InstructionGeneratorResult of every accepted
program; (2) online trace checker on hook H1 events: no pop on an empty stack, stack depths are a
function of the statement address within one activation, depths at procedure return equal those at
its entry, executed branches stay inside their procedure."""
import random
import re

from .. import corpus, driver
from ..driver import ShardResult, h64
from ..worker import Worker, outcome
from ..gen import GenCalls, GenJumps, emit_with_procs
from .c08 import make_case
from .common import norm_msg

PID = "C15"


def sig_of(msg):
    m = norm_msg(msg)
    if m.startswith("abstract:") or m.startswith("effect table:"):
        # the clause without addresses, positions and depth numbers
        words = [w for w in m.replace("(", " ").replace(")", " ").split(" ") if w and not any(c.isdigit() for c in w)]
        return "_".join(words[:7])
    # keep the clause, drop addresses and positions
    for key in ("underflow:", "stack depth differs between two visits", "stack depths at procedure return", "executed branch",
                "stacks are not back", "label", "unresolved", "outside the list", "does not end with", "statement address", "PushRet", "targets", "empty procedure"):
        if key in m:
            if key == "underflow:":
                return "underflow:" + m.split("underflow:")[1].strip().split(" ")[0]
            if key.startswith("stack depth"):
                which = sorted(set(w.strip().split(" ")[0] for w in m.split(":", 1)[1].split(",") if w.strip()))
                return key.replace(" ", "_") + ":" + "+".join(which)
            return key.replace(" ", "_")
    return m[:40]


def judge(rep):
    """Returns a list of (sig, text)."""
    out = []
    g = rep.get("gen")
    if g:
        for s in g.get("structure", []):
            out.append(("structure:" + sig_of(s), s))
        for s in (g.get("abs") or {}).get("violations", []):
            out.append(("static:" + sig_of(s), s))
    m = rep.get("mon", {})
    for s in m.get("c15", []):
        out.append(("dynamic:" + sig_of(s), s))
    return out


def header_fault_program(rng):
    """Block headers that fail at run time (every kind of block, at some iterations only), nested in other blocks, in the main
    module or in a SUB, trapped by ON ERROR RESUME NEXT or by a handler that ends in RESUME NEXT: wherever the VM continues,
    the stacks must stay balanced (the output is not judged here)."""
    fail = rng.choice(["1 / Z%", "10 / Z%", "A%(Z% + 9)", "32767 + (1 - Z%) * 40000 > 1"])
    inner_kind = rng.choice(["for_to", "for_from", "for_step", "while", "do_while", "do_until_bottom", "if_block", "if_else", "select", "if_line", "elseif", "case_expr"])
    body = ['PRINT "body"; O%; Z%']
    if inner_kind == "for_to":
        inner = ["FOR I% = 1 TO @F".replace("@F", fail)] + body + ["NEXT"]
    elif inner_kind == "for_from":
        inner = ["FOR I% = @F TO 2".replace("@F", fail)] + body + ["NEXT I%"]
    elif inner_kind == "for_step":
        inner = ["FOR I% = 1 TO 2 STEP @F".replace("@F", fail)] + body + ["NEXT"]
    elif inner_kind == "while":
        inner = ["W% = 0", "WHILE @F AND W% < 2".replace("@F", fail), "W% = W% + 1", "IF W% >= 2 THEN Z% = 1"] + body + ["WEND"]
    elif inner_kind == "do_while":
        inner = ["W% = 0", "DO WHILE @F AND W% < 2".replace("@F", fail), "W% = W% + 1", "IF W% >= 2 THEN Z% = 1"] + body + ["LOOP"]
    elif inner_kind == "do_until_bottom":
        inner = ["W% = 0", "DO", "W% = W% + 1"] + body + ["LOOP UNTIL @F OR W% >= 2".replace("@F", fail)]
    elif inner_kind == "if_block":
        inner = ["IF @F THEN".replace("@F", fail)] + body + ["END IF"]
    elif inner_kind == "if_else":
        inner = ["IF @F THEN".replace("@F", fail)] + body + ["ELSE", 'PRINT "else"', "END IF"]
    elif inner_kind == "elseif":
        inner = ["IF Z% = 77 THEN", 'PRINT "never"', "ELSEIF @F THEN".replace("@F", fail)] + body + ["ELSE", 'PRINT "else"', "END IF"]
    elif inner_kind == "select":
        inner = ["SELECT CASE @F".replace("@F", fail), "CASE 1"] + body + ["CASE ELSE", 'PRINT "other"', "END SELECT"]
    elif inner_kind == "case_expr":
        inner = ["SELECT CASE O%", "CASE 77", 'PRINT "never"', "CASE @F".replace("@F", fail)] + body + ["CASE ELSE", 'PRINT "other"', "END SELECT"]
    else:
        inner = ["IF @F THEN PRINT \"t\" ELSE PRINT \"f\"".replace("@F", fail)]
    outer_kind = rng.choice(["for", "for", "for_step", "while", "select", "none"])
    zset = rng.choice(["Z% = O% - 2", "Z% = 0", "Z% = (O% MOD 2)"])
    if outer_kind == "for":
        block = ["FOR O% = 1 TO 3", zset] + inner + ['PRINT "after"; O%', "NEXT O%"]
    elif outer_kind == "for_step":
        block = ["FOR O% = 3 TO 1 STEP -1", zset] + inner + ['PRINT "after"; O%', "NEXT"]
    elif outer_kind == "while":
        block = ["O% = 0", "WHILE O% < 3", "O% = O% + 1", zset] + inner + ['PRINT "after"; O%', "WEND"]
    elif outer_kind == "select":
        block = ["O% = 2", "SELECT CASE O%", "CASE 2", "Z% = 0"] + inner + ['PRINT "after"', "END SELECT"]
    else:
        block = ["O% = 2", "Z% = 0"] + inner + ['PRINT "after"']
    if rng.random() < 0.5:
        block = ["FOR Q% = 1 TO 2"] + block + ["NEXT Q%"]
    trap = rng.choice(["next", "handler"])
    in_sub = rng.random() < 0.35
    dim = "DIM A%(1 TO 3)"
    lines = []
    if in_sub:
        lines += ["ON ERROR RESUME NEXT" if trap == "next" else "ON ERROR GOTO Hd", "Work", "Work", 'PRINT "end"', "END"]
        if trap == "handler":
            lines += ["Hd:", 'PRINT "err"; ERR', "RESUME NEXT"]
        lines += ["SUB Work", dim] + block + ["END SUB"]
    else:
        lines += [dim, "ON ERROR RESUME NEXT" if trap == "next" else "ON ERROR GOTO Hd"] + block + ['PRINT "end"', "END"]
        if trap == "handler":
            lines += ["Hd:", 'PRINT "err"; ERR', "RESUME NEXT"]
    return "\n".join(lines) + "\n", ["inner_" + inner_kind, "outer_" + outer_kind, "trap_" + trap, "in_sub" if in_sub else "in_main"]


FAILABLE_LINE = re.compile(r"^\s*(PRINT\b|IF\b|ELSEIF\b|FOR\b|WHILE\b|DO (WHILE|UNTIL)\b|LOOP (WHILE|UNTIL)\b|SELECT CASE\b|CASE\b(?! ELSE)|[A-Za-z][A-Za-z0-9.]*[%&!#$]?(\(.*\))? = |[A-Za-z][A-Za-z0-9]* [^=]*$)", re.I)
INT_TOKEN = re.compile(r"(?<![A-Za-z0-9.&#!%$\"])(\d{1,4})(?![A-Za-z0-9.#!%&])")


def error_edges_program(rng, src):
    """Any accepted generated program, with one to three whole-number literals inside expressions replaced by a quotient
    that always fails (division by a SHARED variable that is zero), under ON ERROR RESUME NEXT: errors are raised in the
    middle of argument lists, subscripts, PRINT items, CASE lists, block headers, in procedures at any call depth. Where
    execution continues is not judged; the stacks are."""
    lines = src.split("\n")
    cands = []
    for i, l in enumerate(lines):
        if not FAILABLE_LINE.match(l) or '"' in l or re.match(r"^\s*(DIM|REDIM|CONST|DATA|DECLARE|SUB|FUNCTION|TYPE|END|DEF|ON|RESUME|RETURN|GOTO|GOSUB|EXIT|NEXT|READ)\b", l, re.I):
            continue
        for m in INT_TOKEN.finditer(l):
            cands.append((i, m.start(1), m.end(1)))
    if not cands:
        return None
    for i, a, b in sorted(rng.sample(cands, min(len(cands), rng.choice([1, 1, 2, 3]))), reverse=True):
        l = lines[i]
        lines[i] = l[:a] + "(" + l[a:b] + " / ZQ9%)" + l[b:]
    return "DIM SHARED ZQ9%\nON ERROR RESUME NEXT\n" + "\n".join(lines)


def shard(ctx):
    r = ShardResult()
    rng = ctx.rng
    w = Worker()
    texts = corpus.load()
    accepted, _ = corpus.classify(w, texts)
    accepted = [t for t in accepted if "INKEY$" not in t.upper()]
    n = ctx.params["n"] // ctx.n
    tried = 0
    jif_both = 0
    jif_seen = 0
    # every accepted corpus program once (sharded), then generated programs
    queue = [("corpus", accepted[i], "", True, None, []) for i in ctx.indices(len(accepted))]
    while r.evaluations < n and tried < n * 3:
        tried += 1
        if queue:
            kind, src, stdin, uses_files, lpt1, feats = queue.pop()
        else:
            x = rng.random()
            if x < 0.25:
                g = GenCalls(rng, max_depth=rng.choice([2, 3]), size=rng.choice([4, 7]))
                src, _ = emit_with_procs(g.program())
                kind, stdin, uses_files, lpt1, feats = "calls", "", False, None, []
            elif x < 0.42:
                src, _ = emit_with_procs(GenJumps(rng).program())
                kind, stdin, uses_files, lpt1, feats = "jumps", "", False, None, []
            elif x < 0.50:
                src, feats = header_fault_program(rng)
                kind, stdin, uses_files, lpt1 = "header_faults", "", False, None
            elif x < 0.60:
                g = GenCalls(rng, max_depth=rng.choice([2, 3]), size=rng.choice([4, 7]))
                base, _ = emit_with_procs(g.program())
                src = error_edges_program(rng, base)
                if src is None:
                    continue
                kind, stdin, uses_files, lpt1, feats = "error_edges", "", False, None, []
            else:
                kind, src, stdin, uses_files, lpt1, feats = make_case(rng, texts, accepted)
        if "INKEY$" in src.upper():
            continue
        rep = w.run(src, want=["c15", "hist"] + (["files"] if uses_files else []), stdin=stdin, files={} if uses_files else None, budget=ctx.params["budget"])
        oc = outcome(rep)
        if oc[0] in ("parse_error", "lint_error"):
            r.count(kind, group="rejected_by_kind")
            continue
        if oc[0] in ("watchdog", "harness_error", "died"):
            r.inconc(oc[0])
            continue
        if "gen" not in rep:
            r.inconc("no_gen:" + oc[0])
            continue
        r.evaluations += 1
        r.count(kind, group="workload")
        if kind == "header_faults":
            for f in feats:
                r.count(f, group="header_fault_shapes")
        m = rep.get("mon", {})
        jif_both += m.get("jif_both", 0)
        jif_seen += m.get("jif_seen", 0)
        r.count("distinct_address_depth_states", m.get("distinct_states", 0))
        r.count("instructions_walked", rep["gen"]["n"])
        r.count("labels_checked", rep["gen"]["n_labels"])
        r.count("branch_targets_checked", rep["gen"]["n_branches"])
        r.count("duplicate_statement_addresses", rep["gen"]["dup_stmt_addr"])
        ab = rep["gen"].get("abs") or {}
        r.count("abstract_walk_roots", ab.get("roots", 0))
        r.count("abstract_walk_addresses_reached", ab.get("reached", 0))
        r.count("abstract_walk_joins_compared", ab.get("joins", 0))
        r.count("abstract_walk_carried_depths_checked", ab.get("carried", 0))
        r.count("abstract_walk_unreached_addresses", rep["gen"]["n"] - min(rep["gen"]["n"], ab.get("reached", 0)))
        r.count("effect_table_calibrations", m.get("calib", 0))
        for k, v in m.get("hist", {}).items():
            r.count(k, v, group="opcode_histogram")
        if m.get("back_jumps", 0) >= 1 and m.get("calls", 0) >= 1:
            r.nontrivial.add(h64(src + "\0" + stdin))
        case = {"kind": kind, "src": src, "stdin": stdin, "files": uses_files}
        for sig, text in judge(rep):
            r.fail("C15:" + sig, text + " | program:\n" + src[:700], case)
        if len(r.samples) < 3 and m.get("back_jumps", 0) >= 1 and m.get("calls", 0) >= 1 and len(src) < 600:
            r.sample({"src": src, "instructions": rep["gen"]["n"], "labels": rep["gen"]["n_labels"], "distinct_states": m.get("distinct_states"),
                      "max_depths[value,register,var_path,by_ref,ret,gosub,stacktrace,states,blocks]": m.get("max_depths"), "outcome": list(oc)})
    r.stats["jif_executed"] = jif_seen
    r.stats["jif_seen_both_ways"] = jif_both
    w.close()
    return r


RULE = ("every accepted program embedded in the repository plus generated programs (whole-repertoire and core generators, loops iterating, calls, "
        "GOTO/GOSUB/handlers); the instruction list of each is walked for the structural clauses and its execution is observed instruction by "
        "instruction by the trace checker; non-trivial = the execution contained at least one backward jump and one procedure call; distinct by (program, stdin)")


def main(tier, seed):
    params = {"n": 20000 if tier == "quick" else 500000, "budget": 100000}
    return driver.run_check(
        PID, shard, params, tier, seed,
        min_evaluations=6000 if tier == "quick" else 200000,
        rule=RULE, witness_fn=driver.program_witness,
        assumptions=["the all-paths claim is decided only for the paths the workload executes; the evidence reports how many conditional branches were seen both taken and not taken",
                     "GOSUB depth legitimately varies per statement and is not part of the depth vector; statements executed inside an ON ERROR GOTO handler are not judged by the depth-function clause"],
    )


def replay(rec):
    driver.build()
    c = rec["case"]
    w = Worker()
    rep = w.run(c["src"], want=["c15"] + (["files"] if c.get("files") else []), stdin=c.get("stdin", ""), files={} if c.get("files") else None, budget=100000)
    w.close()
    v = judge(rep)
    if not v:
        print("replay: case now passes (%s)" % (outcome(rep),))
        return 0
    for sig, text in v:
        print("replay: " + text)
    print("VIOLATION property=%s replay=(replayed)" % PID)
    return 1
