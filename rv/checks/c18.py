"""C18 Files read back what was written; handles follow the open/close protocol.

Oracle 1 (history + executable model): a generated history of OPEN / PRINT # / INPUT # / LINE INPUT # / EOF /
CLOSE / KILL / NAME / FIELD / LSET / PUT / GET over three handles and three file names (a third of the steps
violate the protocol) runs in the real interpreter on a scratch directory; every step reports either its
result or the ERR code it raised; the report and the directory contents at the end are compared with a model
of the store (dict name -> bytes) and of the handle table.
Oracle 2 (metamorphic): the same hostile text is read field by field / line by line from the console and from
a file; both must split it identically."""
import random

from .. import driver
from ..driver import ShardResult, h64
from ..worker import Worker, outcome

PID = "C18"
FILE_ERRORS = {50, 52, 53, 54, 55, 57, 59, 61, 62, 63, 64, 67, 68, 70, 71, 75, 76}
NAMES = ["A.TXT", "B.TXT", "D.TXT"]      # sequential files
RNAMES = ["C.DAT", "E.DAT"]               # random-access files (never mixed with text)
BAD_NAMES = ["NODIR/X.TXT", "SUB"]          # a directory that does not exist; an existing directory
ALPHA = "abXY ,1"


class H:
    def __init__(self, mode, name):
        self.mode = mode          # "O" (output/append), "I", "R"
        self.name = name
        self.pos = 0
        self.rec_len = 0
        self.fields = None        # [(width, var)]


class Model:
    def __init__(self, store):
        self.store = dict(store)
        self.h = {}

    def open_names(self):
        return {x.name for x in self.h.values()}


def num_text(v):
    return ("-" if v < 0 else " ") + str(abs(v)) + " "


def read_line(data, pos):
    i = pos
    while i < len(data) and data[i] not in "\r\n":
        i += 1
    line = data[pos:i]
    if i < len(data):
        if data[i] == "\r" and i + 1 < len(data) and data[i + 1] == "\n":
            i += 2
        else:
            i += 1
    return line, i


def read_field(data, pos):
    i = pos
    while i < len(data) and data[i] == " ":
        i += 1
    j = i
    while j < len(data) and data[j] not in ",\r\n":
        j += 1
    fld = data[i:j].strip(" ")
    if j < len(data):
        if data[j] == "\r" and j + 1 < len(data) and data[j + 1] == "\n":
            j += 2
        else:
            j += 1
    return fld, j


def read_number_field(data, pos):
    """A numeric field ends at a blank, a comma or a line end; the blanks after it and one delimiter are consumed."""
    i = pos
    while i < len(data) and data[i] == " ":
        i += 1
    j = i
    while j < len(data) and data[j] not in " ,\r\n":
        j += 1
    fld = data[i:j]
    while j < len(data) and data[j] == " ":
        j += 1
    if j < len(data) and data[j] in ",\r\n":
        if data[j] == "\r" and j + 1 < len(data) and data[j + 1] == "\n":
            j += 2
        else:
            j += 1
    return fld, j


def clean_int(s):
    if not s or len(s) > 5:
        return None
    t = s[1:] if s[0] == "-" else s
    if not t.isdigit() or (len(t) > 1 and t[0] == "0"):
        return None
    v = int(s)
    return v if -32768 <= v <= 32767 else None


class Gen:
    def __init__(self, rng, store):
        self.rng = rng
        self.m = Model(store)
        self.lines = ["ON ERROR GOTO Handler"]
        self.expect = []          # ("text", s) | ("err", step, codes)
        self.k = 0
        self.features = set()

    def step(self, stmt, err=None, ok_print=None, ok_text=None):
        """One step. err: None | int code | set of codes. ok_print: BASIC PRINT statement run when no error."""
        self.k += 1
        self.lines.append("T%% = %d : F%% = 0" % self.k)
        self.lines.append(stmt)
        if ok_print is not None:
            self.lines.append("IF F% = 0 THEN " + ok_print)
        if err is not None:
            self.expect.append(("err", self.k, {err} if isinstance(err, int) else set(err)))
            self.features.add("error_%s" % (err if isinstance(err, int) else "file"))
        elif ok_text is not None:
            self.expect.append(("text", ok_text.replace("@K@", num_text(self.k))))

    def rand_str(self, lo=0, hi=6):
        return "".join(self.rng.choice(ALPHA) for _ in range(self.rng.randrange(lo, hi + 1)))

    def pick_handle(self, want_open=None, mode=None):
        r = self.rng
        hs = [1, 2, 3]
        if want_open is True:
            c = [n for n in hs if n in self.m.h and (mode is None or self.m.h[n].mode in mode)]
        elif want_open is False:
            c = [n for n in hs if n not in self.m.h]
        else:
            c = hs
        return r.choice(c) if c else None

    def gen_op(self):
        r = self.rng
        m = self.m
        free_names = [n for n in NAMES if n not in m.open_names()]
        free_rnames = [n for n in RNAMES if n not in m.open_names()]
        # state-aware choice of the step kind; a quarter of the steps are picked blindly (protocol violations)
        modes = {hh.mode for hh in m.h.values()}
        if r.random() < 0.25:
            x = r.random()
        else:
            wts = [("open", 0.11, 3.0 if len(m.h) < 3 else 0.2), ("print", 0.30, 3.0 if "O" in modes else 0.0),
                   ("line", 0.45, 2.0 if "I" in modes else 0.0), ("input", 0.60, 2.0 if "I" in modes else 0.0),
                   ("eof", 0.70, 1.2 if "I" in modes else 0.0), ("close", 0.80, 1.2 if m.h else 0.0),
                   ("kill", 0.84, 0.3), ("name", 0.88, 0.3), ("random", 0.95, 4.0 if "R" in modes else 0.0)]
            tot = sum(wt for _, _, wt in wts)
            y = r.random() * tot
            x = 0.0
            for _, xv, wt in wts:
                if y < wt:
                    x = xv
                    break
                y -= wt
        if x < 0.22:
            # OPEN
            n = r.choice([1, 2, 3])
            if r.random() < 0.8 and len(m.h) < 3:
                n = r.choice([k for k in (1, 2, 3) if k not in m.h])
            mode = r.choice(["OUTPUT", "APPEND", "INPUT", "INPUT", "RANDOM"])
            if r.random() < 0.06:
                name = r.choice(BAD_NAMES)
            elif not (free_rnames if mode == "RANDOM" else free_names):
                return
            else:
                name = r.choice(free_rnames if mode == "RANDOM" else free_names)
                with_content = [k for k in free_names if m.store.get(k)]
                if mode == "INPUT" and with_content and r.random() < 0.85:
                    name = r.choice(with_content)
            reclen = r.choice([4, 6, 8])
            stmt = 'OPEN "%s" FOR %s AS #%d' % (name, mode, n) + (" LEN = %d" % reclen if mode == "RANDOM" else "")
            if n in m.h:
                self.step(stmt, err=55)
                self.features.add("open_handle_in_use")
                return
            if name in BAD_NAMES:
                # cannot be created / is not a file: some file error, and nothing is opened
                if name == "SUB" and mode == "INPUT":
                    return  # opening a directory for reading succeeds on this platform; reading it is unspecified
                self.step(stmt, err=FILE_ERRORS)
                self.features.add("bad_name")
                return
            if mode == "INPUT":
                if name not in m.store:
                    self.step(stmt, err=53)
                    return
                m.h[n] = H("I", name)
            elif mode == "OUTPUT":
                m.store[name] = ""
                m.h[n] = H("O", name)
            elif mode == "APPEND":
                m.store.setdefault(name, "")
                m.h[n] = H("O", name)
                self.features.add("append")
            else:
                m.store.setdefault(name, "")
                hh = H("R", name)
                hh.rec_len = reclen
                m.h[n] = hh
            self.step(stmt)
        elif x < 0.40:
            # PRINT #
            n = self.pick_handle(True, "O") if r.random() < 0.8 else r.choice([1, 2, 3])
            if n is None:
                return
            items = []
            text = ""
            for i in range(r.choice([1, 1, 2, 3])):
                if r.random() < 0.7:
                    s = self.rand_str(0, 6)
                    items.append('"%s"' % s)
                    text += s
                else:
                    v = r.randrange(-99, 1000)
                    items.append(str(v))
                    text += num_text(v)
            trailing = r.random() < 0.2
            stmt = "PRINT #%d, " % n + "; ".join(items) + (";" if trailing else "")
            if not trailing:
                text += "\r\n"
            if n not in m.h or m.h[n].mode != "O":
                self.step(stmt, err=FILE_ERRORS)
                self.features.add("print_closed" if n not in m.h else "print_wrong_mode")
                return
            m.store[m.h[n].name] += text
            self.step(stmt)
            self.features.add("print")
        elif x < 0.52:
            # LINE INPUT #
            n = self.pick_handle(True, "I") if r.random() < 0.8 else r.choice([1, 2, 3])
            if n is None:
                return
            stmt = "LINE INPUT #%d, L$" % n
            if n not in m.h or m.h[n].mode != "I":
                self.step(stmt, err=FILE_ERRORS)
                self.features.add("read_closed" if n not in m.h else "read_wrong_mode")
                return
            hh = m.h[n]
            data = m.store[hh.name]
            if hh.pos >= len(data):
                self.step(stmt, err=62)
                return
            line, hh.pos = read_line(data, hh.pos)
            self.step(stmt, ok_print='PRINT "L"; T%; "["; L$; "]"', ok_text="L" + "@K@" + "[" + line + "]\r\n")
            self.features.add("line_input")
        elif x < 0.64:
            # INPUT #
            n = self.pick_handle(True, "I") if r.random() < 0.8 else r.choice([1, 2, 3])
            if n is None:
                return
            if n not in m.h or m.h[n].mode != "I":
                self.step("INPUT #%d, S1$" % n, err=FILE_ERRORS)
                return
            hh = m.h[n]
            data = m.store[hh.name]
            nv = r.choice([1, 1, 2])
            pos = hh.pos
            vars_ = []
            shown = []
            failed = False
            for i in range(nv):
                if pos >= len(data):
                    failed = True
                    break
                if data[pos:].strip(" ") == "":
                    return   # only blanks left: whether that is a field is not specified
                nfld, npos = read_number_field(data, pos)
                iv = clean_int(nfld)
                if iv is not None and r.random() < 0.6:
                    # a numeric variable takes the number up to the next blank, comma or line end
                    vars_.append("N%d%%" % i)
                    shown.append(num_text(iv))
                    pos = npos
                    self.features.add("input_number_ended_by_blank" if npos < len(data) and data[npos - 1] == " " else "input_number")
                else:
                    fld, pos = read_field(data, pos)
                    vars_.append("S%d$" % i)
                    shown.append("[" + fld + "]")
            if failed:
                # the variable list runs past the end of the file
                # (string and numeric variables alike: nothing is left to read)
                vars_ += [("S%d$" if r.random() < 0.5 else "N%d%%") % i for i in range(len(vars_), nv)]
                hh.pos = len(data)
                self.step("INPUT #%d, %s" % (n, ", ".join(vars_)), err=62)
                self.features.add("input_past_end")
                return
            hh.pos = pos
            pr = 'PRINT "I"; T%; ' + "; ".join(('"["; %s; "]"' % v) if v.endswith("$") else v for v in vars_)
            self.step("INPUT #%d, %s" % (n, ", ".join(vars_)), ok_print=pr, ok_text="I" + "@K@" + "".join(shown) + "\r\n")
            self.features.add("input")
        elif x < 0.72:
            # EOF
            n = self.pick_handle(True, "I") if r.random() < 0.85 else r.choice([1, 2, 3])
            if n is None:
                return
            stmt = "X%% = EOF(%d)" % n
            if n not in m.h or m.h[n].mode != "I":
                self.step(stmt, err=FILE_ERRORS)
                return
            hh = m.h[n]
            at_end = hh.pos >= len(m.store[hh.name])
            self.step(stmt, ok_print='PRINT "F"; T%; X%', ok_text="F" + "@K@" + num_text(-1 if at_end else 0) + "\r\n")
            self.features.add("eof_true" if at_end else "eof_false")
        elif x < 0.82:
            # CLOSE
            y = r.random()
            if y < 0.2:
                m.h.clear()
                self.step("CLOSE")
                self.features.add("close_all")
            elif y < 0.35:
                a, b = r.sample([1, 2, 3], 2)
                m.h.pop(a, None)
                m.h.pop(b, None)
                self.step("CLOSE #%d, #%d" % (a, b))
            else:
                n = self.pick_handle(True) if r.random() < 0.8 else r.choice([1, 2, 3])
                if n is None:
                    return
                m.h.pop(n, None)
                self.step("CLOSE #%d" % n if r.random() < 0.7 else "CLOSE %d" % n)
        elif x < 0.86:
            # KILL
            if not free_names + free_rnames:
                return
            name = r.choice(free_names + free_rnames)
            if name not in m.store:
                self.step('KILL "%s"' % name, err=53)
            else:
                del m.store[name]
                self.step('KILL "%s"' % name)
                self.features.add("kill")
        elif x < 0.89:
            # NAME
            if len(free_names) < 2:
                return
            a, b = r.sample(free_names, 2)
            if a not in m.store:
                self.step('NAME "%s" AS "%s"' % (a, b), err=53)
            elif b in m.store:
                return   # QBasic: File already exists; not part of the property
            else:
                m.store[b] = m.store.pop(a)
                self.step('NAME "%s" AS "%s"' % (a, b))
                self.features.add("name")
        else:
            # random-access operations
            n = self.pick_handle(True, "R") if r.random() < 0.85 else r.choice([1, 2, 3])
            if n is None:
                return
            hh = m.h.get(n)
            y = r.random()
            if hh is None or hh.mode != "R":
                if y < 0.5:
                    self.step("GET #%d, 1" % n, err=FILE_ERRORS)
                else:
                    self.step('FIELD #%d, 2 AS Q%dA$' % (n, n), err=FILE_ERRORS)
                self.features.add("random_op_on_wrong_handle")
                return
            if hh.fields is None:
                w1 = r.randrange(1, hh.rec_len)
                w2 = hh.rec_len - w1
                if r.random() < 0.4 and w2 > 1:
                    # the FIELD list need not fill the record
                    w2 = r.randrange(1, w2)
                    self.features.add("field_list_narrower_than_record")
                if r.random() < 0.1:
                    self.step("FIELD #%d, %d AS Q%dA$, %d AS Q%dB$" % (n, w1, n, hh.rec_len - w1 + 1, n), err=50)
                    self.features.add("field_overflow")
                    return
                hh.fields = [(w1, "Q%dA$" % n), (w2, "Q%dB$" % n)]
                self.step("FIELD #%d, %d AS Q%dA$, %d AS Q%dB$" % (n, w1, n, w2, n))
                if r.random() < 0.4:
                    # a second FIELD statement on the same handle: another view of the same record buffer, from its first byte
                    hh.fields2 = [(w1 + w2, "Q%dC$" % n)]
                    self.step("FIELD #%d, %d AS Q%dC$" % (n, w1 + w2, n))
                    self.features.add("two_field_lists_on_one_handle")
                return
            data = m.store[hh.name]
            if y < 0.55:
                rec = r.randrange(1, 5)
                vals = []
                for w, v in hh.fields:
                    # mostly values of exactly the field width (padding of shorter values is not specified)
                    z = r.random()
                    ln = w if z < 0.6 else (r.randrange(0, w) if z < 0.8 else w + r.randrange(1, 3))
                    s = "".join(r.choice("abcXYZ129") for _ in range(ln))
                    vals.append(s)
                    self.step('LSET %s = "%s"' % (v, s))
                stmt = "PUT #%d, %d" % (n, rec)
                payload = ""
                known = ""
                for (w, v), s in zip(hh.fields, vals):
                    payload += s[:w] + "\0" * (w - len(s[:w]))
                    known += "K" * len(s[:w]) + "P" * (w - len(s[:w]))
                off = (rec - 1) * hh.rec_len
                if len(data) < off:
                    data = data + "\0" * (off - len(data))
                m.store[hh.name] = data[:off] + payload + data[off + len(payload):]
                hh.__dict__.setdefault("pad", {})[rec] = known
                hh.__dict__.setdefault("put", {})[rec] = vals
                self.step(stmt)
                self.features.add("put")
            else:
                total = sum(w for w, _ in hh.fields)
                puts = [rec for rec in range(1, 5) if len(data) >= (rec - 1) * hh.rec_len + total]
                if not puts:
                    return
                rec = r.choice(puts)
                chunk = data[(rec - 1) * hh.rec_len: rec * hh.rec_len]
                chunk += "\0" * (hh.rec_len - len(chunk))
                views = list(hh.fields)
                parts = []
                o = 0
                for w, v in hh.fields:
                    parts.append(("[", chunk[o:o + w], "]"))
                    o += w
                for w, v in (hh.__dict__.get("fields2") or []):
                    views.append((w, v))
                    parts.append(("[", chunk[0:w], "]"))
                pr = 'PRINT "G"; T%; ' + "; ".join('"["; %s; "]"' % v for w, v in views)
                self.step("GET #%d, %d" % (n, rec), ok_print=pr)
                self.expect.append(("get", self.k, [p[1] for p in parts]))
                self.features.add("get")

    def program(self, steps):
        for _ in range(steps):
            self.gen_op()
        self.lines.append("CLOSE")
        self.lines.append('PRINT "done"')
        self.lines.append("END")
        self.lines.append("Handler:")
        self.lines.append('F% = ERR : PRINT "E"; T%; ERR')
        self.lines.append("RESUME NEXT")
        self.expect.append(("text", "done\r\n"))
        return "\n".join(self.lines) + "\n"


def seed_store(rng):
    store = {}
    for name in NAMES[:2]:
        if rng.random() < 0.5:
            lines = []
            for _ in range(rng.randrange(0, 4)):
                lines.append("".join(rng.choice(ALPHA) for _ in range(rng.randrange(0, 7))))
            store[name] = "".join(l + "\r\n" for l in lines)
    return store


def judge_history(g, rep, store0):
    oc = outcome(rep)
    if oc[0] in ("watchdog", "harness_error", "died", "budget"):
        return ("INCONCLUSIVE", oc[0])
    if oc[0] == "panic":
        return ("panic", "panic: %s" % rep.get("panic"))
    if oc[0] in ("parse_error", "lint_error"):
        e = rep.get("parse") if oc[0] == "parse_error" else rep.get("lint")
        return ("rejected", "program rejected: %s" % e)
    if oc[0] != "ok":
        return ("unhandled_error", "run ended with %s at %s" % (oc, rep["run"]["result"].get("pos")))
    out = rep["run"]["stdout"]
    pos = 0
    for e in g.expect:
        if e[0] == "text":
            if not out.startswith(e[1], pos):
                return ("report", "at offset %d expected %r, got %r" % (pos, e[1], out[pos:pos + len(e[1]) + 20]))
            pos += len(e[1])
        elif e[0] == "err":
            head = "E" + num_text(e[1])
            if not out.startswith(head, pos):
                return ("missing_error", "step %d should raise %s, output continues with %r" % (e[1], sorted(e[2]), out[pos:pos + 30]))
            j = out.find("\r\n", pos)
            try:
                code = int(out[pos + len(head):j].strip())
            except ValueError:
                return ("report", "unreadable error line %r" % out[pos:j])
            if code not in e[2]:
                return ("wrong_error", "step %d raised %d, expected %s" % (e[1], code, sorted(e[2])))
            pos = j + 2
        else:
            head = "G" + num_text(e[1])
            if not out.startswith(head, pos):
                return ("report", "GET step %d: expected report, got %r" % (e[1], out[pos:pos + 30]))
            pos += len(head)
            for exp in e[2]:
                if out[pos:pos + 1] != "[":
                    return ("report", "GET step %d: malformed %r" % (e[1], out[pos:pos + 30]))
                got = out[pos + 1:pos + 1 + len(exp)]
                if out[pos + 1 + len(exp):pos + 2 + len(exp)] != "]":
                    return ("get_width", "GET step %d: field is not %d characters wide: %r" % (e[1], len(exp), out[pos:pos + len(exp) + 8]))
                # padding characters of a value shorter than its field are not specified: blank and NUL are both accepted
                for a, b in zip(got, exp):
                    if a != b and not (b == "\0" and a in " \0"):
                        return ("get_value", "GET step %d returned %r, PUT stored %r" % (e[1], got, exp))
                pos += len(exp) + 2
            if not out.startswith("\r\n", pos):
                return ("report", "GET step %d: trailing %r" % (e[1], out[pos:pos + 10]))
            pos += 2
    if pos != len(out):
        return ("report", "unexpected extra output %r" % out[pos:pos + 60])
    files = rep.get("files") or {}
    actual = {}
    for k, v in files.items():
        if isinstance(v, list):
            actual[k] = v[0]
    if set(actual) != set(g.m.store):
        return ("store_names", "files at the end %s, model %s" % (sorted(actual), sorted(g.m.store)))
    for k, v in g.m.store.items():
        a = actual[k]
        if len(a) != len(v) or any(x != y and not (y == "\0" and x in " \0") for x, y in zip(a, v)):
            return ("store_content", "file %s holds %r, model %r" % (k, a[:120], v[:120]))
    return None


# ---- console vs file ----

def hostile_text(rng):
    parts = []
    for _ in range(rng.randrange(1, 6)):
        ln = "".join(rng.choice('ab ,"1-.\t') for _ in range(rng.randrange(0, 9)))
        parts.append(ln + rng.choice(["\r\n", "\n", "\r", "\r\n", ""]))
    return "".join(parts)


def console_file_pair(rng):
    text = hostile_text(rng)
    kind = rng.choice(["line", "input", "input2", "mixed", "inputnum"])
    if kind == "inputnum":
        # numeric fields: blanks end a number
        parts = []
        for _ in range(rng.randrange(1, 5)):
            ln = "".join(rng.choice(["1", "2", "30", " ", " ", ",", "-4", ".5", "  "]) for _ in range(rng.randrange(1, 7)))
            parts.append(ln + rng.choice(["\r\n", "\n", "\r", ""]))
        text = "".join(parts)
    reads_c, reads_f = [], []
    k = rng.randrange(1, 6)
    for i in range(k):
        kk = kind if kind != "mixed" else rng.choice(["line", "input"])
        if kk == "line":
            reads_c.append('LINE INPUT A$ : PRINT "<"; A$; ">"')
            reads_f.append('LINE INPUT #1, A$ : PRINT "<"; A$; ">"')
        elif kk == "inputnum":
            reads_c.append('INPUT N!, M! : PRINT "<"; N!; M!; ">"')
            reads_f.append('INPUT #1, N!, M! : PRINT "<"; N!; M!; ">"')
        elif kk == "input":
            reads_c.append('INPUT A$ : PRINT "<"; A$; ">"')
            reads_f.append('INPUT #1, A$ : PRINT "<"; A$; ">"')
        else:
            reads_c.append('INPUT A$, B$ : PRINT "<"; A$; "|"; B$; ">"')
            reads_f.append('INPUT #1, A$, B$ : PRINT "<"; A$; "|"; B$; ">"')
    src_c = "\n".join(reads_c) + '\nPRINT "end"\n'
    src_f = 'OPEN "T.TXT" FOR INPUT AS #1\n' + "\n".join(reads_f) + '\nPRINT "end"\nCLOSE\n'
    return text, src_c, src_f


def roundtrip(rng):
    """Write lines in two sessions (OUTPUT, then APPEND), read everything back until EOF."""
    how = rng.choice(["line", "field", "numbers"])
    lines = []
    src = []
    h1, h2, h3 = rng.sample([1, 2, 3], 3)
    name = rng.choice(NAMES)
    content = ""
    expected = ""
    for session, (mode, h) in enumerate((("OUTPUT", h1), ("APPEND", h2))):
        src.append('OPEN "%s" FOR %s AS #%d' % (name, mode, h))
        for _ in range(rng.randrange(0, 5)):
            if how == "line":
                parts = []
                text = ""
                for _ in range(rng.choice([1, 1, 2, 3])):
                    if rng.random() < 0.75:
                        t = "".join(rng.choice('abXY ,1;:.') for _ in range(rng.randrange(0, 9)))
                        parts.append('"%s"' % t)
                        text += t
                    else:
                        v = rng.randrange(-999, 10000)
                        parts.append(str(v))
                        text += num_text(v)
                src.append("PRINT #%d, %s" % (h, "; ".join(parts)))
                content += text + "\r\n"
                expected += "[" + text + "]\r\n"
            elif how == "numbers":
                # numbers written with semicolons are separated by blanks only
                vals = [rng.randrange(-999, 100000) for _ in range(rng.choice([1, 2, 3, 4]))]
                src.append("PRINT #%d, %s" % (h, "; ".join(str(v) for v in vals)))
                content += "".join(num_text(v) for v in vals) + "\r\n"
                for v in vals:
                    expected += "[" + num_text(v) + "]\r\n"
            else:
                flds = []
                for _ in range(rng.choice([1, 2, 3])):
                    if rng.random() < 0.6:
                        a = "".join(rng.choice("abXY1.") for _ in range(rng.randrange(1, 6)))
                        b = "".join(rng.choice("abXY1.") for _ in range(rng.randrange(1, 4)))
                        flds.append(a + (" " + b if rng.random() < 0.3 else ""))
                    else:
                        flds.append(str(rng.randrange(-999, 10000)))
                src.append('PRINT #%d, "%s"' % (h, ",".join(flds)))
                content += ",".join(flds) + "\r\n"
                for f in flds:
                    expected += "[" + f + "]\r\n"
        src.append("CLOSE #%d" % h if rng.random() < 0.5 else "CLOSE")
    src.append('OPEN "%s" FOR INPUT AS #%d' % (name, h3))
    src.append("WHILE NOT EOF(%d)" % h3)
    if how == "numbers":
        src.append("  INPUT #%d, N&" % h3)
        src.append('  PRINT "["; N&; "]"')
    else:
        src.append(("  LINE INPUT #%d, L$" if how == "line" else "  INPUT #%d, L$") % h3)
        src.append('  PRINT "["; L$; "]"')
    src.append("WEND")
    src.append('PRINT "eof"; EOF(%d)' % h3)
    src.append("CLOSE")
    expected += "eof-1 \r\n"
    return "\n".join(src) + "\n", name, content, expected


def strip_prompts(out):
    # console INPUT writes a "? " prompt; the harness's stdin is not echoed
    return out.replace("? ", "")


def shard(ctx):
    r = ShardResult()
    rng = ctx.rng
    w = Worker()
    n = ctx.params["n"] // ctx.n
    feats = {}
    for i in range(n):
        mode = rng.random()
        if mode < 0.12:
            src, name, content, expected = roundtrip(rng)
            rep = w.run(src, want=["files"], files={}, budget=400000)
            oc = outcome(rep)
            if oc[0] in ("watchdog", "harness_error", "died", "budget"):
                r.inconc(oc[0])
                continue
            r.evaluations += 1
            r.count("roundtrip", group="workload")
            if content:
                r.nontrivial.add(h64(src))
            got = rep.get("run", {}).get("stdout", "")
            fl = (rep.get("files") or {}).get(name)
            fl = fl[0] if isinstance(fl, list) else None
            if oc[0] != "ok" or got != expected or fl != content:
                r.fail("C18:roundtrip:%s" % ("outcome" if oc[0] != "ok" else "read_back" if got != expected else "file_content"),
                       "outcome %s; read back %r, expected %r; file %r, expected %r | program:\n%s" % (oc, got, expected, fl, content, src), {"kind": "roundtrip", "src": src})
        elif mode < 0.8:
            store0 = seed_store(rng)
            g = Gen(rng, store0)
            src = g.program(rng.choice([6, 12, 20, 30]))
            files = dict(store0)
            files["SUB"] = "<dir>"
            rep = w.run(src, want=["files"], files=files, budget=400000)
            if isinstance(rep.get("files"), dict):
                rep["files"].pop("SUB", None)
            v = judge_history(g, rep, store0)
            if v is not None and v[0] == "INCONCLUSIVE":
                r.inconc(v[1])
                continue
            r.evaluations += 1
            r.count("history", group="workload")
            r.count("steps", g.k)
            for f in g.features:
                r.count(f, group="features_exercised")
            if len(g.features) >= 4:
                r.nontrivial.add(h64(src))
            if v is not None:
                r.fail("C18:history:%s" % v[0], v[1] + " | initial files: %r | program:\n%s" % (store0, src[:2500]), {"kind": "history", "src": src, "files": files})
            elif len(r.samples) < 2 and g.k <= 12 and len(g.features) >= 5:
                r.sample({"program": src, "stdout": rep["run"]["stdout"], "files_at_end": {k: v for k, v in (rep.get("files") or {}).items()}})
        else:
            text, src_c, src_f = console_file_pair(rng)
            rc = w.run(src_c, stdin=text, budget=100000)
            rf = w.run(src_f, files={"T.TXT": text}, budget=100000)
            oc, of = outcome(rc), outcome(rf)
            if oc[0] in ("watchdog", "harness_error", "died", "budget") or of[0] in ("watchdog", "harness_error", "died", "budget"):
                r.inconc(oc[0] + "/" + of[0])
                continue
            r.evaluations += 1
            r.count("console_vs_file", group="workload")
            if len(text) > 3:
                r.nontrivial.add(h64(text + src_c))
            a = strip_prompts(rc.get("run", {}).get("stdout", ""))
            b = rf.get("run", {}).get("stdout", "")
            ca = oc[:2] if oc[0] == "error" else oc[:1]
            cb = of[:2] if of[0] == "error" else of[:1]
            if a != b or ca != cb:
                r.fail("C18:console_vs_file:%s" % ("output" if a != b else "outcome"),
                       "text %r: console gives %r %s, file gives %r %s | console program:\n%s" % (text, a, ca, b, cb, src_c), {"kind": "cvf", "text": text, "src_c": src_c, "src_f": src_f})
    w.close()
    return r


RULE = ("random histories of 6-30 steps over handles #1-#3 and files A.TXT, B.TXT, C.DAT (plus a name in a missing directory and the name of a directory), some files pre-existing; "
        "step kinds OPEN (OUTPUT/APPEND/INPUT/RANDOM), PRINT #, LINE INPUT #, INPUT # (1-2 variables, string and numeric), EOF, CLOSE (one, two, all), KILL, NAME, FIELD, LSET, PUT, GET; "
        "about a third of the steps violate the protocol (handle in use, closed handle, wrong mode, missing file, reading past the end, FIELD wider than the record); every step reports its "
        "result or ERR through an ON ERROR handler and the report plus the directory contents at the end are compared with the model; plus hostile texts (commas, quotes, blanks, tabs, CR/LF/CRLF "
        "mixes, no final newline) read by INPUT / LINE INPUT from the console and by INPUT # / LINE INPUT # from a file; non-trivial = at least 4 distinct features in the history (or a text "
        "longer than 3 bytes); distinct by program text")


def main(tier, seed):
    params = {"n": 16000 if tier == "quick" else 400000}
    return driver.run_check(
        PID, shard, params, tier, seed,
        min_evaluations=10000 if tier == "quick" else 250000,
        rule=RULE,
        assumptions=["the same file is never open on two handles at once; KILL and NAME are only applied to closed files and NAME never targets an existing file (QBasic errors the property does not list)",
                     "padding of a field value shorter than its FIELD width (blank or NUL) is not judged; GET is only applied to records inside the file's extent",
                     "the class 'a file error' is any of the QBasic file error codes 50-76"],
    )


def replay(rec):
    driver.build()
    c = rec["case"]
    w = Worker()
    if c.get("kind") == "cvf":
        rc = w.run(c["src_c"], stdin=c["text"], budget=100000)
        rf = w.run(c["src_f"], files={"T.TXT": c["text"]}, budget=100000)
        a = strip_prompts(rc.get("run", {}).get("stdout", ""))
        b = rf.get("run", {}).get("stdout", "")
        w.close()
        if a == b and outcome(rc)[:2] == outcome(rf)[:2]:
            print("replay: case now passes")
            return 0
        print("replay: console %r vs file %r" % (a, b))
        print("VIOLATION property=%s replay=(replayed)" % PID)
        return 1
    rep = w.run(c["src"], want=["files"], files=c.get("files", {}), budget=400000)
    w.close()
    print("replay: stdout of the recorded history:\n" + rep.get("run", {}).get("stdout", ""))
    print("replay: compare with the expectation in the replay file ('what')")
    return 0
