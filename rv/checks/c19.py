"""C19 Bit-level primitives agree with two's complement and IEEE-754.

Oracle: the machine operations (i16 & | !, to_le_bytes, f64::to_bits / from_bits). Two monitors:
bitmon calls the public functions of rusty_variant directly (exhaustive over all 65536 INTEGER values,
structured + random pairs, structured + random doubles); the shards below observe the same primitives
end to end through BASIC programs (AND/OR/NOT, PEEK/POKE on an INTEGER variable, MKD$/CVD)."""
import random
import struct

from .. import driver
from ..driver import ShardResult, h64
from ..util import Packed, parse_num_token
from ..worker import Worker, outcome

PID = "C19"


def i16(x):
    x &= 0xFFFF
    return x - 0x10000 if x >= 0x8000 else x


def special_ints():
    s = [-32768, -32767, -1, 0, 1, 2, 255, 256, 32766, 32767, 0x5555, i16(0xAAAA), 0x00FF, i16(0xFF00)]
    s += [i16(1 << k) for k in range(16)] + [i16(~(1 << k)) for k in range(16)]
    return sorted(set(s))


def special_doubles(rng, n):
    out = [0.0, 1.0, -1.0, 2.0, 0.5, 1.5, 3.141592653589793, 1e300, -1e300, 1.7976931348623157e308, 2.2250738585072014e-308,
           5e-324, -5e-324, 2.0 ** 53, 2.0 ** 53 + 2, 2.0 ** 63, -(2.0 ** 63), 2.0 ** 64, 1e19, 123456789.125, 65, 0.1]
    out += [2.0 ** k for k in range(-1074, 1024, 37)]
    while len(out) < n:
        bits = rng.getrandbits(64)
        x = struct.unpack("<d", struct.pack("<Q", bits))[0]
        if x == x and x not in (float("inf"), float("-inf")):
            out.append(x)
    return out[:n]


def dbl_lit(x):
    """A BASIC expression that evaluates exactly to the double x: built from its bytes with CVD."""
    b = struct.pack("<d", x)
    return "CVD(" + " + ".join("CHR$(%d)" % c for c in b) + ")"


def gen_cases(tier, seed):
    rng = random.Random("C19/%d" % seed)
    cases = []
    sp = special_ints()
    pairs = [(a, b) for a in sp for b in sp]
    rng.shuffle(pairs)
    pairs = pairs[:1500 if tier == "quick" else 12000]
    pairs += [(rng.randrange(-32768, 32768), rng.randrange(-32768, 32768)) for _ in range(2000 if tier == "quick" else 60000)]
    for a, b in pairs:
        cases.append({"f": "and", "stmt": "A%% = %d : B%% = %d : PRINT A%% AND B%%" % (a, b), "exp": i16(a & b)})
        cases.append({"f": "or", "stmt": "A%% = %d : B%% = %d : PRINT A%% OR B%%" % (a, b), "exp": i16(a | b)})
    ints = range(-32768, 32768) if tier == "thorough" else sorted(set(sp + [rng.randrange(-32768, 32768) for _ in range(1500)]))
    for v in ints:
        cases.append({"f": "not", "stmt": "A%% = %d : PRINT NOT A%%" % v, "exp": i16(~v)})
        lo, hi = v & 0xFF, (v >> 8) & 0xFF
        cases.append({"f": "peek_lo", "stmt": "A%% = %d : PRINT PEEK(VARPTR(A%%))" % v, "exp": lo})
        cases.append({"f": "peek_hi", "stmt": "A%% = %d : PRINT PEEK(VARPTR(A%%) + 1)" % v, "exp": hi})
        cases.append({"f": "poke", "stmt": "A%% = 0 : POKE VARPTR(A%%), %d : POKE VARPTR(A%%) + 1, %d : PRINT A%%" % (lo, hi), "exp": v})
    for x in special_doubles(rng, 400 if tier == "quick" else 20000):
        lit = dbl_lit(x)
        # CVD(MKD$(x)) = x, compared by the program itself on the exact value
        cases.append({"f": "cvd_mkd", "stmt": "D# = %s : PRINT CVD(MKD$(D#)) = D#" % lit, "exp": -1})
        # the eight bytes of MKD$, least significant first, read back one by one through CVD of a rotated string is
        # not possible without ASC; instead compare MKD$(x) with the string built from the IEEE bytes
        b = struct.pack("<d", x)
        cases.append({"f": "mkd_bytes", "stmt": "D# = %s : PRINT MKD$(D#) = %s" % (lit, " + ".join("CHR$(%d)" % c for c in b)), "exp": -1})
    return cases


def shard(ctx):
    r = ShardResult()
    cases = gen_cases(ctx.tier, ctx.seed)
    mine = [cases[i] for i in ctx.indices(len(cases))]
    w = Worker()
    packed = Packed(w)
    for i in range(0, len(mine), 150):
        chunk = mine[i:i + 150]
        results = packed.run([c["stmt"] for c in chunk])
        for c, res in zip(chunk, results):
            r.evaluations += 1
            r.count(c["f"], group="end_to_end_families")
            r.nontrivial.add(h64(c["stmt"]))
            bad = None
            if res[0] == "line":
                v = parse_num_token(res[1])
                if v != c["exp"]:
                    bad = ("wrong_value", "printed %r, machine operation gives %d" % (res[1], c["exp"]))
            elif res[0] == "outcome" and res[1][0] in ("watchdog", "harness_error"):
                r.evaluations -= 1
                r.inconc(res[1][0])
                continue
            else:
                bad = (str(res[1][0]) if res[0] == "outcome" else "bad_output", "outcome %r" % (res[1],))
            if bad:
                r.fail("C19:e2e:%s:%s" % (c["f"], bad[0]), "%s => %s" % (c["stmt"][:200], bad[1]), c)
            elif len(r.samples) < 1 and c["f"] == "mkd_bytes":
                r.sample({"statement": c["stmt"][:300], "expected": c["exp"], "observed": res[1]})
    w.close()
    return r


RULE = ("bitmon: direct calls of qb_and, qb_or, Variant::and/or/unary_not, i32_to_bytes, bytes_to_i32, f64_to_bytes, bytes_to_f64 - exhaustive over all "
        "65536 INTEGER values and byte pairs, structured and random pairs, all powers of two, boundary mantissas, subnormals, |x| >= 2^63 and random finite bit patterns - "
        "each compared with the machine operation; end to end: the same primitives through BASIC programs (AND/OR/NOT, PEEK/POKE of an INTEGER variable via VARPTR, "
        "MKD$/CVD with doubles built from their IEEE bytes); non-trivial = result differs from both inputs (bitmon's count) / every end-to-end statement; distinct by arguments")


def main(tier, seed):
    return driver.run_check(
        PID, shard, {}, tier, seed,
        min_evaluations=500000,
        rule=RULE, packages=("rbmon", "bitmon"), external=("bitmon", []),
        assumptions=["the CPU's integer and IEEE-754 operations are the oracle", "doubles are injected into BASIC programs through CVD of their IEEE bytes, so the end-to-end MKD$ check relies on CVD (checked directly by bitmon)"],
    )


def replay(rec):
    driver.build(("rbmon", "bitmon"))
    c = rec["case"]
    if "stmt" in c:
        w = Worker()
        res = Packed(w).run([c["stmt"]])[0]
        w.close()
        ok = res[0] == "line" and parse_num_token(res[1]) == c["exp"]
        print("replay: %s => %r (expected %r)" % (c["stmt"][:200], res[1], c["exp"]))
        if not ok:
            print("VIOLATION property=%s replay=(replayed)" % PID)
            return 1
        return 0
    import subprocess
    args = [driver.HARNESS + "/target/verif/bitmon", "--replay", c.get("fn", "")] + [str(a) for a in c.get("args", [])]
    rc = subprocess.call(args)
    if rc == 1:
        print("VIOLATION property=%s replay=(replayed)" % PID)
    return 1 if rc == 1 else 0
