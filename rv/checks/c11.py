"""C11 Every diagnostic names the right place in the source.

Oracle: the emitter that writes a generated program records, for every statement, its row and column span in
the text as the user sees it (under blank lines, comments, colon-joined statements, random indentation and
LF / CRLF / CR / mixed line ends). One fault is injected at a statement chosen anywhere:
  run-time (division by zero, overflow, subscript out of range): the reference semantics says which statement
      fails and which call statements are active; the reported position list must be [failing statement,
      call sites innermost first ... main module], each (row, col) inside the span of that statement;
  static (type mismatch, undefined label, wrong argument count): row/col inside the faulty statement;
  syntax: the text of one statement is replaced by a broken one; the row must be that statement's row and the
      column between its first character and the next token after it."""
import random

from .. import driver
from ..driver import ShardResult, h64
from ..gen import GenCalls, emit_with_procs
from ..lang import number_statements
from ..ref import Discard, Interp, StepLimit
from ..worker import Worker, outcome

PID = "C11"

BROKEN = ["ZZ% = ", "ZZ% = (1 + ", "PRINT (", "ZZ% = 1 +", "ZZ% 5", "ZZ% = )", "GOTO", "FOR = 1 TO 2", "ZZ%( = 1", "= 5", "ZZ% = 1 1",
          "DIM", "ZZ% = 1 AND", "CONST = 3", "PRINT #", "ZZ$ = \"a\" + ", "NEXT 5", "ZZ% = 2 * * 3", "SELECT 5", "INPUT ,",
          # string literals without their closing quote: the fault is on this line, wherever on it the parser notices
          "PRINT \"abc", "ZZ$ = \"", "PRINT \"a\"; \"b c", "ZZ$ = \"x\" + \"y"]


def block_lists(stmts, depth=0, out=None):
    """All statement lists (with their nesting depth) in which a statement can be inserted."""
    if out is None:
        out = []
    out.append((stmts, depth))
    for s in stmts:
        k = s["k"]
        if k == "if":
            for _, body in s["arms"]:
                block_lists(body, depth + 1, out)
            if s.get("else") is not None:
                block_lists(s["else"], depth + 1, out)
        elif k == "select":
            for _, body in s["cases"]:
                block_lists(body, depth + 1, out)
            if s.get("else") is not None:
                block_lists(s["else"], depth + 1, out)
        elif k in ("for", "while", "do"):
            block_lists(s["body"], depth + 1, out)
    return out


def runtime_fault(rng):
    kind = rng.choice(["div", "overflow", "subscript"])
    if kind == "div":
        return kind, 11, [{"k": "assign", "lhs": ("var", "ZZ!"), "rhs": ("bin", "/", ("lit", "%", 1), ("var", "ZQ%"))}]
    if kind == "overflow":
        return kind, 6, [{"k": "assign", "lhs": ("var", "ZZ%"), "rhs": ("bin", "+", ("bin", "+", ("var", "ZQ%"), ("lit", "%", 32767)), ("lit", "%", 1))}]
    return kind, 9, [{"k": "dim", "text": "DIM ZA%(1 TO 2)", "decls": [{"name": "ZA%", "type": "%", "dims": [(("lit", "%", 1), ("lit", "%", 2))]}]},
                     {"k": "assign", "lhs": ("var", "ZZ%"), "rhs": ("idx", "ZA%", [("bin", "+", ("var", "ZQ%"), ("lit", "%", 3))])}]


def static_fault(rng, prog):
    kind = rng.choice(["type_mismatch", "type_mismatch2", "undefined_label", "arg_count"])
    if kind == "type_mismatch":
        return kind, {"k": "raw", "text": "ZS$ = 1"}
    if kind == "type_mismatch2":
        return kind, {"k": "raw", "text": 'PRINT 1 + "a"'}
    if kind == "undefined_label":
        return kind, {"k": "raw", "text": "GOTO NoSuchLabel9"}
    subs = [p for p in prog["procs"] if p["k"] == "sub"]
    if not subs:
        return "type_mismatch", {"k": "raw", "text": "ZS$ = 1"}
    p = rng.choice(subs)
    return kind, {"k": "raw", "text": p["name"] + " " + ", ".join("1" for _ in range(len(p["params"]) + 1 + rng.randrange(2)))}


def renumber(prog):
    counter = [0]
    number_statements(prog["main"], counter)
    for p in prog["procs"]:
        number_statements(p["body"], counter)


def line_table(src):
    """[(text, start offset)] of the rows of src under CR / LF / CRLF."""
    rows = []
    i = 0
    start = 0
    n = len(src)
    while i < n:
        c = src[i]
        if c == "\r":
            rows.append(src[start:i])
            i += 2 if i + 1 < n and src[i + 1] == "\n" else 1
            start = i
        elif c == "\n":
            rows.append(src[start:i])
            i += 1
            start = i
        else:
            i += 1
    rows.append(src[start:])
    return rows


def make_case(rng):
    g = GenCalls(rng, max_depth=rng.choice([2, 3, 4]), size=rng.choice([4, 6, 9]), allow_fractions=False, errors=0.0)
    prog = g.program()
    family = rng.choice(["runtime", "runtime", "static", "syntax"])
    # where: main or a procedure body, any nesting depth
    bodies = [("main", prog["main"])] + [(p["name"], p["body"]) for p in prog["procs"]]
    where, body = rng.choice(bodies) if rng.random() < 0.7 else bodies[0]
    lists = block_lists(body)
    lst, depth = rng.choice(lists)
    # never after a final END of the main module
    hi = len(lst)
    while hi > 0 and lst[hi - 1]["k"] == "end":
        hi -= 1
    at = rng.randrange(0, hi + 1)
    info = {"family": family, "where": "main" if where == "main" else "procedure", "depth": depth}
    target = None
    if family == "runtime":
        kind, code, stmts = runtime_fault(rng)
        lst[at:at] = stmts
        target = stmts[-1]
        info["kind"] = kind
    elif family == "static":
        kind, st = static_fault(rng, prog)
        lst[at:at] = [st]
        target = st
        info["kind"] = kind
    else:
        st = {"k": "raw", "text": "ZZ% = 12345"}      # placeholder, replaced in the text below
        lst[at:at] = [st]
        target = st
        info["kind"] = "syntax"
    renumber(prog)
    eol = rng.choice(["\n", "\r\n", "\r", ["\n", "\r\n"], ["\n", "\r\n", "\r"]])
    src, spans = emit_with_procs(prog, rng=rng, noise=rng.choice([0.0, 0.3, 0.6]), eol=eol)
    info["eol"] = repr(eol)
    return prog, src, spans, target, info


def handler_history(rng):
    """A history of trapped errors (RESUME NEXT / RESUME label out of nested calls, STATIC and ordinary SUBs) followed by one
    untrapped error; the expected position list follows from the construction."""
    def div(var):
        return {"k": "assign", "lhs": ("var", "ZZ!"), "rhs": ("bin", "/", ("lit", "%", 1), ("var", var))}

    def pr(text):
        return {"k": "print", "items": [("e", ("lit", "$", text))]}

    depth = rng.choice([1, 2, 3])
    procs = []
    fault = div("K%")
    body = [pr("in P%d" % depth)] + ([pr("x")] if rng.random() < 0.5 else []) + [fault, pr("after fault")]
    calls = []
    for d in range(depth, 0, -1):
        procs.insert(0, {"k": "sub", "name": "P%d" % d, "params": [("K%", "%")], "static": rng.random() < 0.4, "rtype": None, "body": body})
        call = {"k": "callsub", "name": "P%d" % d, "args": [("var", "K%")]}
        calls.insert(0, call)
        body = [pr("in P%d" % (d - 1))] + ([pr("y")] if rng.random() < 0.5 else []) + [call, pr("back in P%d" % (d - 1))]
    # calls[0] is the call of P1 that will be placed in the main module, calls[i] sits in the body of P(i)
    main = []
    rounds = rng.choice([0, 1, 2, 3])
    handlers = []
    deep = False
    for i in range(rounds):
        main.append({"k": "onerror", "mode": "goto", "label": "H%d" % i})
        main.append(pr("round %d" % i))
        how = rng.choice(["next", "label", "label"])
        y = rng.random()
        if y < 0.05:
            # a recursion without end: Out of stack space is raised 10000 calls deep and trapped there
            if not any(q["name"] == "Inf" for q in procs):
                procs.append({"k": "sub", "name": "Inf", "params": [("K%", "%")], "static": False, "rtype": None,
                              "body": [{"k": "callsub", "name": "Inf", "args": [("bin", "+", ("var", "K%"), ("lit", "%", 1))]}]})
            main.append({"k": "callsub", "name": "Inf", "args": [("lit", "%", 1)]})
            deep = True
        elif y < 0.7:
            main.append({"k": "callsub", "name": "P1", "args": [("lit", "%", 0)]})
        else:
            main.append(div("ZQ%"))
        if how == "label":
            main.append({"k": "label", "name": "R%d" % i})
            handlers += [{"k": "label", "name": "H%d" % i}, pr("handler %d" % i), {"k": "resume", "mode": "label", "label": "R%d" % i}]
        else:
            handlers += [{"k": "label", "name": "H%d" % i}, pr("handler %d" % i), {"k": "resume", "mode": "next"}]
        main.append(pr("after round %d" % i))
    main.append({"k": "onerror", "mode": "zero"})
    final = rng.choice(["main", "call", "call", "recursion"])
    if final == "recursion":
        # direct recursion: the same call statement is active several times
        n = rng.choice([1, 2, 3, 5])
        rfault = div("ZQ%")
        rcall = {"k": "callsub", "name": "Rec", "args": [("bin", "-", ("var", "K%"), ("lit", "%", 1))]}
        procs.append({"k": "sub", "name": "Rec", "params": [("K%", "%")], "static": False, "rtype": None,
                      "body": [pr("in Rec"), {"k": "if", "arms": [(("bin", ">", ("var", "K%"), ("lit", "%", 0)), [rcall])], "else": [rfault]}, pr("back in Rec")]})
        c0 = {"k": "callsub", "name": "Rec", "args": [("lit", "%", n)]}
        main.append(c0)
        main.append({"k": "end"})
        main += handlers
        prog = {"main": main, "procs": procs, "shared": set()}
        return prog, [rfault] + [rcall] * n + [c0], {"rounds": rounds, "depth": n + 1, "final": final, "static": sum(1 for q in procs if q["static"]), "deep": deep}
    if final == "main":
        f = div("ZQ%")
        main.append(f)
        expected = [f]
    else:
        c0 = {"k": "callsub", "name": "P1", "args": [("lit", "%", 0)]}
        main.append(c0)
        expected = [fault] + list(reversed(calls[1:])) + [c0]
    main.append({"k": "end"})
    main += handlers
    prog = {"main": main, "procs": procs, "shared": set()}
    return prog, expected, {"rounds": rounds, "depth": depth, "final": final, "static": sum(1 for q in procs if q["static"]), "deep": deep}


def in_span(pos, span, slack_hi=0):
    return pos[0] == span[0] and span[1] <= pos[1] < span[2] + slack_hi


def run_history(w, rng, r):
    prog, expected, info = handler_history(rng)
    renumber(prog)
    eol = rng.choice(["\n", "\r\n", "\r", ["\n", "\r\n", "\r"]])
    src, spans = emit_with_procs(prog, rng=rng, noise=rng.choice([0.0, 0.3, 0.6]), eol=eol)
    rep = w.run(src, budget=3000000 if info.get("deep") else 200000)
    oc = outcome(rep)
    if oc[0] in ("watchdog", "harness_error", "died", "budget"):
        r.inconc(oc[0])
        return
    r.evaluations += 1
    r.count("runtime_after_handler_history", group="fault_kinds")
    if info.get("deep"):
        r.count("trapped_out_of_stack_space", group="handler_history")
    r.count("handled_rounds_%d" % info["rounds"], group="handler_history")
    r.count("call_depth_%d" % (len(expected) - 1), group="call_depth_at_fault")
    if info["rounds"] >= 1:
        r.nontrivial.add(h64(src))
    case = {"src": src, "info": info}
    if oc[0] != "error" or oc[1] != 11:
        r.fail("C11:history:outcome", "expected an untrapped division by zero, got %s | program:\n%s" % (oc, src[:1500]), case)
        return
    pos = rep["run"]["result"].get("pos") or []
    exp_spans = [spans.get(st["id"]) for st in expected]
    ok = len(pos) == len(exp_spans) and all(sp is not None and in_span(p, sp) for p, sp in zip(pos, exp_spans))
    if not ok:
        r.fail("C11:history:%s" % ("stack_length" if len(pos) != len(exp_spans) else "position"),
               "after %d trapped errors the untrapped one reports %s, expected spans %s (%s) | program:\n%s" % (info["rounds"], pos, exp_spans, info, src[:1500]), case)


def run_case(w, rng, r):
    if rng.random() < 0.15:
        return run_history(w, rng, r)
    prog, src, spans, target, info = make_case(rng)
    fam = info["family"]
    tspan = spans.get(target["id"])
    if tspan is None:
        r.discard("no_span")
        return
    case = {"src": src, "info": info}
    if fam == "runtime":
        prog["rows"] = {sid: sid for sid in spans}
        try:
            it = Interp(prog, max_steps=6000)
            res = it.execute()
        except Discard as d:
            r.discard(str(d))
            return
        except (StepLimit, RecursionError):
            r.discard("reference_limit")
            return
        rep = w.run(src, budget=600000)
        oc = outcome(rep)
        if oc[0] in ("watchdog", "harness_error", "died", "budget"):
            r.inconc(oc[0])
            return
        if res[0] == "ok":
            r.count("fault_not_reached")
            return
        r.evaluations += 1
        r.count("runtime_" + info["kind"], group="fault_kinds")
        r.count(info["where"], group="fault_site")
        r.count("nesting_depth_%d" % min(info["depth"], 4), group="fault_site")
        r.count("eol_" + info["eol"], group="line_ends")
        stack = [s for s in (res[3] or []) if s is not None]
        r.count("call_depth_%d" % min(len(stack), 4), group="call_depth_at_fault")
        if res[2] == target["id"]:
            r.count("injected_fault_reached")
        if len(stack) >= 1:
            r.nontrivial.add(h64(src))
        if oc[0] != "error" or oc[1] != res[1]:
            r.fail("C11:runtime:outcome", "reference: error %s at statement %s; implementation: %s | program:\n%s" % (res[1], spans.get(res[2]), oc, src[:1500]), case)
            return
        pos = rep["run"]["result"].get("pos") or []
        exp_spans = [spans.get(res[2])] + [spans.get(s) for s in reversed(stack)]
        if it.fail_any_row:
            exp_spans[0] = None
        if len(pos) != len(exp_spans):
            r.fail("C11:runtime:stack_length", "reported positions %s, expected %d entries (failing statement %s, call sites %s) | program:\n%s"
                   % (pos, len(exp_spans), exp_spans[0], exp_spans[1:], src[:1500]), case)
            return
        for i, (p, sp) in enumerate(zip(pos, exp_spans)):
            if sp is None:
                continue
            if p[0] != sp[0]:
                r.fail("C11:runtime:%s_row" % ("error" if i == 0 else "call_site"), "entry %d of %s: expected row %d (span %s); expected list %s | program:\n%s" % (i, pos, sp[0], sp, exp_spans, src[:1500]), case)
                return
            if not in_span(p, sp):
                r.fail("C11:runtime:%s_col" % ("error" if i == 0 else "call_site"), "entry %d of %s: column outside the statement's span %s | program:\n%s" % (i, pos, sp, src[:1500]), case)
                return
        if len(r.samples) < 3 and len(stack) >= 2 and len(src) < 1500:
            r.sample({"program": src, "reported": pos, "expected_spans(row,col_from,col_to)": exp_spans, "fault": info})
        return
    if fam == "static":
        rep = w.run(src, stop="lint")
        oc = outcome(rep)
        if oc[0] in ("watchdog", "harness_error", "died"):
            r.inconc(oc[0])
            return
        r.evaluations += 1
        r.count("static_" + info["kind"], group="fault_kinds")
        r.count(info["where"], group="fault_site")
        r.count("nesting_depth_%d" % min(info["depth"], 4), group="fault_site")
        r.count("eol_" + info["eol"], group="line_ends")
        if tspan[0] > 3:
            r.nontrivial.add(h64(src))
        if oc[0] != "lint_error":
            r.fail("C11:static:not_reported", "the %s fault at %s was not reported by the checker: %s | program:\n%s" % (info["kind"], tspan, oc, src[:1500]), case)
            return
        e = rep["lint"]
        r.count(e["kind"], group="lint_error_kinds")
        p = (e["row"], e["col"])
        if p[0] != tspan[0]:
            r.fail("C11:static:row", "%s (%s) reported at %s, the statement is at %s | program:\n%s" % (info["kind"], e["kind"], p, tspan, src[:1500]), case)
        elif not in_span(p, tspan):
            r.fail("C11:static:col", "%s (%s) reported at %s, outside the statement's span %s | program:\n%s" % (info["kind"], e["kind"], p, tspan, src[:1500]), case)
        return
    # syntax: replace the placeholder text by a broken statement
    rows = line_table(src)
    row, c0, c1 = tspan
    line = rows[row - 1]
    if line[c0 - 1:c1 - 1] != "ZZ% = 12345":
        r.discard("placeholder_not_found")
        return
    broken = rng.choice(BROKEN)
    # rebuild the text with the same line ends
    offset = 0
    # find the absolute offset of the row
    i = 0
    cur = 1
    n = len(src)
    while cur < row and i < n:
        if src[i] == "\r":
            i += 2 if i + 1 < n and src[i + 1] == "\n" else 1
            cur += 1
        elif src[i] == "\n":
            i += 1
            cur += 1
        else:
            i += 1
    a = i + c0 - 1
    b = i + c1 - 1
    new_src = src[:a] + broken + src[b:]
    new_line = line_table(new_src)[row - 1]
    end = c0 + len(broken)          # one past the broken text
    # the next token after the broken statement (the parser may only notice the fault there)
    j = end - 1
    while j < len(new_line) and new_line[j] in " \t":
        j += 1
    hi = j + 1
    if broken.count('"') % 2 == 1:
        hi = len(new_line) + 1
    rep = w.run(new_src, stop="parse")
    oc = outcome(rep)
    if oc[0] in ("watchdog", "harness_error", "died"):
        r.inconc(oc[0])
        return
    r.evaluations += 1
    r.count("syntax", group="fault_kinds")
    r.count(info["where"], group="fault_site")
    r.count("nesting_depth_%d" % min(info["depth"], 4), group="fault_site")
    r.count("eol_" + info["eol"], group="line_ends")
    if row > 3:
        r.nontrivial.add(h64(new_src))
    case = {"src": new_src, "info": info, "broken": broken}
    if oc[0] != "parse_error":
        r.fail("C11:syntax:not_reported", "broken statement %r at row %d not reported: %s | program:\n%s" % (broken, row, oc, new_src[:1500]), case)
        return
    e = rep["parse"]
    p = (e["row"], e["col"])
    if p[0] != row:
        r.fail("C11:syntax:row", "broken statement %r at row %d cols %d-%d, error %r reported at %s | program:\n%s" % (broken, row, c0, end, e["err"], p, new_src[:1500]), case)
    elif not (c0 <= p[1] <= hi):
        r.fail("C11:syntax:col", "broken statement %r at row %d cols %d-%d (next token at %d), error %r reported at %s | line: %r" % (broken, row, c0, end, hi, e["err"], p, new_line), case)


def shard(ctx):
    r = ShardResult()
    w = Worker()
    for index in ctx.indices(ctx.params["n"]):
        rng = random.Random("C11/%s/%d" % (ctx.seed, index))
        run_case(w, rng, r)
    w.close()
    return r


RULE = ("generated programs with 1-5 SUB/FUNCTIONs (calls nested in expressions, call depth up to 4) emitted with random blank lines, comment lines, trailing comments, colon-joined statements, "
        "random indentation and LF / CRLF / CR / mixed line ends; one fault injected at a statement chosen in the main module or a procedure body at any nesting depth: run-time (division by zero, "
        "overflow, subscript out of range; the reference semantics gives the failing statement and the active call statements), static (type mismatch, undefined label, wrong argument count), "
        "syntax (21 broken statement texts); non-trivial = the fault sits below row 3 or inside at least one call; distinct by program text")


def main(tier, seed):
    params = {"n": 24000 if tier == "quick" else 600000}
    return driver.run_check(
        PID, shard, params, tier, seed,
        min_evaluations=10000 if tier == "quick" else 250000,
        rule=RULE,
        assumptions=["the emitter's own row/column bookkeeping is the oracle for positions (rows counted with CR, LF and CRLF each ending one line)",
                     "a syntax error may be reported anywhere from the first character of the broken statement to the next token after it",
                     "run-time faults are only judged when the reference semantics reaches a failing statement; an overflowing FOR increment may be reported on the FOR or the NEXT row"],
    )


def replay(rec):
    driver.build()
    c = rec["case"]
    w = Worker()
    rep = w.run(c["src"], budget=600000)
    w.close()
    print("replay: outcome %s; parse %s lint %s run %s" % (outcome(rep), rep.get("parse"), rep.get("lint"), (rep.get("run") or {}).get("result")))
    print("replay: compare with the expectation recorded in the replay file ('what')")
    return 0
