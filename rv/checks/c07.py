"""C07 Parsing and checking any text ends with a program or a located error.

Oracle: crash/step monitor around parse_main_str + lint in the worker (caught panic + site, worker
death = stack overflow/abort, parser input-operation budget from hook H2) and an independent
computation of the positions that exist in the text."""
import random

from .. import corpus, driver
from ..btext import tokenize, untokenize
from ..driver import ShardResult, h64
from ..worker import Worker, outcome
from .common import norm_msg, panic_sig

PID = "C07"

KW = """PRINT DIM IF THEN ELSE ELSEIF END FOR TO STEP NEXT WHILE WEND DO LOOP UNTIL SELECT CASE IS SUB FUNCTION DECLARE
CONST INPUT LINE GOTO GOSUB RETURN DATA READ OPEN CLOSE AS TYPE LET DEFINT DEFSTR DEFLNG DEFSNG DEFDBL ON ERROR RESUME
LPRINT USING LOCATE COLOR CLS REDIM STATIC SHARED SYSTEM NAME KILL FIELD LSET GET PUT POKE PEEK ENVIRON VIEW WIDTH
AND OR NOT MOD INTEGER LONG SINGLE DOUBLE STRING OUTPUT APPEND RANDOM ACCESS LEN MID$ LEFT$ RIGHT$ INSTR CHR$ STR$
VAL UCASE$ LCASE$ LBOUND UBOUND EOF ERR VARPTR VARSEG MKD$ CVD SPACE$ STRING$ LTRIM$ RTRIM$ INKEY$ ENVIRON$ EXIT DEF SEG""".split()
IDS = ["A", "B%", "C&", "D!", "E#", "F$", "x", "foo", "Foo.Bar", "a.b.c%", "I", "N%", "S$", "Z9", "a.", "T", "U.V$"]
NUMS = ["0", "1", "2", "42", "32767", "32768", "65535", "65536", "2147483647", "2147483648", "4294967295", "4294967296",
        "99999999999999999999", "3.14", ".5", "5.", "1.5#", "7%", "7&", "7!", "&H10", "&HFFFF", "&H10000", "&HFFFFFFFF",
        "&HFFFFFFFFF", "&O17", "&O177777", "&O200000", "&H", "&O8", "1E5", "1D3", "0.0001"]
OPS = ["+", "-", "*", "/", "=", "<", ">", "<=", ">=", "<>", "(", ")", ",", ";", ":", "#", ".", "'", '"', "\\", "^", "?", "$", "%", "&", "!", "@", "[", "]", "{", "}", "_", "~", "|"]
EOLS = ["\n", "\r\n", "\r", "\n\n"]
STRS = ['"hello"', '""', '"a,b"', '"unterminated', '"x" "y"', '"café"', '"€"']
NONASCII = ["é", "Ω", "中", "\U0001f600", " ", "﻿", "\x00", "\x7f", "\x1a", "\x0c", "\x0b"]


def valid_position(text, row, col):
    """True iff (row, col) is the position of a character of the text (line terminators occupy the
    columns after the last character of their line) or the position immediately after its end."""
    if row < 1 or col < 1:
        return False
    # split into lines at CR, LF, CRLF
    lines = []
    cur = 0
    i = 0
    n = len(text)
    while i < n:
        c = text[i]
        if c == "\r":
            if i + 1 < n and text[i + 1] == "\n":
                lines.append(cur + 2)
                i += 2
            else:
                lines.append(cur + 1)
                i += 1
            cur = 0
        elif c == "\n":
            lines.append(cur + 1)
            i += 1
            cur = 0
        else:
            cur += 1
            i += 1
    lines.append(cur)  # the last (possibly empty) line
    nrows = len(lines)
    if row > nrows:
        # the end position may also be reported as the start of the row after the last one
        return row == nrows + 1 and col == 1
    width = lines[row - 1]
    # +1: position just after the last character of the row (end of text, or the end of a line)
    return col <= width + 1


def pbudget(text):
    return 100000 + 25000 * len(text)


def gen_random_bytes(rng):
    n = rng.choice([0, 1, 2, 3, 5, 8, 13, 21, 34, 55, 89, 144, 233, 400])
    mode = rng.randrange(4)
    if mode == 0:
        b = bytes(rng.randrange(256) for _ in range(n))
    elif mode == 1:
        b = bytes(rng.choice([rng.randrange(32, 127), 10, 13, 32, 34, 39, 58]) for _ in range(n))
    elif mode == 2:
        b = bytes(rng.choice(b"PRINT IF THEN FOR NEXT =+-*/()\"',:;%&!#$.0123456789AZaz\r\n\t ") for _ in range(n))
    else:
        b = "".join(chr(rng.choice([rng.randrange(32, 127), rng.randrange(128, 0x800), rng.randrange(0x800, 0xd7ff), 10])) for _ in range(n)).encode("utf-8")
    return b.decode("utf-8", "replace" if rng.random() < 0.5 else "ignore")


def gen_token_soup(rng):
    n = rng.randrange(1, 40)
    parts = []
    for _ in range(n):
        k = rng.random()
        if k < 0.32:
            w = rng.choice(KW)
            parts.append(w if rng.random() < 0.8 else w.lower())
        elif k < 0.47:
            parts.append(rng.choice(IDS))
        elif k < 0.6:
            parts.append(rng.choice(NUMS))
        elif k < 0.78:
            parts.append(rng.choice(OPS))
        elif k < 0.88:
            parts.append(rng.choice(EOLS))
        elif k < 0.93:
            parts.append(rng.choice(STRS))
        elif k < 0.96:
            parts.append(rng.choice(NONASCII))
        else:
            parts.append("\t")
        if rng.random() < 0.75:
            parts.append(" ")
    return "".join(parts)


def mutate(rng, text, other):
    """One byte- or token-level mutation of a program text."""
    k = rng.randrange(10)
    if not text:
        return text
    if k == 0:
        i = rng.randrange(len(text))
        return text[:i] + text[i + 1:]
    if k == 1:
        i = rng.randrange(len(text))
        return text[:i] + text[i] + text[i:]
    if k == 2 and len(text) > 1:
        i = rng.randrange(len(text) - 1)
        return text[:i] + text[i + 1] + text[i] + text[i + 2:]
    if k == 3:
        return text[: rng.randrange(len(text) + 1)]
    toks = tokenize(text)
    if not toks:
        return text
    if k == 4:
        i = rng.randrange(len(toks))
        del toks[i]
    elif k == 5:
        i = rng.randrange(len(toks))
        toks.insert(i, list(toks[i]))
    elif k == 6 and len(toks) > 1:
        i, j = rng.randrange(len(toks)), rng.randrange(len(toks))
        toks[i], toks[j] = toks[j], toks[i]
    elif k == 7:
        toks = toks[: rng.randrange(len(toks) + 1)]
    elif k == 8:
        i = rng.randrange(len(toks))
        toks[i] = ["sym", rng.choice(KW + OPS + NUMS + IDS)]
    else:
        t2 = tokenize(other)
        i = rng.randrange(len(toks) + 1)
        j = rng.randrange(len(t2) + 1)
        toks = toks[:i] + t2[j:]
    return untokenize(toks)


def gen_nesting(rng):
    # around the parser's own nesting limits (128 blocks, 400 expression levels) and far beyond them
    d = rng.choice([1, 2, 5, 10, 20, 50, 100, 127, 128, 129, 150, 200, 399, 400, 401, 1000, 3000, 20000])
    k = rng.randrange(16)
    if k >= 12:
        # keyword operators written directly in front of a parenthesis, nested in themselves, and mixed with calls and
        # unary minus: a look-ahead that re-parses its operand doubles the work per level
        d = min(d, rng.choice([8, 16, 24, 32, 48, 64, 120, 300]))
        if k == 12:
            kw = rng.choice(["NOT", "NOT ", "-", "- ", "1 AND", "1 OR", "7 MOD", "2 *", "LEN(STR$", "NOT(-"])
            if kw == "LEN(STR$":
                return "PRINT " + "LEN(STR$(" * d + "1" + "))" * d + "\n"
            if kw == "NOT(-":
                return "PRINT " + "NOT(-(" * d + "1" + "))" * d + "\n"
            return "PRINT " + (kw + "(") * d + "1" + ")" * d + "\n"
        if k == 13:
            ops = ["NOT(", "-(", "1 AND(", "1 OR(", "(", "3 MOD(", "NOT (", "1 < ("]
            return "X = " + "".join(rng.choice(ops) for _ in range(d)) + "1" + ")" * d + "\n"
        if k == 14:
            return "IF " + "NOT(" * d + "A" + ")" * d + " THEN PRINT 1\n" + "WHILE " + "NOT(" * d + "A" + ")" * d + "\nWEND\n"
        return "SELECT CASE " + "-(" * d + "1" + ")" * d + "\nCASE " + "NOT(" * d + "1" + ")" * d + " TO " + "(" * d + "2" + ")" * d + "\nEND SELECT\n"
    if k == 0:
        return "PRINT " + "(" * d + "1" + ")" * d + "\n"
    if k == 1:
        return "".join("IF A THEN\n" for _ in range(d)) + "PRINT 1\n" + "END IF\n" * d
    if k == 2:
        return "".join("FOR I%d = 1 TO 2\n" % i for i in range(d)) + "PRINT 1\n" + "NEXT\n" * d
    if k == 3:
        return "DO\n" * d + "PRINT 1\n" + "LOOP\n" * d
    if k == 4:
        return "".join("SELECT CASE A\nCASE 1\n" for _ in range(d)) + "PRINT 1\n" + "END SELECT\n" * d
    if k == 5:
        return "PRINT " + "F(" * d + "1" + ")" * d + "\n"
    if k == 6:
        return "PRINT " + "-" * d + "1\n"
    if k == 7:
        return "PRINT " + "NOT " * d + "1\n"
    if k == 8:
        return "A" + "x" * min(d * 10, 4000) + " = " + "9" * min(d * 10, 4000) + "\n"
    if k == 9:
        return "PRINT " + " + ".join(["1"] * min(d * 5, 30000)) + "\n"
    if k == 10:
        return "WHILE A\n" * d + "PRINT 1\n" + "WEND\n" * d
    # unbalanced versions
    return "PRINT " + "(" * d + "1" + ")" * rng.randrange(d) + "\n"


SEM_NAMES = ["A", "B", "Foo", "X.Y", "N"]
SEM_SUFFIX = ["", "%", "&", "!", "#", "$"]
BUILTIN_BASES = ["Chr", "Str", "String", "Len", "Mid", "Val", "Left", "Right", "Instr", "Space", "Err", "Eof", "Environ", "Inkey", "Ucase", "Lcase", "Ltrim", "Rtrim",
                 "Lbound", "Ubound", "Peek", "Cvd", "Mkd", "Varptr", "Varseg", "Beep", "Cls", "Color", "Locate", "Width", "Kill", "Name", "Close", "Field", "Lset", "Poke"]


def gen_const_chain(rng):
    """Constants defined from constants, each a few times the size of the one before (a kilobyte of text whose folded value grows geometrically)."""
    k = rng.choice([5, 12, 14, 15, 16, 20, 30, 45, 60])
    kind = rng.randrange(4)
    if kind == 0:
        seed, step = rng.choice(['"ab"', '"x"', '""', '"' + "q" * 100 + '"']), lambda a: "%s + %s" % (a, a)
        sfx = "$"
    elif kind == 1:
        seed, step = '"abc"', lambda a: "%s + %s + %s" % (a, a, a)
        sfx = rng.choice(["$", ""])
    elif kind == 2:
        seed, step = rng.choice(["2", "3&", "1.5", "2#", "-2"]), lambda a: "%s %s %s" % (a, rng.choice(["*", "+"]), a)
        sfx = rng.choice(["", "&", "#", "!", "%"])
    else:
        seed, step = rng.choice(['"ab"', "2"]), lambda a: "(%s) + (%s + %s)" % (a, a, a)
        sfx = ""
    lines = ["CONST K0%s = %s" % (sfx, seed)]
    for i in range(1, k):
        lines.append("CONST K%d%s = %s" % (i, sfx, step("K%d%s" % (i - 1, sfx))))
    lines.append(rng.choice(["PRINT LEN(K%d%s)" % (k - 1, sfx), "PRINT K%d%s" % (rng.randrange(k), sfx), ""]))
    if rng.random() < 0.3:
        rng.shuffle(lines)
    return "\n".join(lines) + "\n"


def gen_semantic_soup(rng):
    """Small programs that reuse one name in many roles (aimed at the linter's internal assumptions)."""
    n = rng.choice(SEM_NAMES)
    if rng.random() < 0.3:
        # the bare name of a built-in function or sub, used as an ordinary name with any suffix
        n = rng.choice(BUILTIN_BASES)
    stmts = []
    forms = [
        lambda: "CONST %s%s = %s" % (n, rng.choice(SEM_SUFFIX), rng.choice(["1", '"x"', "2.5", n, "1 + " + n])),
        lambda: "DIM %s%s" % (n, rng.choice(SEM_SUFFIX)),
        lambda: "DIM %s AS %s" % (n, rng.choice(["INTEGER", "LONG", "SINGLE", "DOUBLE", "STRING", "STRING * 3", "Card", n])),
        lambda: "DIM SHARED %s%s(%s)" % (n, rng.choice(SEM_SUFFIX), rng.choice(["5", "1 TO 3", "-1 TO 1, 2", n])),
        lambda: "DIM %s(3) AS Card" % n,
        lambda: "%s%s = %s" % (n, rng.choice(SEM_SUFFIX), rng.choice(["1", '"s"', n, n + "(1)", n + ".Suit", n + "$"])),
        lambda: "%s.Value = 5" % n,
        lambda: "%s(1).Suit = \"x\"" % n,
        lambda: "PRINT %s%s" % (n, rng.choice(SEM_SUFFIX + ["(1)", ".Value", "(1).Value", "(1, 2)"])),
        lambda: "FOR %s%s = 1 TO 2\nNEXT %s" % (n, rng.choice(SEM_SUFFIX + ["(1)", ".Value"]), rng.choice([n, "", n + "%", "Z"])),
        lambda: "%s:" % n.replace(".", ""),
        lambda: "GOTO %s" % n.replace(".", ""),
        lambda: "DEF%s %s-%s" % (rng.choice(["INT", "STR", "LNG", "SNG", "DBL"]), n[0], rng.choice(["Z", n[0], "A"])),
        lambda: "TYPE Card\nValue AS INTEGER\nSuit AS STRING * 9\nEND TYPE",
        lambda: "TYPE %s\n%s AS INTEGER\nEND TYPE" % (n.replace(".", ""), n.replace(".", "")),
        lambda: "DECLARE SUB %s (%s)" % (n.replace(".", ""), rng.choice(["", "X", "X%", "X AS INTEGER", n])),
        lambda: "DECLARE FUNCTION %s%s (%s)" % (n.replace(".", ""), rng.choice(SEM_SUFFIX), rng.choice(["", "X", "X$"])),
        lambda: "SUB %s (%s)\n%s = 1\nEND SUB" % (n.replace(".", ""), rng.choice(["", "X", n, n + "%"]), rng.choice([n, "X", n + "$"])),
        lambda: "FUNCTION %s%s (%s)\n%s = 1\nEND FUNCTION" % (n.replace(".", ""), rng.choice(SEM_SUFFIX), rng.choice(["", "X", n]), rng.choice([n, n + "%", "X"])),
        lambda: "%s %s" % (n.replace(".", ""), rng.choice(["", "1", "1, 2", n])),
        lambda: "X = %s(%s)" % (n, rng.choice(["", "1", "1, 2", '"a"'])),
        lambda: "INPUT %s%s" % (n, rng.choice(SEM_SUFFIX)),
        lambda: "READ %s%s" % (n, rng.choice(SEM_SUFFIX)),
        lambda: "SELECT CASE %s\nCASE 1 TO %s\nCASE IS > \"a\"\nEND SELECT" % (n, n),
        lambda: "REDIM %s(5)" % n,
        lambda: "ON ERROR GOTO %s" % n.replace(".", ""),
        lambda: "PRINT LEN(%s)" % rng.choice([n, n + "$", n + "(1)", "1", ""]),
        # the same name as an (undefined) function or array inside parentheses, subscripts and assignment targets
        lambda: "PRINT (%s(%s))" % (n, rng.choice(["1", "1, 2", n])),
        lambda: "PRINT ARR(%s(1))" % n,
        lambda: "ARR(%s(1)) = %s(2)" % (n, n),
        lambda: "DIM ARR(3)",
        lambda: "DIM %s(%s)" % (n, rng.choice(["3", "3, 3", "1 TO 2, 1 TO 2, 1 TO 2"])),
        lambda: "%s(%s) = 2" % (n, rng.choice(["1", "1, 2", "1, 2, 3"])),
        lambda: "REDIM SHARED %s(%s)" % (n, rng.choice(["3", "3, 3"])),
        lambda: "FUNCTION %s%s\n%s = 1\n%s = 2\n%s%s = %s + 1\nEND FUNCTION" % (n.replace(".", ""), rng.choice(SEM_SUFFIX), n.replace(".", ""), n.replace(".", ""), n.replace(".", ""), rng.choice(SEM_SUFFIX), n.replace(".", "")),
        lambda: "SUB S%s\nREDIM %s(%s)\n%s(1) = 1\nEND SUB" % (n.replace(".", ""), n, rng.choice(["5", "5, 5"]), n),
        lambda: "S%s" % n.replace(".", ""),
        lambda: "X = %s + (%s(1) * -%s(2))" % (n, n, n),
        lambda: "IF (%s(1)) THEN PRINT %s ELSE %s = 1" % (n, n, n),
        lambda: "WHILE %s(1, 2) < 0\nWEND" % n,
        # calls in property owners, DIM bounds, undefined string functions, records where a value is needed, whole arrays as targets
        lambda: "PRINT %s(%s).Value" % (n, rng.choice(["INSTR(1, 2)", "VAL(5)", "LEN(5, 6)", n + "(1, 2)", "1"])),
        lambda: "%s(%s).Suit = \"x\"" % (n, rng.choice(["INSTR(1, 2)", "VAL(5)", "1"])),
        lambda: "%s %s(%s)" % (rng.choice(["DIM", "REDIM"]), rng.choice([n, "ZD"]), rng.choice(["INSTR(1, 2)", "VAL(5)", "1 TO LEN(5, 6)", n + "(1, 2, 3)", "LEN(\"ab\")"])),
        lambda: "%s = %s$(1)" % (rng.choice(["A$", "X", n + "$"]), n.replace(".", "")),
        lambda: "PRINT %s(%s$(%s))" % (rng.choice(["UCASE$", "VAL", "LEN"]), n.replace(".", ""), rng.choice(["1", "\"a\"", ""])),
        lambda: "DIM R1 AS Card\nDIM R2 AS Card\nSELECT CASE %s\nCASE %s\nEND SELECT" % (rng.choice(["R1", n]), rng.choice(["R2", "1", n])),
        lambda: "%s %s" % (rng.choice(["LINE INPUT", "INPUT", "READ"]), rng.choice([n + "$()", n + "()", "ARR()", n + "().Value"])),
        lambda: "ENVIRON %s" % rng.choice(['"=x"', '"A=1"', '""', '"A" + CHR$(0) + "=1"', n]),
        lambda: "KILL %s(1)" % n,
        # array parameters and arrays that cannot exist
        lambda: "SUB SA (P%s())\nP%s(1) = 1\nEND SUB" % (rng.choice(["%", "$", "!"]), rng.choice(["%", "$", "!"])),
        lambda: "SA %s" % rng.choice([n + "()", "(" + n + "())", "ARR()", "(ARR())", n, n + "(1)"]),
        # a parameter (scalar or array) with the name of its own procedure, and the call that goes with it
        lambda: "FUNCTION %s%s (%s%s)\n%s\nEND FUNCTION" % (n.replace(".", ""), rng.choice(SEM_SUFFIX), n.replace(".", ""), rng.choice(["()", "", "%", "%()", "$()", " AS INTEGER"]),
                                                             rng.choice(["PRINT %s(1)" % n.replace(".", ""), "%s = 1" % n.replace(".", ""), "%s(1) = 2" % n.replace(".", ""), ""])),
        lambda: "SUB %s (%s%s)\nPRINT %s%s\nEND SUB" % (n.replace(".", ""), n.replace(".", ""), rng.choice(["()", "", "$()"]), n.replace(".", ""), rng.choice(["", "(1)"])),
        lambda: "PRINT %s(%s)" % (n.replace(".", ""), rng.choice(["ARR()", n.replace(".", "") + "()", "1", "ARR(1)"])),
        lambda: "DIM %s(%s) AS %s" % (n, rng.choice(["2", "1 TO 2"]), rng.choice(["STRING * 3", "STRING", "INTEGER", "Card"])),
        lambda: "DIM %s(%s)" % (rng.choice([n, "BIG"]), rng.choice(["32767, 32767", "32767, 32767, 10", "-32768 TO 32767, 2000", "2000000000"])),
        lambda: "REDIM %s(%s)" % (rng.choice([n, "BIG2"]), rng.choice(["32767, 32767", "30000, 30000"])),
        lambda: "CONST %s.K%s = 1" % (n.replace(".", ""), rng.choice(SEM_SUFFIX)),
        lambda: "%s.K%s = 2" % (n.replace(".", ""), rng.choice(SEM_SUFFIX)),
        lambda: "PRINT %s(%s)" % (rng.choice(["MID$", "LEFT$", "INSTR", "CHR$", "UBOUND", "VARPTR", "STR$", "VAL", "EOF", "STRING$"]), rng.choice(["", n, "1", '"a"', "1, 2", '"a", "b"', n + ", 1, 2, 3"])),
    ]
    for _ in range(rng.randrange(2, 9)):
        stmts.append(rng.choice(forms)())
    if rng.random() < 0.1:
        # a shared array re-dimensioned several times inside one subprogram (with and without a local array of the same name)
        body = ["REDIM %s(%s)" % (n, rng.choice(["10", "20", "2, 2"])) for _ in range(rng.randrange(2, 5))]
        if rng.random() < 0.3:
            body.insert(rng.randrange(len(body)), rng.choice(["DIM %s(4)" % n, "DIM %s" % n, "%s = 1" % n, "ERASE %s" % n]))
        stmts.append("SUB G%s\n%s\nEND SUB" % (n.replace(".", ""), "\n".join(body)))
        stmts.append("%s %s(%s)" % (rng.choice(["REDIM SHARED", "DIM SHARED", "REDIM", "COMMON SHARED"]), n, rng.choice(["5", "5, 5"])))
    rng.shuffle(stmts)
    return "\n".join(stmts) + rng.choice(["\n", "", "\r\n"])


def judge(text, rep):
    """Returns None (held), ("INCONCLUSIVE", reason) or (sig, message)."""
    oc = outcome(rep)
    if oc[0] == "died":
        return ("died:%s" % (oc[1],), "worker process died (exit %s): stack overflow or abort" % (oc[1],))
    if oc[0] in ("watchdog", "harness_error"):
        return ("INCONCLUSIVE", oc[0])
    if oc[0] == "panic":
        p = rep["panic"]
        if "VERIF_PARSER_BUDGET_EXCEEDED" in (p.get("msg") or ""):
            return ("parser_budget", "parser exceeded %d input operations on %d characters" % (pbudget(text), len(text)))
        return (panic_sig(p), "panic in %s: %s at %s:%s" % (p.get("phase"), p.get("msg"), p.get("file"), p.get("line")))
    for phase in ("parse", "lint"):
        e = rep.get(phase)
        if e is not None and not e["ok"]:
            if not valid_position(text, e["row"], e["col"]):
                return ("bad_position:%s:%s" % (phase, e["kind"]), "%s error %s reported at %d:%d which is not a position of the text" % (phase, e["err"][:80], e["row"], e["col"]))
    return None


def shard(ctx):
    r = ShardResult()
    rng = ctx.rng
    w = Worker(mem_mb=2048)   # a text that makes parsing or checking ask for more than 2 GiB aborts the worker: counted as a crash
    texts = corpus.load()
    n_total = ctx.params["n"]
    n = n_total // ctx.n
    plan = [("bytes", 0.12), ("soup", 0.22), ("mutation", 0.395), ("nesting", 0.035), ("semantic", 0.23)]
    ops_per_char = []

    def one(kind, text):
        rep = w.run(text, stop="lint", pbudget=pbudget(text))
        v = judge(text, rep)
        if v is not None and v[0] == "INCONCLUSIVE":
            r.inconc(v[1], {"kind": kind, "src": text})
            return
        r.evaluations += 1
        r.count(kind, group="workload")
        oc = outcome(rep)
        r.count(oc[0], group="outcomes")
        if oc[0] in ("parse_error", "lint_error"):
            r.count(oc[0] + ":" + oc[1], group="error_kinds")
            r.nontrivial.add(h64(text))
        if len(text) > 0 and "pops" in rep:
            ops_per_char.append(rep["pops"] / max(1, len(text)))
        if v is not None:
            r.fail("C07:" + v[0], "%s [%s input %r]" % (v[1], kind, text[:120]), {"kind": kind, "src": text})
        elif len(r.samples) < 3 and oc[0] in ("parse_error", "lint_error") and rng.random() < 0.01:
            e = rep.get("parse") if oc[0] == "parse_error" else rep.get("lint")
            r.sample({"kind": kind, "src": text[:300], "outcome": list(oc), "position": [e["row"], e["col"]], "parser_ops": rep.get("pops")})

    # deterministic part: truncate corpus programs at every token prefix (sharded by program index)
    if ctx.params.get("prefixes"):
        for idx in ctx.indices(len(texts)):
            t = texts[idx]
            if len(t) > ctx.params["prefix_max_len"]:
                continue
            toks = tokenize(t)
            step = 1 if len(toks) <= 200 else len(toks) // 200 + 1
            for k in range(0, len(toks) + 1, step):
                one("token_prefix", untokenize(toks[:k]))
    for i in range(n):
        x = rng.random()
        acc = 0.0
        kind = plan[-1][0]
        for k, p in plan:
            acc += p
            if x < acc:
                kind = k
                break
        if kind == "bytes":
            text = gen_random_bytes(rng)
        elif kind == "soup":
            text = gen_token_soup(rng)
        elif kind == "mutation":
            base = rng.choice(texts)
            text = base
            for _ in range(rng.choice([1, 1, 1, 2, 3])):
                text = mutate(rng, text, rng.choice(texts))
            if len(text) > 4000:
                text = text[:4000]
        elif kind == "nesting":
            text = gen_nesting(rng)
        elif rng.random() < 0.03:
            text = gen_const_chain(rng)
        else:
            text = gen_semantic_soup(rng)
        one(kind, text)
    if ops_per_char:
        ops_per_char.sort()
        r.stats["parser_ops_per_char_max"] = ("max", round(ops_per_char[-1], 1))
        r.stats["parser_ops_per_char_median_sum"] = round(ops_per_char[len(ops_per_char) // 2], 1)
    r.stats["worker_restarts"] = w.restarts
    w.close()
    return r


RULE = ("inputs: random bytes decoded as UTF-8, token soups over the lexer alphabet, byte/token mutations (delete, duplicate, swap, "
        "truncate, replace, splice) of every BASIC text embedded in the repository, truncation of corpus programs at every token prefix, "
        "nesting stress up to depth 200, and semantic soups reusing one name in many roles; every input is parsed and linted by the real "
        "code under a crash/step monitor; non-trivial = the input was rejected with a located error (its position is then checked); "
        "distinct by input text")


def main(tier, seed):
    params = {"n": 120000 if tier == "quick" else 2000000, "prefixes": True, "prefix_max_len": 600 if tier == "quick" else 100000}
    return driver.run_check(
        PID, shard, params, tier, seed,
        min_evaluations=50000 if tier == "quick" else 1000000,
        rule=RULE,
        assumptions=["a hang inside the linter has no logical step counter; it would fire the 60 s wall-clock watchdog and be reported as inconclusive",
                     "worker thread stack = 8 MiB (the main-thread default of the shipped binary); nesting stress stops at depth 200"],
    )


def replay(rec):
    driver.build()
    w = Worker()
    text = rec["case"]["src"]
    rep = w.run(text, stop="lint", pbudget=pbudget(text))
    w.close()
    v = judge(text, rep)
    if v is None or v[0] == "INCONCLUSIVE":
        print("replay: case now passes (%s)" % (outcome(rep),))
        return 0
    print("replay: %s" % v[1])
    print("VIOLATION property=%s replay=(replayed)" % PID)
    return 1
