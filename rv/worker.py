"""Client for the rbmon worker (the real rusty-basic pipeline with hooks enabled)."""
import json
import os
import resource
import select
import subprocess
import time

HARNESS = os.environ.get("VERIF_HARNESS") or os.path.join(os.path.dirname(os.path.dirname(os.path.abspath(__file__))), "harness")
WATCHDOG_S = 60.0


def binary(name, profile="verif"):
    return os.path.join(HARNESS, "target", profile, name)


class Worker:
    """One persistent rbmon process. A request is one case; a reply is one JSON object.

    Three-valued discipline: a worker that dies (stack overflow, abort) yields
    {"died": <signal or code>} for the in-flight case; a watchdog expiry yields
    {"watchdog": True} (inconclusive, never a violation)."""

    def __init__(self, profile="verif", stack_mb=8, scratch=None, mem_mb=None):
        self.profile = profile
        self.mem_mb = mem_mb   # address-space limit of the worker process: an allocation beyond it aborts the worker ("died")
        self.stack_mb = stack_mb
        self.scratch = scratch
        self.p = None
        self.restarts = 0
        self.start()

    def start(self):
        env = dict(os.environ)
        env["RBMON_STACK_MB"] = str(self.stack_mb)
        if self.scratch:
            env["RBMON_SCRATCH"] = self.scratch
        self.p = subprocess.Popen(
            [binary("rbmon", self.profile)],
            stdin=subprocess.PIPE,
            stdout=subprocess.PIPE,
            stderr=subprocess.DEVNULL,
            env=env,
            bufsize=0,
            preexec_fn=(lambda: resource.setrlimit(resource.RLIMIT_AS, (self.mem_mb << 20, self.mem_mb << 20))) if self.mem_mb else None,
        )
        self.buf = b""

    def close(self):
        if self.p is not None:
            try:
                self.p.stdin.close()
                self.p.wait(timeout=5)
            except Exception:
                try:
                    self.p.kill()
                except Exception:
                    pass
            self.p = None

    def _readline(self, timeout):
        deadline = time.time() + timeout
        fd = self.p.stdout.fileno()
        while True:
            i = self.buf.find(b"\n")
            if i >= 0:
                line = self.buf[:i]
                self.buf = self.buf[i + 1:]
                return line
            left = deadline - time.time()
            if left <= 0:
                return None
            r, _, _ = select.select([fd], [], [], left)
            if not r:
                return None
            chunk = os.read(fd, 1 << 16)
            if not chunk:
                return b""
            self.buf += chunk

    def request(self, req, timeout=WATCHDOG_S):
        if self.p is None or self.p.poll() is not None:
            self.start()
            self.restarts += 1
        data = (json.dumps(req) + "\n").encode("utf-8")
        try:
            self.p.stdin.write(data)
            self.p.stdin.flush()
        except (BrokenPipeError, OSError):
            rc = self.p.wait()
            self.start()
            self.restarts += 1
            return {"died": rc}
        line = self._readline(timeout)
        if line is None:
            self.p.kill()
            self.p.wait()
            self.start()
            self.restarts += 1
            return {"watchdog": True}
        if line == b"":
            rc = self.p.wait()
            self.start()
            self.restarts += 1
            return {"died": rc}
        try:
            return json.loads(line.decode("utf-8"))
        except Exception as e:  # harness error: inconclusive
            return {"harness_error": "bad reply: %r" % (e,)}

    def run(self, src, want=(), stdin="", files=None, budget=200000, stop="run", pbudget=None, lpt1=None, env=None):
        req = {"src": src, "want": list(want), "budget": budget, "stop": stop}
        if stdin:
            req["stdin"] = stdin
        if files is not None:
            req["files"] = files
        if pbudget is not None:
            req["pbudget"] = pbudget
        if lpt1:
            req["lpt1"] = lpt1
        if env:
            req["env"] = env
        return self.request(req)


def outcome(reply):
    """Summarises a reply as a comparable outcome.

    ("ok",) | ("error", code, kind) | ("parse_error", kind) | ("lint_error", kind) |
    ("panic", phase, file, msg) | ("died", rc) | ("budget",) | ("watchdog",)"""
    if "died" in reply:
        return ("died", reply["died"])
    if reply.get("watchdog"):
        return ("watchdog",)
    if "harness_error" in reply or "bad_request" in reply:
        return ("harness_error",)
    if "panic" in reply:
        p = reply["panic"]
        return ("panic", p.get("phase"), p.get("file"), p.get("msg"))
    if "parse" in reply and not reply["parse"]["ok"]:
        return ("parse_error", reply["parse"]["kind"])
    if "lint" in reply and not reply["lint"]["ok"]:
        return ("lint_error", reply["lint"]["kind"])
    run = reply.get("run")
    if run is None:
        return ("stopped_before_run",)
    if run.get("budget_exhausted"):
        return ("budget",)
    res = run.get("result")
    if res is None:
        return ("no_result",)
    if res["ok"]:
        return ("ok",)
    return ("error", res.get("code"), res.get("kind"))
