"""Type-directed generator over the whole statement and built-in repertoire (text output, no reference).

Programs are statically well-typed by construction; values are deliberately wild (negative counts,
huge numbers, closed handles) so that run-time errors of every kind occur. Used by C08, C12, C15."""

NUM_T = "%&!#"


class FullGen:
    def __init__(self, rng, size=12):
        self.r = rng
        self.size = size
        self.lines = []
        self.scal = {"%": ["A%", "B%", "N%"], "&": ["L&", "M&"], "!": ["X!", "F", "G"], "#": ["D#", "E#"], "$": ["S$", "T$", "U$"]}
        self.arrays = {}        # name -> (type, [(lb, ub)])
        self.rec_vars = []      # (var, typename)
        self.rec_arrays = []    # (name, typename, (lb, ub))
        self.types = {}         # typename -> [(field, type or ('fixed', n) or ('rec', typename))]
        self.subs = []          # (name, [param types], static)
        self.funcs = []         # (name with suffix, [param types])
        self.labels = []
        self.label_n = 0
        self.handles = [1, 2, 3]
        self.names = ["A.TXT", "B.TXT", "C.DAT", "NODIR/X.TXT", "D"]
        self.uses_files = False
        self.uses_input = False
        self.uses_lprint = False
        self.in_proc = False
        self.features = set()
        self.loop_n = 0
        self.fixed = []          # fixed-length string variables
        self.consts = {"%": [], "$": [], "!": []}

    # ------------------------------------------------------------------ expressions
    def lit(self, t):
        r = self.r
        if t == "%":
            return str(r.choice([0, 1, 2, 3, 5, 8, 10, 65, 255, 256, -1, -5, 32767, r.randrange(-300, 300)]))
        if t == "&":
            return str(r.choice([32768, 65536, 100000, -40000, 2147483647, 70000]))
        if t == "!":
            return r.choice(["0.5", "1.5", "2.25", "-3.75", "100.125", ".5", "3.14"])
        if t == "#":
            return r.choice(["0.5#", "2.25#", "-1.125#", "12345.678#", "3000000000"])
        return '"' + r.choice(["", "a", "Hello", "hello world", "12", " 3.5 ", "x,y", "ABC", "-7", "1E", "&H10"]) + '"'

    def var(self, t):
        pool = list(self.scal[t])
        return self.r.choice(pool)

    def lvalue(self, t):
        """A by-ref capable place of type t: variable, array element or record field."""
        r = self.r
        x = r.random()
        if x < 0.2:
            arrs = [n for n, (at, dims) in self.arrays.items() if at == t]
            if arrs:
                n = r.choice(arrs)
                return n + "(" + ", ".join(self.index(d) for d in self.arrays[n][1]) + ")"
        if x < 0.35 and self.rec_vars:
            v, tn = r.choice(self.rec_vars)
            fs = [f for f, ft in self.types[tn] if ft == t or (t == "$" and isinstance(ft, tuple) and ft[0] == "fixed")]
            if fs:
                return v + "." + r.choice(fs)
        if x < 0.42 and self.rec_arrays:
            n, tn, (lb, ub) = r.choice(self.rec_arrays)
            fs = [f for f, ft in self.types[tn] if ft == t or (t == "$" and isinstance(ft, tuple) and ft[0] == "fixed")]
            if fs:
                return "%s(%s).%s" % (n, self.index((lb, ub)), r.choice(fs))
        if t == "$" and self.fixed and x < 0.5:
            return r.choice(self.fixed)
        return self.var(t)

    def index(self, bounds):
        r = self.r
        lb, ub = bounds
        x = r.random()
        if x < 0.7:
            return str(r.randrange(lb, ub + 1))
        if x < 0.8:
            return str(r.choice([lb - 1, ub + 1]))
        if x < 0.9:
            return self.num(2, "%")
        return r.choice(["1.4", "A%", "LEN(S$)", "N% + 1"])

    def num(self, depth=0, t=None):
        """A numeric expression (of type at most t when t is given)."""
        r = self.r
        t = t or r.choice(["%", "%", "&", "!", "#"])
        x = r.random()
        if depth >= 3 or x < 0.25:
            tt = r.choice([u for u in NUM_T if NUM_T.index(u) <= NUM_T.index(t)])
            if r.random() < 0.5:
                return self.lit(tt)
            if r.random() < 0.8:
                return self.lvalue(tt)
            if self.consts["%"]:
                return r.choice(self.consts["%"])
            return self.var(tt)
        if x < 0.5:
            op = r.choice(["+", "-", "*", "/", "MOD", "+", "-"])
            return "%s %s %s" % (self.num(depth + 1, t), op, self.num(depth + 1, t))
        if x < 0.56:
            return "(" + self.num(depth + 1, t) + ")"
        if x < 0.6:
            return "-" + self.atom(depth + 1, t)
        if x < 0.66:
            return self.cond(depth + 1)
        if x < 0.70:
            return "NOT " + self.atom(depth + 1, "%")
        # numeric built-in functions
        f = r.choice(["LEN", "LEN", "INSTR", "INSTR3", "VAL", "EOF", "ERR", "LBOUND", "UBOUND", "PEEK", "VARPTR", "VARSEG", "CVD", "LENV", "USER"])
        self.features.add(f)
        if f == "LEN":
            return "LEN(%s)" % self.s(depth + 1)
        if f == "LENV":
            return "LEN(%s)" % self.lvalue(r.choice(["%", "&", "!", "#", "$"]))
        if f == "INSTR":
            return "INSTR(%s, %s)" % (self.s(depth + 1), self.s(depth + 1))
        if f == "INSTR3":
            return "INSTR(%s, %s, %s)" % (self.num(depth + 1), self.s(depth + 1), self.s(depth + 1))
        if f == "VAL":
            return "VAL(%s)" % self.s(depth + 1)
        if f == "EOF":
            self.uses_files = True
            return "EOF(%s)" % r.choice(["1", "2", "3", "N%", "9"])
        if f == "ERR":
            return "ERR"
        if f in ("LBOUND", "UBOUND"):
            if self.arrays:
                n = r.choice(list(self.arrays))
                if r.random() < 0.5:
                    return "%s(%s)" % (f, n)
                return "%s(%s, %s)" % (f, n, r.choice(["1", "2", "0", "N%"]))
            return self.lit("%")
        if f == "PEEK":
            return "PEEK(%s)" % r.choice(["0", "1", "2", "1047", "VARPTR(A%)", "VARPTR(A%) + 1", self.num(depth + 1, "%")])
        if f in ("VARPTR", "VARSEG"):
            return "%s(%s)" % (f, self.lvalue(r.choice(["%", "%", "&", "!", "$"])))
        if f == "CVD":
            return "CVD(%s)" % r.choice(["MKD$(%s)" % self.num(depth + 1, "#"), self.s(depth + 1), '"12345678"'])
        if self.funcs:
            name, ptypes = r.choice(self.funcs)
            if name[-1] != "$":
                return self.call_text(name, ptypes, depth + 1)
        return self.lit("%")

    def atom(self, depth, t):
        r = self.r
        if r.random() < 0.5:
            return self.var(t)
        return "(" + self.num(depth, t) + ")"

    def cond(self, depth=0):
        r = self.r
        x = r.random()
        rel = r.choice(["=", "<>", "<", "<=", ">", ">="])
        if depth >= 3 or x < 0.55:
            if r.random() < 0.25:
                return "%s %s %s" % (self.s(depth + 1), rel, self.s(depth + 1))
            return "%s %s %s" % (self.num(depth + 1), rel, self.num(depth + 1))
        if x < 0.85:
            return "%s %s %s" % (self.cond(depth + 1), r.choice(["AND", "OR"]), self.cond(depth + 1))
        return "NOT (%s)" % self.cond(depth + 1)

    def s(self, depth=0):
        r = self.r
        x = r.random()
        if depth >= 3 or x < 0.3:
            if r.random() < 0.5:
                return self.lit("$")
            if self.consts["$"] and r.random() < 0.2:
                return r.choice(self.consts["$"])
            return self.lvalue("$")
        if x < 0.45:
            return "%s + %s" % (self.s(depth + 1), self.s(depth + 1))
        if x < 0.5:
            return "(" + self.s(depth + 1) + ")"
        f = r.choice(["CHR$", "STR$", "LEFT$", "RIGHT$", "MID$", "MID3", "UCASE$", "LCASE$", "LTRIM$", "RTRIM$", "SPACE$", "STRING$", "STRINGS", "ENVIRON$", "ENVIRONN", "MKD$", "USER"])
        self.features.add(f)
        if f == "CHR$":
            return "CHR$(%s)" % r.choice(["65", "0", "255", "256", "-1", "13", "10", self.num(depth + 1, "%")])
        if f == "STR$":
            return "STR$(%s)" % self.num(depth + 1)
        if f in ("LEFT$", "RIGHT$"):
            return "%s(%s, %s)" % (f, self.s(depth + 1), self.num(depth + 1, "%"))
        if f == "MID$":
            return "MID$(%s, %s)" % (self.s(depth + 1), self.num(depth + 1, "%"))
        if f == "MID3":
            return "MID$(%s, %s, %s)" % (self.s(depth + 1), self.num(depth + 1, "%"), self.num(depth + 1, "%"))
        if f in ("UCASE$", "LCASE$", "LTRIM$", "RTRIM$"):
            return "%s(%s)" % (f, self.s(depth + 1))
        if f == "SPACE$":
            return "SPACE$(%s)" % r.choice(["0", "3", "-1", "N%", self.num(depth + 1, "%")])
        if f == "STRING$":
            return "STRING$(%s, %s)" % (r.choice(["2", "0", "-1", "N%"]), r.choice(["65", "0", "256", "-1", self.num(depth + 1, "%")]))
        if f == "STRINGS":
            return "STRING$(%s, %s)" % (r.choice(["2", "0", "N%"]), self.s(depth + 1))
        if f == "ENVIRON$":
            return "ENVIRON$(%s)" % r.choice(['"PATH"', '"FOO"', self.s(depth + 1)])
        if f == "ENVIRONN":
            return "ENVIRON$(%s)" % r.choice(["1", "0", "N%"])
        if f == "MKD$":
            return "MKD$(%s)" % self.num(depth + 1, "#")
        if self.funcs:
            fs = [(n, p) for n, p in self.funcs if n[-1] == "$"]
            if fs:
                name, ptypes = r.choice(fs)
                return self.call_text(name, ptypes, depth + 1)
        return self.lit("$")

    def call_text(self, name, ptypes, depth=0):
        args = []
        for pt in ptypes:
            if isinstance(pt, tuple):
                # array or record parameter
                if pt[0] == "arr":
                    cands = [n for n, (at, dims) in self.arrays.items() if at == pt[1]]
                    args.append((self.r.choice(cands) + "()") if cands else "Q%()")
                else:
                    cands = [v for v, tn in self.rec_vars if tn == pt[1]]
                    args.append(self.r.choice(cands) if cands else "R")
            elif pt == "$":
                args.append(self.s(depth + 1) if self.r.random() < 0.5 else self.lvalue("$"))
            else:
                # by value: any numeric expression; by ref: a variable of exactly the parameter's type
                args.append(self.num(depth + 1) if self.r.random() < 0.5 else self.lvalue(pt))
        if not args:
            return name
        return "%s(%s)" % (name, ", ".join(args))

    # ------------------------------------------------------------------ statements
    def emit(self, line, depth):
        self.lines.append("  " * depth + line)

    def file_name(self):
        r = self.r
        x = r.random()
        if x < 0.7:
            return '"' + r.choice(self.names[:3]) + '"'
        if x < 0.8:
            return '"' + r.choice(self.names) + '"'
        return self.lvalue("$")

    def handle(self):
        r = self.r
        x = r.random()
        if x < 0.8:
            return str(r.choice(self.handles))
        if x < 0.9:
            return r.choice(["N%", "A%", "0", "256", "9"])
        return self.num(2, "%")

    def simple(self, depth):
        r = self.r
        k = r.choice(["assign"] * 6 + ["print"] * 5 + ["file"] * 3 + ["input", "read", "misc", "misc", "callsub", "callsub", "lset", "poke", "redim", "using", "lprint", "data"])
        self.features.add(k)
        if k == "assign":
            t = r.choice(["%", "&", "!", "#", "$", "$", "%"])
            if t == "$":
                self.emit("%s = %s" % (self.lvalue("$"), self.s()), depth)
            else:
                self.emit("%s = %s" % (self.lvalue(t), self.num()), depth)
        elif k == "print":
            items = []
            for _ in range(r.choice([0, 1, 1, 2, 3])):
                items.append(self.s(1) if r.random() < 0.4 else self.num(1))
            sep = r.choice(["; ", ", ", "; "])
            text = sep.join(items) + r.choice(["", "", "", ";", ","])
            head = "PRINT"
            if r.random() < 0.15:
                head = "PRINT #%s," % self.handle()
                self.uses_files = True
            self.emit((head + " " + text).rstrip(), depth)
        elif k == "lprint":
            self.uses_lprint = True
            self.emit("LPRINT %s" % r.choice([self.s(1), self.num(1), self.s(1) + "; " + self.num(1) + ","]), depth)
        elif k == "using":
            fmt = r.choice(['"###.##"', '"#,###"', '"\\\\ \\\\"', '"!"', '"Total: ### and \\\\  \\\\"', '""', '"abc"', "U$", '"##"'])
            n = r.choice([1, 1, 2, 3])
            items = [self.s(1) if r.random() < 0.35 else self.num(1) for _ in range(n)]
            head = r.choice(["PRINT", "PRINT", "LPRINT"])
            if head == "LPRINT":
                self.uses_lprint = True
            self.emit("%s USING %s; %s%s" % (head, fmt, "; ".join(items), r.choice(["", ";"])), depth)
        elif k == "file":
            self.uses_files = True
            f = r.choice(["open", "open", "close", "close", "kill", "name", "field", "get", "put", "lineinput", "inputf", "printf"])
            self.features.add("file_" + f)
            if f == "open":
                mode = r.choice(["FOR INPUT ", "FOR OUTPUT ", "FOR APPEND ", "FOR RANDOM ", ""])
                acc = r.choice(["", "", "ACCESS READ ", "ACCESS WRITE ", "ACCESS READ WRITE "])
                ln = r.choice(["", "", " LEN = 16", " LEN = %s" % self.num(2, "%")]) if "RANDOM" in mode or not mode else ""
                self.emit("OPEN %s %s%sAS #%s%s" % (self.file_name(), mode, acc, self.handle(), ln), depth)
            elif f == "close":
                self.emit(r.choice(["CLOSE", "CLOSE #%s" % self.handle(), "CLOSE %s" % self.handle(), "CLOSE #1, #2"]), depth)
            elif f == "kill":
                self.emit("KILL %s" % self.file_name(), depth)
            elif f == "name":
                self.emit("NAME %s AS %s" % (self.file_name(), self.file_name()), depth)
            elif f == "field":
                self.emit("FIELD #%s, %s AS %s, %s AS %s" % (self.handle(), r.choice(["4", "8", "0", "N%", "200"]), self.var("$"), r.choice(["8", "4", "12"]), self.var("$")), depth)
            elif f == "get":
                self.emit("GET #%s, %s" % (self.handle(), r.choice(["1", "2", "0", "N%", "-1", "70000"])), depth)
            elif f == "put":
                self.emit("PUT #%s, %s" % (self.handle(), r.choice(["1", "2", "0", "N%", "3"])), depth)
            elif f == "lineinput":
                self.emit("LINE INPUT #%s, %s" % (self.handle(), self.lvalue("$")), depth)
            elif f == "inputf":
                self.emit("INPUT #%s, %s" % (self.handle(), ", ".join(self.lvalue(r.choice(["%", "$", "!", "&", "#"])) for _ in range(r.choice([1, 2])))), depth)
            else:
                self.emit("PRINT #%s, %s" % (self.handle(), r.choice([self.s(1), self.num(1), self.s(1) + ", " + self.num(1)])), depth)
        elif k == "input":
            self.uses_input = True
            if r.random() < 0.3:
                self.emit("LINE INPUT %s%s" % (r.choice(["", '"prompt"; ', '"? ", ']), self.lvalue("$")), depth)
            else:
                self.emit("INPUT %s%s" % (r.choice(["", '"n"; ', '"n", ']), ", ".join(self.lvalue(r.choice(["%", "$", "!", "&", "#"])) for _ in range(r.choice([1, 1, 2])))), depth)
        elif k == "read":
            self.emit("READ %s" % ", ".join(self.lvalue(r.choice(["%", "$", "!", "&", "#"])) for _ in range(r.choice([1, 2]))), depth)
        elif k == "data":
            if not self.in_proc:
                self.emit("DATA %s" % ", ".join(r.choice(["1", "2.5", '"x"', "-7", "40000", '"a,b"', "0"]) for _ in range(r.choice([1, 2, 3]))), 0)
        elif k == "misc":
            m = r.choice(["CLS", "BEEP", "LOCATE", "COLOR", "VIEW", "WIDTH", "ENVIRON", "DEFSEG", "SCREEN"])
            self.features.add(m)
            if m == "LOCATE":
                self.emit("LOCATE %s" % r.choice(["1, 1", "%s, %s" % (self.num(2, "%"), self.num(2, "%")), "5", ", 3", "1, 1, 0", "0, 0"]), depth)
            elif m == "COLOR":
                self.emit("COLOR %s" % r.choice(["7", "7, 0", "16", "-1", ", 1", self.num(2, "%")]), depth)
            elif m == "VIEW":
                self.emit(r.choice(["VIEW PRINT", "VIEW PRINT 1 TO 10", "VIEW PRINT %s TO %s" % (self.num(2, "%"), self.num(2, "%"))]), depth)
            elif m == "WIDTH":
                self.emit("WIDTH %s" % r.choice(["80", "80, 25", "40", self.num(2, "%")]), depth)
            elif m == "ENVIRON":
                self.emit("ENVIRON %s" % r.choice(['"FOO=BAR"', '"FOO"', self.s(1)]), depth)
            elif m == "DEFSEG":
                self.emit(r.choice(["DEF SEG", "DEF SEG = 0", "DEF SEG = %s" % self.num(2, "&"), "DEF SEG = VARSEG(A%)"]), depth)
            elif m == "SCREEN":
                self.emit("SCREEN 0", depth)
            else:
                self.emit(m, depth)
        elif k == "callsub":
            if self.subs:
                name, ptypes, _ = r.choice(self.subs)
                t = self.call_text(name, ptypes, 1)
                if "(" in t:
                    t = name + " " + t[len(name) + 1:-1]
                self.emit(t, depth)
            else:
                self.emit("A% = A% + 1", depth)
        elif k == "lset":
            self.emit("LSET %s = %s" % (self.var("$"), self.s(1)), depth)
        elif k == "poke":
            self.emit("POKE %s, %s" % (r.choice(["VARPTR(A%)", "VARPTR(A%) + 1", "0", "1047", self.num(2, "%")]), r.choice(["0", "255", "256", "-1", self.num(2, "%")])), depth)
        elif k == "redim":
            dyn = [n for n in self.arrays if n.startswith("DY")]
            if dyn:
                n = r.choice(dyn)
                self.emit("REDIM %s(%s)" % (n, r.choice(["5", "1 TO 3", "N%", "-1"])), depth)
            else:
                self.emit("B% = B% - 1", depth)

    def block(self, depth):
        for _ in range(self.r.choice([1, 1, 2, 3])):
            self.stmt(depth)

    def stmt(self, depth):
        r = self.r
        if depth >= 4 or r.random() < 0.6:
            self.simple(depth)
            return
        k = r.choice(["if", "if", "ifline", "select", "for", "while", "do", "goto", "gosub", "onerror"])
        self.features.add(k)
        if k == "if":
            self.emit("IF %s THEN" % self.cond(), depth)
            self.block(depth + 1)
            for _ in range(r.choice([0, 0, 1])):
                self.emit("ELSEIF %s THEN" % self.cond(), depth)
                self.block(depth + 1)
            if r.random() < 0.4:
                self.emit("ELSE", depth)
                self.block(depth + 1)
            self.emit("END IF", depth)
        elif k == "ifline":
            n = len(self.lines)
            self.simple(0)
            a = self.lines[n:]
            del self.lines[n:]
            if len(a) == 1 and not a[0].startswith("DATA"):
                t = "IF %s THEN %s" % (self.cond(), a[0])
                if r.random() < 0.4 and not a[0].rstrip().endswith((";", ",")):
                    self.simple(0)
                    b = self.lines[n:]
                    del self.lines[n:]
                    if len(b) == 1 and not b[0].startswith("DATA"):
                        t += " ELSE " + b[0]
                self.emit(t, depth)
            else:
                self.lines += ["  " * depth + x for x in a]
        elif k == "select":
            if r.random() < 0.3:
                self.emit("SELECT CASE %s" % self.s(1), depth)
                for _ in range(r.choice([1, 2])):
                    self.emit("CASE %s" % r.choice([self.s(2), "IS > " + self.s(2), "%s TO %s" % (self.s(2), self.s(2)), self.s(2) + ", " + self.s(2)]), depth)
                    self.block(depth + 1)
            else:
                self.emit("SELECT CASE %s" % self.num(1), depth)
                for _ in range(r.choice([1, 2, 3])):
                    self.emit("CASE %s" % r.choice([self.num(2), "IS %s %s" % (r.choice(["<", ">=", "<>"]), self.num(2)), "%s TO %s" % (self.num(2), self.num(2)), "1, 2, " + self.num(2)]), depth)
                    self.block(depth + 1)
            if r.random() < 0.5:
                self.emit("CASE ELSE", depth)
                self.block(depth + 1)
            self.emit("END SELECT", depth)
        elif k == "for":
            self.loop_n += 1
            t = r.choice(["%", "%", "&", "!", "#"])
            c = "C%d%s" % (self.loop_n, t)
            step = r.choice(["", "", " STEP 1", " STEP -1", " STEP 2", " STEP N%", " STEP 0.5", " STEP " + self.num(2)])
            self.emit("FOR %s = %s TO %s%s" % (c, r.choice(["1", "0", "3", self.num(2, "%")]), r.choice(["3", "2", "0", "-1", self.num(2, "%")]), step), depth)
            self.block(depth + 1)
            self.emit("NEXT" + r.choice(["", " " + c]), depth)
        elif k == "while":
            self.loop_n += 1
            c = "W%d%%" % self.loop_n
            self.emit("%s = 0" % c, depth)
            self.emit("WHILE %s < %d" % (c, r.choice([0, 1, 2, 3])), depth)
            self.block(depth + 1)
            self.emit("%s = %s + 1" % (c, c), depth + 1)
            self.emit("WEND", depth)
        elif k == "do":
            self.loop_n += 1
            c = "W%d%%" % self.loop_n
            self.emit("%s = 0" % c, depth)
            form = r.randrange(4)
            lim = r.choice([0, 1, 2, 3])
            if form == 0:
                self.emit("DO WHILE %s < %d" % (c, lim), depth)
            elif form == 1:
                self.emit("DO UNTIL %s >= %d" % (c, lim), depth)
            else:
                self.emit("DO", depth)
            self.block(depth + 1)
            self.emit("%s = %s + 1" % (c, c), depth + 1)
            if form == 2:
                self.emit("LOOP WHILE %s < %d" % (c, lim), depth)
            elif form == 3:
                self.emit("LOOP UNTIL %s >= %d" % (c, lim), depth)
            else:
                self.emit("LOOP", depth)
        elif k == "goto":
            # forward jump over a few statements
            self.label_n += 1
            lab = "L%d" % self.label_n
            self.emit("GOTO %s" % lab, depth)
            self.block(depth)
            self.emit("%s:" % lab, 0)
        elif k == "gosub":
            if self.in_proc:
                self.simple(depth)
                return
            self.label_n += 1
            lab = "G%d" % self.label_n
            self.emit("GOSUB %s" % lab, depth)
            self.pending_subroutines.append(lab)
        elif k == "onerror":
            if self.in_proc:
                self.simple(depth)
                return
            x = r.random()
            if x < 0.5:
                self.emit("ON ERROR GOTO Handler", depth)
                self.need_handler = True
            elif x < 0.75:
                self.emit("ON ERROR RESUME NEXT", depth)
            else:
                self.emit("ON ERROR GOTO 0", depth)

    def declarations(self):
        r = self.r
        if r.random() < 0.15:
            self.emit("DEF%s %s-%s" % (r.choice(["INT", "LNG", "SNG", "DBL"]), "H", "K"), 0)
        if r.random() < 0.5:
            self.types["Card"] = [("Value", "%"), ("Suit", ("fixed", 5)), ("Weight", "#")]
            self.emit("TYPE Card", 0)
            self.emit("  Value AS INTEGER", 0)
            self.emit("  Suit AS STRING * 5", 0)
            self.emit("  Weight AS DOUBLE", 0)
            self.emit("END TYPE", 0)
            if r.random() < 0.5:
                self.types["Hand"] = [("Top", ("rec", "Card")), ("Count", "&"), ("Score", "!")]
                self.emit("TYPE Hand", 0)
                self.emit("  Top AS Card", 0)
                self.emit("  Count AS LONG", 0)
                self.emit("  Score AS SINGLE", 0)
                self.emit("END TYPE", 0)
        # subprogram signatures are decided now, bodies come at the end
        for i in range(r.choice([0, 0, 1, 2, 3])):
            n = r.choice([0, 1, 2, 3])
            ptypes = [r.choice(["%", "&", "!", "#", "$", "$", "%"]) for _ in range(n)]
            if self.arrays and r.random() < 0.2:
                pass
            if r.random() < 0.5:
                self.subs.append(("Proc%d" % i, ptypes, r.random() < 0.3))
            else:
                self.funcs.append(("Fn%d%s" % (i, r.choice(["%", "&", "!", "#", "$"])), ptypes))
        for name, ptypes, _ in self.subs:
            self.emit("DECLARE SUB %s (%s)" % (name, ", ".join("P%d%s" % (j, t) for j, t in enumerate(ptypes))), 0)
        for name, ptypes in self.funcs:
            self.emit("DECLARE FUNCTION %s (%s)" % (name, ", ".join("P%d%s" % (j, t) for j, t in enumerate(ptypes))), 0)
        for _ in range(r.choice([0, 1, 1, 2])):
            k = r.choice(["%", "$", "!"])
            n = "K%d%s" % (len(self.consts[k]) + 1, r.choice(["", k]))
            self.emit("CONST %s = %s" % (n, self.lit(k) if r.random() < 0.6 else (self.lit(k) + " + " + self.lit(k))), 0)
            self.consts[k].append(n)
        for i in range(r.choice([0, 1, 1, 2, 3])):
            t = r.choice(["%", "&", "!", "#", "$"])
            nd = r.choice([1, 1, 2])
            dims = []
            parts = []
            for _ in range(nd):
                lb = r.choice([0, 0, 1, -2])
                ub = lb + r.choice([0, 1, 2, 4])
                dims.append((lb, ub))
                parts.append(("%d TO %d" % (lb, ub)) if lb != 0 or r.random() < 0.4 else str(ub))
            shared = "SHARED " if r.random() < 0.3 else ""
            if r.random() < 0.25:
                name = "DY%d%s" % (i, t)
                self.emit("REDIM %s%s(%s)" % (shared, name, ", ".join(parts)), 0)
            else:
                name = "Q%d%s" % (i, t)
                style = r.random()
                if style < 0.6:
                    self.emit("DIM %s%s(%s)" % (shared, name, ", ".join(parts)), 0)
                else:
                    name = "Q%d" % i
                    tn = {"%": "INTEGER", "&": "LONG", "!": "SINGLE", "#": "DOUBLE", "$": "STRING"}[t]
                    self.emit("DIM %s%s(%s) AS %s" % (shared, name, ", ".join(parts), tn), 0)
            self.arrays[name] = (t, dims)
        if "Card" in self.types:
            for i in range(r.choice([0, 1, 2])):
                tn = r.choice(list(self.types))
                v = "R%d" % i
                self.emit("DIM %s%s AS %s" % ("SHARED " if r.random() < 0.2 else "", v, tn), 0)
                self.rec_vars.append((v, tn))
            if r.random() < 0.4:
                self.emit("DIM RA(1 TO 3) AS Card", 0)
                self.rec_arrays.append(("RA", "Card", (1, 3)))
        if r.random() < 0.4:
            self.emit("DIM FX AS STRING * %d" % r.choice([1, 3, 8]), 0)
            self.fixed.append("FX")
        if r.random() < 0.3:
            t = r.choice(["INTEGER", "LONG", "SINGLE", "DOUBLE", "STRING"])
            self.emit("DIM EV AS %s" % t, 0)
            self.scal[{"INTEGER": "%", "LONG": "&", "SINGLE": "!", "DOUBLE": "#", "STRING": "$"}[t]].append("EV")

    def program(self):
        r = self.r
        self.pending_subroutines = []
        self.need_handler = False
        self.declarations()
        for _ in range(r.randrange(2, self.size)):
            self.stmt(0)
        if self.pending_subroutines or self.need_handler:
            self.emit("END", 0)
        for lab in self.pending_subroutines:
            self.emit("%s:" % lab, 0)
            self.in_proc = True     # no nested GOSUB / ON ERROR inside subroutines
            self.block(1)
            self.in_proc = False
            self.emit(r.choice(["RETURN", "RETURN", "RETURN"]), 1)
        if self.need_handler:
            self.emit("Handler:", 0)
            self.emit("PRINT \"ERR\"; ERR", 1)
            self.emit(r.choice(["RESUME NEXT", "RESUME NEXT", "RESUME NEXT", "END"]), 1)
        # subprogram bodies
        saved = self.scal
        for name, ptypes, static in self.subs:
            self.emit("SUB %s (%s)%s" % (name, ", ".join("P%d%s" % (j, t) for j, t in enumerate(ptypes)), " STATIC" if static else ""), 0)
            self.proc_body(ptypes, None)
            self.emit("END SUB", 0)
        for name, ptypes in self.funcs:
            self.emit("FUNCTION %s (%s)" % (name, ", ".join("P%d%s" % (j, t) for j, t in enumerate(ptypes))), 0)
            self.proc_body(ptypes, name)
            self.emit("END FUNCTION", 0)
        self.scal = saved
        text = "\n".join(self.lines) + "\n"
        return text

    def proc_body(self, ptypes, fname):
        r = self.r
        self.in_proc = True
        saved = {t: list(v) for t, v in self.scal.items()}
        saved_arrays, saved_recs, saved_recarr, saved_fixed = self.arrays, self.rec_vars, self.rec_arrays, self.fixed
        # only SHARED things are visible: keep it simple and use locals + parameters
        self.arrays, self.rec_vars, self.rec_arrays, self.fixed = {}, [], [], []
        for j, t in enumerate(ptypes):
            self.scal[t] = self.scal[t] + ["P%d%s" % (j, t)]
        saved_subs, saved_funcs = self.subs, self.funcs
        # no recursion into other generated procedures except sometimes (bounded by a depth guard)
        self.subs, self.funcs = [], []
        if r.random() < 0.3:
            self.emit("IF A%% > 3 THEN EXIT %s" % ("FUNCTION" if fname else "SUB"), 1)
        for _ in range(r.choice([1, 2, 3])):
            self.stmt(1)
        if fname:
            if r.random() < 0.85:
                self.emit("%s = %s" % (fname, self.s(1) if fname[-1] == "$" else self.num(1)), 1)
        self.subs, self.funcs = saved_subs, saved_funcs
        self.arrays, self.rec_vars, self.rec_arrays, self.fixed = saved_arrays, saved_recs, saved_recarr, saved_fixed
        self.scal = saved
        self.in_proc = False

    def stdin_bytes(self):
        r = self.r
        x = r.random()
        if x < 0.15:
            return ""
        parts = []
        for _ in range(r.randrange(1, 8)):
            parts.append(r.choice(["42", "3.5", "hello", "a,b", "-7", "", "  12  ", "1e5", "99999999999", "x\xff\xfey", "\xe9", "1,2,3", "\"q\"", "0", "-32769", "40000", "nan", "inf", "1.5.2", "&H10"]))
            parts.append(r.choice(["\n", "\r\n", "\n", "\r", ",", ""]))
        if r.random() < 0.1:
            parts.append("z" * 5000)
        return "".join(parts)
