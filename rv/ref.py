"""Big-step/small-step reference semantics for generated BASIC programs (rv.lang AST).

Written from the property statements (C01, C03, C04, C05, C06, C16) and QBasic's documented behaviour,
in a different language and by a different route (exact rationals over a flattened statement list) than
the code under test. It only has an opinion inside the *exact domain*; outside it raises Discard, and the
case is counted as inconclusive, never as a violation."""
import struct
from fractions import Fraction

from .lang import NUMT, RANK, REL, fmt_fraction

I16 = (-32768, 32767)
I32 = (-2147483648, 2147483647)
EPS = Fraction(1, 1000)
HALF = Fraction(1, 2)


class Discard(Exception):
    """The case leaves the domain in which the oracle is exact."""


class BasicError(Exception):
    def __init__(self, code):
        Exception.__init__(self, code)
        self.code = code


class StepLimit(Exception):
    pass


class ProgramEnd(Exception):
    pass


def f32_exact(v):
    try:
        f = float(v)
        g = struct.unpack("<f", struct.pack("<f", f))[0]
    except (OverflowError, struct.error):
        return False
    return Fraction(g) == v


def f64_exact(v):
    try:
        return Fraction(float(v)) == v
    except OverflowError:
        return False


def round_half_away(v):
    """Rounds to the nearest whole number; an exact tie is outside the exact domain."""
    v = Fraction(v)
    fl = v.numerator // v.denominator
    frac = v - fl
    if frac == HALF:
        raise Discard("rounding_tie")
    if abs(frac - HALF) < EPS:
        raise Discard("rounding_near_tie")
    return fl + (1 if frac > HALF else 0)


def convert(val, t):
    """Converts a value (type, v) to type t as an assignment / by-value binding does."""
    st, v = val
    if t == "$":
        if st != "$":
            raise Discard("string_conversion")
        return ("$", v)
    if st == "$":
        raise Discard("string_conversion")
    if t in "%&":
        n = v if isinstance(v, int) else round_half_away(v)
        lo, hi = I16 if t == "%" else I32
        if n < lo or n > hi:
            raise BasicError(6)
        return (t, int(n))
    v = Fraction(v)
    if t == "!":
        if not f32_exact(v):
            raise Discard("inexact_single")
        return ("!", v)
    if not f64_exact(v):
        raise Discard("inexact_double")
    return ("#", v)


def default_value(t):
    if t == "$":
        return ("$", "")
    if t in "%&":
        return (t, 0)
    return (t, Fraction(0))


def num_text(val):
    """The digits PRINT writes for a number (without the sign column and trailing space)."""
    t, v = val
    if isinstance(v, int) or Fraction(v).denominator == 1:
        return str(abs(int(v)))
    s = fmt_fraction(abs(Fraction(v)))
    return s


class Device:
    def __init__(self):
        self.out = []
        self.col = 0
        self.segments = []   # ("s", text) | ("n", type, value, text)

    def write_num(self, val):
        text = ("-" if val[1] < 0 else " ") + num_text(val) + " "
        self.segments.append(("n", val[0], val[1], text))
        self.col += len(text)
        self.out.append(text)

    def write(self, s):
        # column restarts after a CR or LF inside a string
        for ch in s:
            if ch in "\r\n":
                self.col = 0
            else:
                self.col += 1
        self.out.append(s)
        self.segments.append(("s", s))

    def text(self):
        return "".join(self.out)


class Proc:
    def __init__(self, name, kind, params, static, body, rtype=None):
        self.name = name
        self.kind = kind
        self.params = params      # list of (name with suffix, type)
        self.static = static
        self.body = body          # flat code
        self.rtype = rtype
        self.labels = {}


class Frame:
    def __init__(self, proc=None):
        self.proc = proc
        self.vars = {}
        self.arrays = {}      # name -> (dims [(lb, ub)], dict index tuple -> value, elem type, fixed len)
        self.loops = {}       # loop id -> (limit, step)
        self.gosub = []
        self.select = {}


class ResumeUnwind(Exception):
    """RESUME label executed for an error that was raised inside a procedure: unwinds to the main module."""

    def __init__(self, label):
        Exception.__init__(self, label)
        self.label = label


class Interp:
    def __init__(self, program, stdin="", max_steps=5000, max_out=100000):
        """program: {'main': [stmts], 'procs': [proc stmts], 'shared': set(names), 'types': {...}}"""
        self.max_steps = max_steps
        self.steps = 0
        self.screen = Device()
        self.lpt1 = Device()
        self.files_out = {}
        self.data = []
        self.data_ptr = 0
        self.procs = {}
        self.shared = set(n.upper() for n in program.get("shared", ()))
        self.consts = {}
        self.err_code = 0
        self.handler = None          # None | ('goto', label) | ('next',)
        self.in_handler = False
        self.call_rows = []          # rows of active call sites (innermost last)
        self.rows = program.get("rows", {})
        self.fail_sid = None
        self.fail_stack = None
        self.fail_any_row = False
        self.handled_errors = 0
        self.trace_calls = 0
        self.max_depth = 0
        self.depth = 0
        self.stmt_count = {}
        main = program["main"]
        # DATA statements are collected in program order before anything runs
        self._collect_data(main)
        self.main_code, self.main_labels = flatten(main)
        for p in program.get("procs", ()):
            code, labels = flatten(p["body"])
            pr = Proc(p["name"].upper(), p["k"], p["params"], bool(p.get("static")), code, p.get("rtype"))
            pr.labels = labels
            self.procs[pr.name] = pr
        self.globals = Frame(None)
        self.static_frames = {}

    def _collect_data(self, stmts):
        # DATA is a declaration: the items of the whole module count, in text order, also those inside blocks
        for s in stmts:
            k = s["k"]
            if k == "data":
                self.data += list(s["values"])
            elif k == "if":
                for _, body in s["arms"]:
                    self._collect_data(body)
                if s.get("else") is not None:
                    self._collect_data(s["else"])
            elif k == "select":
                for _, body in s["cases"]:
                    self._collect_data(body)
                if s.get("else") is not None:
                    self._collect_data(s["else"])
            elif k in ("for", "while", "do"):
                self._collect_data(s["body"])

    # ---- variables -------------------------------------------------------
    def frame_of(self, frame, name):
        if frame is not self.globals and name in self.shared:
            return self.globals
        return frame

    def get_var(self, frame, name):
        name = name.upper()
        if name in self.consts:
            return self.consts[name]
        f = self.frame_of(frame, name)
        if name not in f.vars:
            f.vars[name] = default_value(name[-1])
        return f.vars[name]

    def set_var(self, frame, name, val):
        name = name.upper()
        f = self.frame_of(frame, name)
        f.vars[name] = convert(val, name[-1])

    def get_array(self, frame, name):
        name = name.upper()
        f = self.frame_of(frame, name)
        if name not in f.arrays:
            raise Discard("undeclared_array")
        return f.arrays[name]

    def index_of(self, frame, arr, args):
        dims = arr[0]
        idx = []
        for a in args:
            v = self.eval(frame, a)
            n = convert(v, "&")[1] if v[0] != "%" else v[1]
            idx.append(n)
        if len(idx) != len(dims):
            raise Discard("dimension_count")
        for n, (lb, ub) in zip(idx, dims):
            if n < lb or n > ub:
                raise BasicError(9)
        return tuple(idx)

    def load(self, frame, e):
        k = e[0]
        if k == "var":
            return self.get_var(frame, e[1])
        if k == "idx":
            arr = self.get_array(frame, e[1])
            ix = self.index_of(frame, arr, e[2])
            return arr[1].get(ix, default_elem(arr))
        raise Discard("unsupported_lvalue")

    def store(self, frame, e, val):
        k = e[0]
        if k == "var":
            self.set_var(frame, e[1], val)
            return
        if k == "idx":
            arr = self.get_array(frame, e[1])
            ix = self.index_of(frame, arr, e[2])
            arr[1][ix] = conv_elem(arr, val)
            return
        raise Discard("unsupported_lvalue")

    # ---- expressions -----------------------------------------------------
    def eval(self, frame, e):
        k = e[0]
        if k == "lit":
            t, v = e[1], e[2]
            if t in "!#":
                v = Fraction(v)
                if not (f32_exact(v) if t == "!" else f64_exact(v)):
                    raise Discard("inexact_literal")
            return (t, v)
        if k == "var":
            return self.get_var(frame, e[1])
        if k == "par":
            return self.eval(frame, e[1])
        if k == "idx":
            return self.load(frame, e)
        if k == "un":
            if e[1] == "-" and e[2][0] == "lit" and e[2][1] == "&" and e[2][2] == 32768:
                # a numeric literal directly after a unary minus keeps the narrowest type: -32768 is an INTEGER
                return ("%", -32768)
            x = self.eval(frame, e[2])
            if x[0] == "$":
                raise Discard("type")
            if e[1] == "-":
                t, v = x
                if t == "%" and v == -32768:
                    raise BasicError(6)
                if t == "&" and v == -2147483648:
                    raise BasicError(6)
                return (t, -v)
            t, v = x
            if t in "%&":
                return (t, -v - 1)
            n = round_half_away(v)
            r = Fraction(-n - 1)
            if t == "?" and abs(r) > 32767:
                raise Discard("dyn_range")
            return (t, r)
        if k == "bin":
            op = e[1]
            a = self.eval(frame, e[2])
            b = self.eval(frame, e[3])
            return self.binop(op, a, b)
        if k == "call":
            return self.call_function(frame, e[1], e[2])
        raise Discard("unsupported_expr_" + k)

    def binop(self, op, a, b):
        ta, va = a
        tb, vb = b
        if ta == "$" or tb == "$":
            if ta != tb:
                raise Discard("type")
            if op == "+":
                if len(va) + len(vb) > 4000:
                    raise Discard("string_too_long")
                return ("$", va + vb)
            if op in REL:
                return ("%", -1 if cmp_op(op, va, vb) else 0)
            raise Discard("type")
        if op in REL:
            fa, fb = Fraction(va), Fraction(vb)
            if fa != fb and abs(fa - fb) < EPS:
                raise Discard("near_equal_compare")
            return ("%", -1 if cmp_op(op, fa, fb) else 0)
        if op in ("AND", "OR", "MOD"):
            x = va if isinstance(va, int) else round_half_away(va)
            y = vb if isinstance(vb, int) else round_half_away(vb)
            small = I16[0] <= x <= I16[1] and I16[0] <= y <= I16[1]
            if not (I32[0] <= x <= I32[1] and I32[0] <= y <= I32[1]):
                # beyond the LONG range: whether that is Overflow for every operator is not pinned down here
                raise Discard("int_operand_range")
            if op in ("AND", "OR"):
                if small:
                    r16 = (x & 0xFFFF) & (y & 0xFFFF) if op == "AND" else (x & 0xFFFF) | (y & 0xFFFF)
                    return ("%", to_i16(r16))
                # one operand needs a LONG: the bitwise operation on 32-bit two's-complement words
                r32 = (x & 0xFFFFFFFF) & (y & 0xFFFFFFFF) if op == "AND" else (x & 0xFFFFFFFF) | (y & 0xFFFFFFFF)
                return ("&", r32 - (1 << 32) if r32 >= (1 << 31) else r32)
            if y == 0:
                raise BasicError(11)
            q = abs(x) % abs(y)
            long_result = ta == "&" or tb == "&" or not small
            return ("&" if long_result else "%", q if x >= 0 else -q)
        if op == "/":
            d = Fraction(vb)
            if d == 0:
                raise BasicError(11)
            if abs(d) < EPS:
                raise Discard("tiny_divisor")
            q = Fraction(va) / d
            if (ta in "%&" and tb in "%&" and (ta == "&" or tb == "&") and q.denominator == 1
                    and not (I16[0] <= q <= I16[1]) and I32[0] <= q <= I32[1]):
                # whole numbers, one of them a LONG: the quotient is computed in double precision, a whole quotient is a LONG
                return ("&", int(q))
            if not f32_exact(q):
                raise Discard("div_inexact")
            if abs(q) > 32767:
                raise Discard("dyn_range")
            return ("?", q)
        # + - *
        if op == "+":
            r = va + vb
        elif op == "-":
            r = va - vb
        else:
            r = va * vb
        if ta == "?" or tb == "?":
            r = Fraction(r)
            if not f32_exact(r):
                raise Discard("dyn_inexact")
            if abs(r) > 32767:
                raise Discard("dyn_range")
            return ("?", r)
        t = ta if RANK[ta] >= RANK[tb] else tb
        if t == "%":
            if not I16[0] <= r <= I16[1]:
                raise BasicError(6)
            return ("%", r)
        if t == "&":
            if not I32[0] <= r <= I32[1]:
                raise BasicError(6)
            return ("&", r)
        r = Fraction(r)
        if t == "!":
            # operands are converted to single first
            if not (f32_exact(Fraction(va)) and f32_exact(Fraction(vb)) and f32_exact(r)):
                raise Discard("inexact_single")
        else:
            if not (f64_exact(Fraction(va)) and f64_exact(Fraction(vb)) and f64_exact(r)):
                raise Discard("inexact_double")
        return (t, r)

    # ---- calls -----------------------------------------------------------
    def call_function(self, frame, name, args):
        name = name.upper()
        if name in self.procs:
            return self.invoke(frame, self.procs[name], args, getattr(self, "cur_sid", None))
        return builtin(self, frame, name, args)

    def invoke(self, frame, proc, args, call_sid):
        """Copy-in / copy-out call: by-reference for plain variables, array elements and fields."""
        if len(args) != len(proc.params):
            raise Discard("arity")
        self.depth += 1
        self.max_depth = max(self.max_depth, self.depth)
        if self.depth > 40:
            raise Discard("recursion_depth")
        self.trace_calls += 1
        bound = []
        for (pname, ptype), a in zip(proc.params, args):
            byref = a[0] in ("var", "idx", "fld") and not (a[0] == "var" and a[1].upper() in self.consts)
            v = self.eval(frame, a)
            if byref and v[0] != ptype:
                raise Discard("byref_type_mismatch")
            bound.append((pname.upper(), convert(v, ptype), a if byref else None))
        if proc.static:
            callee = self.static_frames.get(proc.name)
            if callee is None:
                callee = Frame(proc)
                self.static_frames[proc.name] = callee
            callee.loops = {}
            callee.gosub = []
        else:
            callee = Frame(proc)
        for pname, v, _ in bound:
            callee.vars[pname] = v
        if proc.kind == "function" and not proc.static:
            callee.vars[proc.name] = default_value(proc.name[-1])
        if proc.kind == "function" and proc.static:
            callee.vars[proc.name] = default_value(proc.name[-1])
        row = self.rows.get(call_sid)
        self.call_rows.append(row)
        saved_sid = getattr(self, "cur_sid", None)
        try:
            self.run(callee, proc.body, proc.labels)
        except ResumeUnwind:
            self.call_rows.pop()
            self.depth -= 1
            raise
        self.cur_sid = saved_sid     # back in the calling statement
        self.call_rows.pop()
        self.depth -= 1
        # write back left to right
        for pname, _, target in bound:
            if target is not None:
                self.store(frame, target, callee.vars[pname])
        if proc.kind == "function":
            return callee.vars.get(proc.name, default_value(proc.name[-1]))
        return None

    # ---- statements ------------------------------------------------------
    def device(self, s):
        dev = s.get("dev")
        if dev is None:
            return self.screen
        if dev == "lpt1":
            return self.lpt1
        return self.files_out.setdefault(dev[1], Device())

    def do_print(self, frame, s):
        d = self.device(s)
        items = s["items"]
        for it in items:
            if it[0] == "e":
                v = self.eval(frame, it[1])
                if v[0] == "$":
                    d.write(v[1])
                else:
                    d.write_num(v)
            elif it[0] == ",":
                d.write(" " * (14 - d.col % 14))
        if not items or items[-1][0] == "e":
            d.write("\r\n")

    def exec_simple(self, frame, s):
        k = s["k"]
        if k == "assign":
            v = self.eval(frame, s["rhs"])
            self.store(frame, s["lhs"], v)
        elif k == "print":
            self.do_print(frame, s)
        elif k == "read":
            for target in s["vars"]:
                if self.data_ptr >= len(self.data):
                    raise BasicError(4)
                item = self.data[self.data_ptr]
                self.data_ptr += 1
                tt = target[1][-1] if target[0] in ("var", "idx") else None
                if tt == "$":
                    if item[0] != "$":
                        # QBasic reads the text of the number; the implementation's own test suite pins a
                        # type mismatch here and the property does not decide, so the oracle has no opinion
                        raise Discard("read_number_into_string")
                    self.store(frame, target, ("$", item[1]))
                else:
                    if item[0] == "$":
                        raise Discard("read_string_into_number")
                    self.store(frame, target, (item[0], item[1]))
        elif k == "callsub":
            self.invoke(frame, self.procs[s["name"].upper()], s["args"], s.get("id"))
        elif k == "dim":
            self.do_dim(frame, s)
        elif k == "const":
            self.consts[s["name"].upper()] = self.const_value(frame, s)
        elif k in ("data", "comment", "declare", "raw_noop"):
            pass
        elif k == "end":
            raise ProgramEnd()
        else:
            raise Discard("unsupported_statement_" + k)

    def const_value(self, frame, s):
        v = self.eval(frame, s["expr"])
        t = s["name"][-1]
        if t in "%&!#$":
            return convert(v, t)
        if v[0] == "?":
            raise Discard("const_div")
        return v

    def do_dim(self, frame, s):
        for d in s["decls"]:
            name = d["name"].upper()
            if d.get("shared"):
                self.shared.add(name)
            f = self.frame_of(frame, name)
            if d.get("dims") is not None:
                dims = []
                for lo, hi in d["dims"]:
                    lb = 0 if lo is None else convert(self.eval(frame, lo), "&")[1]
                    ub = convert(self.eval(frame, hi), "&")[1]
                    if ub < lb:
                        raise BasicError(9)
                    dims.append((lb, ub))
                if name in f.arrays and frame.proc is not None and frame.proc.static:
                    continue
                f.arrays[name] = (dims, {}, d["type"], d.get("fixed"))
            else:
                if name not in f.vars:
                    f.vars[name] = default_value(d["type"]) if d.get("fixed") is None else ("$", " " * d["fixed"])

    def run(self, frame, code, labels, start=0, handler_mode=False):
        pc = start
        n = len(code)
        while pc < n:
            ins = code[pc]
            op = ins[0]
            self.steps += 1
            if self.steps > self.max_steps:
                raise StepLimit()
            try:
                if op == "s":
                    self.cur_sid = ins[1].get("id")
                    self.exec_simple(frame, ins[1])
                    pc += 1
                elif op == "jf":
                    self.cur_sid = ins[3]
                    v = self.eval(frame, ins[1])
                    if truth(v):
                        pc += 1
                    else:
                        pc = ins[2]
                elif op == "jmp":
                    pc = ins[1]
                elif op == "exit":
                    # EXIT SUB / EXIT FUNCTION: the activation ends here
                    self.cur_sid = ins[1].get("id")
                    if handler_mode or frame is self.globals:
                        raise Discard("exit_outside_procedure")
                    pc = n
                elif op == "until":
                    self.cur_sid = ins[3]
                    v = self.eval(frame, ins[1])
                    # the loop goes on while the condition is false (zero)
                    if not truth(v):
                        pc += 1
                    else:
                        pc = ins[2]
                elif op == "for_init":
                    self.cur_sid = ins[1]["id"]
                    self.for_init(frame, ins[1])
                    pc += 1
                elif op == "for_test":
                    self.cur_sid = ins[1]["id"]
                    if self.for_test(frame, ins[1]):
                        pc += 1
                    else:
                        pc = ins[2]
                elif op == "for_next":
                    self.cur_sid = ins[1]["id"]
                    self.for_next(frame, ins[1])
                    pc = ins[2]
                elif op == "sel_init":
                    self.cur_sid = ins[1]["id"]
                    frame.select[ins[1]["id"]] = self.eval(frame, ins[1]["subj"])
                    pc += 1
                elif op == "sel_test":
                    self.cur_sid = ins[4]
                    if self.select_match(frame, frame.select[ins[1]["id"]], ins[2]):
                        pc += 1
                    else:
                        pc = ins[3]
                elif op == "ifline":
                    self.cur_sid = ins[1].get("id")
                    v = self.eval(frame, ins[1]["cond"])
                    pc = pc + 1 if truth(v) else ins[2]
                elif op == "label":
                    pc += 1
                elif op == "goto":
                    pc = labels[ins[1].upper()]
                elif op == "gosub":
                    frame.gosub.append(pc + 1)
                    pc = labels[ins[1].upper()]
                elif op == "onerror":
                    st = ins[1]
                    if st["mode"] == "goto":
                        self.handler = ("goto", st["label"])
                    elif st["mode"] == "zero":
                        self.handler = None
                    else:
                        self.handler = ("next",)
                    pc += 1
                elif op == "resume":
                    self.cur_sid = ins[1].get("id")
                    if not handler_mode:
                        raise BasicError(20)
                    st = ins[1]
                    if st["mode"] == "next":
                        return ("next",)
                    if st["mode"] == "label":
                        return ("label", st["label"])
                    return ("resume",)
                elif op == "return":
                    self.cur_sid = ins[2]
                    if not frame.gosub:
                        raise BasicError(3)
                    back = frame.gosub.pop()
                    pc = labels[ins[1].upper()] if ins[1] else back
                else:
                    raise Discard("unsupported_flat_op_" + op)
            except BasicError as err:
                if handler_mode or self.in_handler or getattr(err, "passed_on", False) or self.handler is None:
                    # an error raised by the handler itself, before its RESUME, is fatal (trapping is off while a handler is active)
                    # no handler (or an error inside the handler, or one that a deeper activation already gave up on)
                    if self.fail_sid is None:
                        self.fail_sid = self.cur_sid
                        self.fail_stack = list(self.call_rows)
                    err.passed_on = True
                    raise
                # an error in the header of a block (IF / ELSEIF condition, CASE expression, FOR bounds, NEXT increment, loop
                # condition): plain RESUME re-executes the clause; where RESUME NEXT continues is not defined by the property
                header = op in ("jf", "until", "for_init", "for_test", "for_next", "sel_init", "sel_test", "ifline")
                self.err_code = err.code
                self.handled_errors += 1
                if self.handler[0] == "next":
                    if header:
                        raise Discard("handled_error_in_block_header")
                    pc += 1
                    continue
                # ON ERROR GOTO label: the handler runs in the main module, on the main module's variables
                self.in_handler = True   # also covers procedures the handler calls
                action = self.run(self.globals, self.main_code, self.main_labels, start=self.main_labels[self.handler[1].upper()], handler_mode=True)
                self.in_handler = False
                if action is None:
                    raise ProgramEnd()
                self.err_code = 0
                if action[0] == "resume":
                    continue
                if action[0] == "next":
                    if header:
                        raise Discard("handled_error_in_block_header")
                    pc += 1
                    continue
                if frame is not self.globals:
                    # RESUME label: the label belongs to the main module, every active call is abandoned (no write-back of
                    # by-reference arguments, the GOSUBs pending inside the calls are forgotten, those of the main module stay)
                    raise ResumeUnwind(action[1])
                pc = labels[action[1].upper()]
                continue
            except ResumeUnwind as u:
                if frame is not self.globals or handler_mode:
                    raise
                pc = labels[u.label.upper()]
                continue
        return None

    def unary_not(self, v):
        t, x = v
        if t == "$":
            raise Discard("type")
        if t in "%&":
            return (t, -x - 1)
        return (t, Fraction(-round_half_away(x) - 1))

    def for_init(self, frame, s):
        t = s["var"][-1]
        # the bounds and the step are evaluated before the counter is assigned (FOR I = 1 TO I + 5)
        lo = convert(self.eval(frame, s["lo"]), t)
        hi = convert(self.eval(frame, s["hi"]), t)
        if s.get("step") is not None:
            st = self.eval(frame, s["step"])
            if st[0] == "$":
                raise Discard("type")
            if Fraction(st[1]) == 0:
                raise Discard("zero_step")
            # the step is converted to the counter's type; a step that changes value by that
            # conversion is outside the exact domain
            cst = convert(st, t)
            if Fraction(cst[1]) != Fraction(st[1]):
                raise Discard("fractional_step_for_whole_counter")
            st = cst
        else:
            st = (t, 1) if t in "%&" else (t, Fraction(1))
        self.set_var(frame, s["var"], lo)
        frame.loops[s["id"]] = (hi, st)

    def for_test(self, frame, s):
        hi, st = frame.loops[s["id"]]
        c = self.get_var(frame, s["var"])
        a, b = Fraction(c[1]), Fraction(hi[1])
        if a != b and abs(a - b) < EPS:
            raise Discard("near_equal_compare")
        return a <= b if st[1] > 0 else a >= b

    def for_next(self, frame, s):
        hi, st = frame.loops[s["id"]]
        c = self.get_var(frame, s["var"])
        try:
            r = self.binop("+", c, st)
            self.set_var(frame, s["var"], r)
        except BasicError:
            # an overflowing increment belongs to the FOR..NEXT construct: either of its rows is right
            self.fail_any_row = True
            raise

    def select_match(self, frame, subj, cases):
        for c in cases:
            if c[0] == "val":
                if truth(self.binop("=", subj, self.eval(frame, c[1]))):
                    return True
            elif c[0] == "is":
                if truth(self.binop(c[1], subj, self.eval(frame, c[2]))):
                    return True
            else:
                lo = self.eval(frame, c[1])
                hi = self.eval(frame, c[2])
                if truth(self.binop(">=", subj, lo)) and truth(self.binop("<=", subj, hi)):
                    return True
        return False

    def execute(self):
        """Runs the program. Returns ('ok',) or ('error', code, failing statement id, call rows)."""
        try:
            self.run(self.globals, self.main_code, self.main_labels)
        except ProgramEnd:
            return ("ok",)
        except BasicError as e:
            return ("error", e.code, self.fail_sid, self.fail_stack)
        return ("ok",)


def to_i16(u):
    u &= 0xFFFF
    return u - 0x10000 if u >= 0x8000 else u


def cmp_op(op, a, b):
    if op == "=":
        return a == b
    if op == "<>":
        return a != b
    if op == "<":
        return a < b
    if op == "<=":
        return a <= b
    if op == ">":
        return a > b
    return a >= b


def truth(v):
    """A condition is true iff its value is non-zero; values close to zero are outside the exact domain."""
    if v[0] == "$":
        raise Discard("type")
    x = Fraction(v[1])
    if x != 0 and abs(x) < EPS:
        raise Discard("near_zero_condition")
    return x != 0


def default_elem(arr):
    t = arr[2]
    if arr[3] is not None:
        return ("$", " " * arr[3])
    return default_value(t)


def conv_elem(arr, val):
    t = arr[2]
    v = convert(val, t)
    if arr[3] is not None:
        s = v[1][: arr[3]]
        return ("$", s + " " * (arr[3] - len(s)))
    return v


def builtin(interp, frame, name, args):
    """The few built-in functions the core generators use (string functions are C17's business)."""
    if name in ("LBOUND", "UBOUND"):
        # the first argument is the array itself, not an expression
        vals = [None] + [interp.eval(frame, a) for a in args[1:]]
    else:
        vals = [interp.eval(frame, a) for a in args]
    if name == "LEN":
        if vals[0][0] != "$":
            raise Discard("len_of_number")
        return ("%", len(vals[0][1]))
    if name == "ERR":
        return ("%", interp.err_code)
    if name == "LBOUND" or name == "UBOUND":
        arr = interp.get_array(frame, args[0][1])
        d = 1 if len(vals) < 2 else convert(vals[1], "%")[1]
        if d < 1 or d > len(arr[0]):
            raise BasicError(9)
        return ("%", arr[0][d - 1][0 if name == "LBOUND" else 1])
    if name in ("LEFT$", "RIGHT$"):
        n = convert(vals[1], "%")[1]
        if n < 0:
            raise BasicError(5)
        sv = vals[0][1]
        return ("$", sv[:n] if name == "LEFT$" else (sv[len(sv) - n:] if n < len(sv) else sv))
    if name == "CHR$":
        n = convert(vals[0], "%")[1]
        if n < 0 or n > 255:
            raise BasicError(5)
        return ("$", chr(n))
    raise Discard("unsupported_builtin_" + name)


def flatten(stmts):
    """Turns nested statements into a flat list with explicit jumps. Returns (code, labels)."""
    code = []
    labels = {}

    def emit(x):
        code.append(x)
        return len(code) - 1

    def block(ss):
        for s in ss:
            one(s)

    def one(s):
        k = s["k"]
        if k == "if":
            ends = []
            for k, (cond, body) in enumerate(s["arms"]):
                j = emit(None)
                block(body)
                ends.append(emit(None))
                code[j] = ("jf", cond, len(code), s.get("id") if k == 0 else (s.get("id"), "arm", k))
            if s.get("else") is not None:
                block(s["else"])
            for e in ends:
                code[e] = ("jmp", len(code))
        elif k == "ifline":
            j = emit(None)
            block(s["then"])
            if s.get("else") is not None:
                e = emit(None)
                code[j] = ("ifline", s, len(code))
                block(s["else"])
                code[e] = ("jmp", len(code))
            else:
                code[j] = ("ifline", s, len(code))
        elif k == "select":
            emit(("sel_init", s))
            ends = []
            for k, (cases, body) in enumerate(s["cases"]):
                j = emit(None)
                block(body)
                ends.append(emit(None))
                code[j] = ("sel_test", s, cases, len(code), (s.get("id"), "case", k))
            if s.get("else") is not None:
                block(s["else"])
            for e in ends:
                code[e] = ("jmp", len(code))
        elif k == "for":
            emit(("for_init", s))
            t = emit(None)
            block(s["body"])
            emit(("for_next", s, t))
            code[t] = ("for_test", s, len(code))
        elif k == "while":
            t = emit(None)
            block(s["body"])
            emit(("jmp", t))
            code[t] = ("jf", s["cond"], len(code), s.get("id"))
        elif k == "do":
            if s["pos"] == "top":
                t = emit(None)
                block(s["body"])
                emit(("jmp", t))
                code[t] = ("jf" if s["kind"] == "while" else "until", s["cond"], len(code), s.get("id"))
            else:
                t = len(code)
                block(s["body"])
                j = emit(None)
                emit(("jmp", t))
                code[j] = ("jf" if s["kind"] == "while" else "until", s["cond"], len(code), (s.get("id"), "loop"))
        elif k == "label":
            labels[s["name"].upper()] = len(code)
            emit(("label", s["name"]))
        elif k == "goto":
            emit(("goto", s["label"]))
        elif k == "gosub":
            emit(("gosub", s["label"]))
        elif k == "return":
            emit(("return", s.get("label"), s.get("id")))
        elif k == "exit":
            emit(("exit", s))
        elif k == "onerror":
            emit(("onerror", s))
        elif k == "resume":
            emit(("resume", s))
        else:
            emit(("s", s))

    block(stmts)
    return code, labels


import re as _re

_NUM = _re.compile(r"( |-)(\d+(?:\.\d+)?|\.\d+) ")


def match_segments(segments, actual):
    """Tolerant comparison of printed output: strings byte for byte, numbers by their value in their type
    (so that the shortest-digits rendering of a SINGLE is accepted for the exact decimal expansion)."""
    pos = 0
    for seg in segments:
        if seg[0] == "s":
            if not actual.startswith(seg[1], pos):
                return False
            pos += len(seg[1])
            continue
        _, t, v, text = seg
        if actual.startswith(text, pos):
            pos += len(text)
            continue
        m = _NUM.match(actual, pos)
        if not m:
            return False
        p = Fraction(m.group(2))
        if m.group(1) == "-":
            p = -p
        if (p < 0) != (Fraction(v) < 0) and p != 0:
            return False
        ok = False
        try:
            if t in "!?":
                ok = ok or struct.unpack("<f", struct.pack("<f", float(p)))[0] == float(v)
            if t in "#?":
                ok = ok or float(p) == float(v)
            if t in "%&":
                ok = p == v
        except (OverflowError, struct.error):
            ok = False
        if not ok:
            return False
        # the width of the number may differ, which shifts later print zones: only accept when the
        # rest of the line cannot depend on the column (no zone padding follows on this line)
        if len(m.group(0)) != len(text):
            return "width"
        pos += len(m.group(0))
    return pos == len(actual)
