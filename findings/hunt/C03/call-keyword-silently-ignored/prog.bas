DECLARE SUB U (a%)
x% = 1
CALL U(x%)
PRINT x%
SUB U (a%)
  PRINT "U"; a%
  a% = a% + 1
END SUB
