DECLARE SUB Count (n%)
DECLARE FUNCTION Fact& (n%)
Count 3
PRINT
PRINT Fact&(5)
x% = 3
Count x%
PRINT
PRINT x%
SUB Count (n%) STATIC
  IF n% > 1 THEN Count n% - 1
  PRINT n%;
END SUB
FUNCTION Fact& (n%) STATIC
  IF n% <= 1 THEN
    Fact& = 1
  ELSE
    Fact& = Fact&(n% - 1) * n%
  END IF
END FUNCTION
