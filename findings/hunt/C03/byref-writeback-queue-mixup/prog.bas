DECLARE SUB Two (p%, q%)
DECLARE SUB Swp (p%, q%)
DIM a(1 TO 3) AS INTEGER
s$ = "abc"
y% = 1
Two a(LEN(s$)), y%
PRINT a(3); y%; s$
a(1) = 10: a(2) = 20: a(3) = 30
Swp a(LBOUND(a)), a(UBOUND(a))
PRINT a(1); a(2); a(3)
SUB Two (p%, q%)
  p% = 7
  q% = 8
END SUB
SUB Swp (p%, q%)
  t% = p%: p% = q%: q% = t%
END SUB
