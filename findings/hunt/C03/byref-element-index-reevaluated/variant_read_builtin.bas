DECLARE FUNCTION Nxt% ()
DIM a(1 TO 5) AS INTEGER
DATA 10, 20
READ a(Nxt%)
PRINT a(1); a(2); a(3); Nxt%
FUNCTION Nxt% STATIC
  c% = c% + 1
  Nxt% = c%
END FUNCTION
