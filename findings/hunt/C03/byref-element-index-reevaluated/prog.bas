DECLARE SUB Two (i%, x%)
DECLARE SUB Inc (n%)
DECLARE FUNCTION Nxt% ()
DIM a(1 TO 3) AS INTEGER
a(1) = 10: a(2) = 20
i% = 1
Two i%, a(i%)
PRINT i%; a(1); a(2)
DIM b(1 TO 3) AS INTEGER
Inc b(Nxt%)
PRINT b(1); b(2); Nxt%
SUB Two (i%, x%)
  i% = 2
  x% = 99
END SUB
SUB Inc (n%)
  n% = n% + 5
END SUB
FUNCTION Nxt% STATIC
  c% = c% + 1
  Nxt% = c%
END FUNCTION
