DECLARE FUNCTION F% (n%)
DECLARE SUB S (a%, b%)
x% = 1
S x%, F%(x%)
PRINT "after"; x%
FUNCTION F% (n%)
  n% = n% + 10
  F% = 100
END FUNCTION
SUB S (a%, b%)
  PRINT "S sees"; a%; b%
END SUB
