DECLARE SUB S ()
GOSUB doit
PRINT "end"
END
doit:
  S
  PRINT "returning"
  RETURN
SUB S
  PRINT "in S"
  GOSUB inner
  PRINT "after gosub in S"
  EXIT SUB
inner:
  PRINT "inner"
  EXIT SUB
END SUB
