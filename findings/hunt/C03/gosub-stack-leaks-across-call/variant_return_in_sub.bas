DECLARE SUB S ()
GOSUB doit
PRINT "after gosub in main"
END
doit:
  S
  PRINT "back from S"
  RETURN
SUB S
  x% = 5
  PRINT "in S"
  RETURN
  PRINT "not reached?"
END SUB
