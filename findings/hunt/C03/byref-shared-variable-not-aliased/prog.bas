DECLARE SUB S (n%)
DIM SHARED g AS INTEGER
g = 1
S g
PRINT g
SUB S (n%)
  g = 50
  PRINT n%
  n% = n% + 1
  PRINT g
END SUB
