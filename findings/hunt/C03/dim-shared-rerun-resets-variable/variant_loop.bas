DECLARE SUB Add (w$)
n% = 0
again:
DIM SHARED log$
n% = n% + 1
Add "x"
IF n% < 3 THEN GOTO again
PRINT log$
SUB Add (w$)
  log$ = log$ + w$
END SUB
