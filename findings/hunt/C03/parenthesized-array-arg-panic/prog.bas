DECLARE SUB S (a%())
DIM b(5) AS LONG
S (b())
SUB S (a%())
  a%(1) = 5
END SUB
