ON ERROR GOTO h
x = 1 / z
PRINT "after"
END
h:
  n = n + 1
  IF n <= 3 THEN PRINT "handler"; n
  IF n = 100000 THEN PRINT "still re-entering the handler": END
  y = 1 / z
  PRINT "continued in handler"
  RESUME NEXT
