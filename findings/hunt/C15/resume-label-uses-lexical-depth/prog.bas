ON ERROR GOTO h
FOR i = 1 TO 5
  GOSUB r
  FOR j = 1 TO 2: NEXT
  PRINT i
NEXT
PRINT "done"
END
r:
  x = 1 / z
lbl:
  RETURN
h:
  RESUME lbl
