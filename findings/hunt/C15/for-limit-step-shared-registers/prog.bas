FOR i = 1 TO 3
  GOTO excursion
back:
  PRINT i
NEXT
PRINT "done"
END
excursion:
  FOR j = 1 TO 2: NEXT
  GOTO back
