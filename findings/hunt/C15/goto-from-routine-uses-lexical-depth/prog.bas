FOR i = 1 TO 3
  GOSUB s
cont:
  PRINT i
NEXT
PRINT "done"
END
s:
  GOTO cont
