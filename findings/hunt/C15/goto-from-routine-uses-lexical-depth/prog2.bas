ON ERROR GOTO h
FOR i = 1 TO 3
  IF i = 2 THEN x = 1 / z
cont:
  PRINT i
NEXT
PRINT "done"
END
h:
  GOTO cont
