FOR k = 1 TO 3
  PRINT "k"; k
  FOR i = 1 TO 2
    GOSUB s
  NEXT
after:
NEXT
PRINT "done"
END
s:
RETURN after
