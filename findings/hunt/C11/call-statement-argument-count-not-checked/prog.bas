DECLARE SUB Show (x)

CALL Show(1, 2)
PRINT "done"

SUB Show (x)
  PRINT "Show"; x
END SUB
