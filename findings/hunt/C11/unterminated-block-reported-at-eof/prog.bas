x = 1
FOR i = 1 TO 3
  PRINT i
PRINT "done"



