x = 1
REM print the value
PRINT x
