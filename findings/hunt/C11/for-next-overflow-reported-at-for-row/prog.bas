FOR i% = 32766 TO 32767
  PRINT i%
  x = x + 1
  y = y + 1

NEXT i%
PRINT "not reached"
