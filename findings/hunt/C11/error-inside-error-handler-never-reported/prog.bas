ON ERROR GOTO h
z = 0
x = 1 / z
PRINT "after"
END
h:
  PRINT "in handler"
  y = 2 / z
  RESUME NEXT
