z = 0
A 3
PRINT "no error"
SUB A (n)
  x = Scores(n) + 1
  y = Scores(1 / n) + Scores(n / z)
  PRINT "still no error"; y
END SUB
