DIM a(2)
x = 1
IF (x = 1) OR (x = 2) THEN PRINT "yes"
FOR i = LBOUND(a) TO UBOUND(a) STEP 1
PRINT i;
NEXT
PRINT
