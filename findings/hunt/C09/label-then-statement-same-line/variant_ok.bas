GOSUB show
END
show:
PRINT "in show"
RETURN
