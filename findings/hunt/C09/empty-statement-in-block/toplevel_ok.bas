PRINT 1:: PRINT "x"
: PRINT "y"
