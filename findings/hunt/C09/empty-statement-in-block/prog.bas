FOR i = 1 TO 2
PRINT i:: PRINT "x"
: PRINT "y"
NEXT
