DECLARE SUB inc (n)
x = 1
inc (x)
PRINT x
SUB inc (n)
n = n + 1
END SUB
