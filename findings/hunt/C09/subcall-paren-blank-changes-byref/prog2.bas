DECLARE SUB show (a, b)
show(1), 2
SUB show (a, b)
PRINT a; b
END SUB
