x = - 1
PRINT x; 2 * - x; - (3)
