DIM arr(3)
arr (1) = 7
PRINT arr (1); LEN ("abc"); MID$ ("hello", 2, 3)
