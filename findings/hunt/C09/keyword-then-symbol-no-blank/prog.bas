PRINT"hello"
PRINT-1
OPEN "tmp_c09.txt" FOR OUTPUT AS#1
PRINT#1, "x"
CLOSE#1
KILL "tmp_c09.txt"
