x = 1
IF x = 1 THEN PRINT "one"
PRINT "done"
