TYPE Card
  v AS INTEGER
END TYPE
DIM c(5) AS Card
c(1).v = 7
PRINT c(INSTR(1, 2)).v
