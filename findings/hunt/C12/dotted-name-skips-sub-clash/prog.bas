total.count = 5
PRINT total.count
total.count
SUB total.count
  PRINT "sub"
END SUB
