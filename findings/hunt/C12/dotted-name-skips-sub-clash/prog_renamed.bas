totalcount = 5
PRINT totalcount
totalcount
SUB totalcount
  PRINT "sub"
END SUB
