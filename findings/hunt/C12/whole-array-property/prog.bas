TYPE Card
  v AS INTEGER
END TYPE
DIM a(3) AS Card
a(1).v = 5
PRINT a().v
