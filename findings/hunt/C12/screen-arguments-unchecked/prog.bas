a$ = "x"
SCREEN a$, "y" + "z"
PRINT "done"
