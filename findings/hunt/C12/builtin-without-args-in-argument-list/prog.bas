ON ERROR GOTO handler
x = 1 / 0
END
handler:
PRINT "code:"; STR$(ERR)
Show ERR
RESUME NEXT
SUB Show (n%)
  PRINT "show"; n%
END SUB
