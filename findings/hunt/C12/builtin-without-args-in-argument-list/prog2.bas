ON ERROR GOTO handler
x = 1 / 0
END
handler:
PRINT "before:"; ERR
PRINT "str:"; STR$(ERR)
PRINT "after:"; ERR
RESUME NEXT
