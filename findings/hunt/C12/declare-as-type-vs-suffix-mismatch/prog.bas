DECLARE SUB Show (n AS INTEGER, s AS STRING)
Show 7, "x"
SUB Show (n%, s$)
  PRINT n%; s$
END SUB
