flags& = 65536 + 1
IF flags& AND 1 THEN PRINT "bit 0 set"
PRINT flags& OR 2
