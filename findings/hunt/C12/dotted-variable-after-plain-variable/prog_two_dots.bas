box.top.left = 1
PRINT box.top.left
