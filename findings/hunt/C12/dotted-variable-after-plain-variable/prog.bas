x = 1
x.y = 2
PRINT x; x.y
