x = 1
xy = 2
PRINT x; xy
