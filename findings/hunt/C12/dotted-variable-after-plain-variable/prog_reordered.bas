x.y = 2
x = 1
PRINT x; x.y
