CALL Show(7, "via call")
SUB Show (n%, s$)
  PRINT "show"; n%; s$
END SUB
