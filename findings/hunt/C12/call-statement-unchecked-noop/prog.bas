x! = 1.5
CALL Show(x!)
CALL Show(1, 2, 3)
Show 7, "direct"
SUB Show (n%, s$)
  PRINT "show"; n%; s$
END SUB
