A$ = Foo$(1)
PRINT "["; A$; "]"
