PRINT UCASE$(Undef$(1))
