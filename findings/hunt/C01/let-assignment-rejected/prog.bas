LET X = 5
LET A$ = "five"
PRINT X; A$
