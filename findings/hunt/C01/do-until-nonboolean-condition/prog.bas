I = 5
N = 0
DO UNTIL I
  N = N + 1
  PRINT "body"; N
  IF N >= 3 THEN END
LOOP
PRINT "done"
