DIM SHARED X
X = 1
S X
PRINT "after S:"; X
Y = 1
T Y, Y
PRINT "after T:"; Y
SUB S (N)
  N = 5
  PRINT "in S, X ="; X
END SUB
SUB T (A, B)
  A = 7
  PRINT "in T, B ="; B
  B = B + 1
END SUB
