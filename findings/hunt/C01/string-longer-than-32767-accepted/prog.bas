A$ = "x"
FOR I = 1 TO 16
  A$ = A$ + A$
  PRINT I;
NEXT
PRINT
PRINT "done"
