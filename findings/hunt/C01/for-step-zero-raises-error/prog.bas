PRINT "start"
FOR I = 3 TO 2 STEP 0
  PRINT "body"
NEXT
PRINT "after first"; I
Z = 0
N = 0
FOR J = 1 TO 2 STEP Z
  N = N + 1
  IF N = 3 THEN J = 5
NEXT
PRINT "after second"; N
