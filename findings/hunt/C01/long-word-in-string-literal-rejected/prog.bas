' a comment with a long word: AAAAAAAAAABBBBBBBBBBCCCCCCCCCCDDDDDDDDDDE is fine in QBasic
PRINT "start"
PRINT "AAAAAAAAAABBBBBBBBBBCCCCCCCCCCDDDDDDDDDDE"
A$ = "Donaudampfschifffahrtselektrizitaetenhauptbetriebswerk"
PRINT A$
