I = 0
DO
  I = I + 1
  PRINT I
  IF I = 3 THEN END
LOOP
