FOR I = 1 TO 2
  FOR J = 1 TO 2
    PRINT I; J
NEXT J, I
PRINT "done"
