DATA 42, 3.5
READ A$, B$
PRINT A$; "/"; B$
