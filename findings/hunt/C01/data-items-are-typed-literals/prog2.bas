DATA hello, big world ,, 7
READ A$, B$, C$, N
PRINT A$; "/"; B$; "/"; C$; "/"; N
