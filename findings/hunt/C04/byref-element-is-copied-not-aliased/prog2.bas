DIM A(1 TO 3) AS INTEGER
ON ERROR GOTO h
S A(2)
PRINT "not here"
done:
PRINT A(2)
END
h:
RESUME done
SUB S(x AS INTEGER)
  x = 5
  x = x / (x - 5)
END SUB
