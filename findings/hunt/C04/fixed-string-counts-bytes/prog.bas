DIM f AS STRING * 4
f = CHR$(200) + "xyz"
PRINT LEN(f)
g$ = f
PRINT LEN(g$)
