DIM A(2) AS STRING * 3
S A()
PRINT "["; A(1); "]"; LEN(A(1))
SUB S(x$())
  x$(1) = "longer than three"
END SUB
