DIM SHARED A(3) AS INTEGER
A(1) = 10: A(2) = 20
S A(1), 1
PRINT A(1); A(2)
SUB S(x AS INTEGER, depth AS INTEGER) STATIC
  IF depth > 0 THEN S A(2), depth - 1
  x = x + 1
END SUB
