DIM A(5) AS INTEGER
i = 1
S i, A(i)
FOR k = 0 TO 5: PRINT A(k);: NEXT
PRINT
SUB S(n, x AS INTEGER)
  x = 7
  n = 3
END SUB
