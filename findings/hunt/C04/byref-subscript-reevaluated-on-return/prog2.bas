DIM A(5) AS INTEGER
DIM SHARED calls AS INTEGER
S A(NextIndex%)
PRINT calls
FOR k = 0 TO 5: PRINT A(k);: NEXT
PRINT
SUB S(x AS INTEGER)
  x = 7
END SUB
FUNCTION NextIndex%
  calls = calls + 1
  NextIndex% = calls
END FUNCTION
