DIM Z(5) AS INTEGER
x = -.5
Z(x) = 9
PRINT Z(0)
