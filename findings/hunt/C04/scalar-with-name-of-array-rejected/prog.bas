DIM A(3)
A = 5
A(1) = 7
PRINT A; A(1)
