TYPE T
  S AS STRING * 3
END TYPE
DIM R AS T
R.S = "a" + CHR$(0) + "b"
PRINT LEN(R.S); MID$(R.S, 2, 1) = CHR$(0); MID$(R.S, 3, 1) = "b"
v$ = "a" + CHR$(0) + "b"
PRINT LEN(v$); MID$(v$, 2, 1) = CHR$(0); MID$(v$, 3, 1) = "b"
DIM D AS STRING * 8
D = MKD$(1)
PRINT CVD(D) = 1
