GOTO ten
PRINT "skipped"
ten: PRINT "ten"
