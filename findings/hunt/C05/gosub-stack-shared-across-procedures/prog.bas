GOSUB rtn
PRINT "main after gosub"
END
rtn:
  PRINT "in rtn"
  Work
  PRINT "rtn after call"
  RETURN
SUB Work
  PRINT "in work"
  RETURN
  PRINT "work after return"
END SUB
