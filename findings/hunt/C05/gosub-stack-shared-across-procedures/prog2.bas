Work
PRINT "back in main"
RETURN
PRINT "after return"
END
SUB Work
  GOSUB inner
  PRINT "never"
  EXIT SUB
inner:
  PRINT "in inner"
  EXIT SUB
END SUB
