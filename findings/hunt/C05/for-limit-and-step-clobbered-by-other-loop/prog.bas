FOR i = 1 TO 3
  GOTO outside
back:
  PRINT i
NEXT
PRINT "end"; i
END
outside:
  FOR k = 1 TO 1
  NEXT
  GOTO back
