ON ERROR GOTO h
FOR i% = 1 TO 2
  FOR j% = 1 TO 30000 STEP 20000
    PRINT i%; j%
  NEXT
  PRINT "inner done"; j%
NEXT
PRINT "end"; i%
END
h:
  PRINT "err"; ERR
  j% = 10001
  RESUME
