ON ERROR GOTO h
x = 1 / 0
PRINT "after"
END
h:
  PRINT "handler"; ERR
  DIM a(2)
  a(5) = 1
  PRINT "not reached"
  RESUME NEXT
