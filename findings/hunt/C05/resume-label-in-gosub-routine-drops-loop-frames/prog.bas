ON ERROR GOTO h
FOR i = 1 TO 2
  FOR j = 10 TO 30 STEP 10
    GOSUB s
    PRINT i; j
  NEXT
NEXT
PRINT "end"
END
s:
  x = 1 / 0
back:
  RETURN
h:
  RESUME back
