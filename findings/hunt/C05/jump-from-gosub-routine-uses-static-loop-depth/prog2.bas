FOR i = 1 TO 3
  Work
  PRINT i
NEXT
PRINT "end"; i
SUB Work
  FOR k = 1 TO 2
    GOSUB r
  NEXT
  EXIT SUB
r:
  EXIT SUB
END SUB
