FOR i = 1 TO 3
  GOSUB s
back:
  PRINT i
NEXT
PRINT "end"; i
END
s:
  GOTO back
