ON ERROR GOTO h
z = 0
k = 2
SELECT CASE k
CASE 1
  PRINT "one"
CASE 2 / z
  PRINT "two"
CASE ELSE
  PRINT "else"
END SELECT
PRINT "done"
END
h:
  z = 1
  RESUME
