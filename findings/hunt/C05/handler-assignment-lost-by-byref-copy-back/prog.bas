ON ERROR GOTO h
x = 1
Work x
PRINT "x after call"; x
END
h:
  x = 99
  RESUME NEXT
SUB Work (p)
  z = 1 / 0
  PRINT "p in sub"; p
END SUB
