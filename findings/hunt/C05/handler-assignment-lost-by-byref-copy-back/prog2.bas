ON ERROR GOTO h
d = 0
Work d
PRINT "d after call"; d
END
h:
  n = n + 1
  PRINT "handler"; ERR; n
  IF n > 3 THEN END
  d = 2
  RESUME
SUB Work (p)
  PRINT 10 / p
END SUB
