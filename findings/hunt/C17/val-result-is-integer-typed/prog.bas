k% = 200
PRINT VAL(STR$(k%)) = k%
PRINT VAL(STR$(k%)) * VAL(STR$(k%))
