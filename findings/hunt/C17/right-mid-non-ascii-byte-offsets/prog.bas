s$ = "ab" + CHR$(233) + "cd"
PRINT LEN(s$)
PRINT "["; RIGHT$(s$, 2); "]"; LEN(RIGHT$(s$, 2))
PRINT "["; MID$(s$, 4); "]"; LEN(MID$(s$, 4))
PRINT "["; MID$(s$, 4, 1); "]"; LEN(MID$(s$, 3, 1))
PRINT LEFT$(s$, 3) + MID$(s$, 4) = s$
DIM f AS STRING * 3
f = CHR$(200)
PRINT LEN(f)
