a$ = "x" + CHR$(200) + "yz"
PRINT LEN(a$); LEN(RIGHT$(a$, 2)); LEN(MID$(a$, 2, 1)); LEN(MID$(a$, 3)); LEN(LEFT$(a$, 2) + MID$(a$, 3))
