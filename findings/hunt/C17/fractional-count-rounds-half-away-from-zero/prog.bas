PRINT "["; LEFT$("abcdef", 2.5); "]"
PRINT "["; MID$("abcdef", .5 + 2, 2.5); "]"
PRINT LEN(SPACE$(.5)); LEN(STRING$(4.5, 32))
PRINT INSTR(2.5, "abcabc", "b")
h# = -.5
PRINT "["; LEFT$("abcdef", h#); "]"
