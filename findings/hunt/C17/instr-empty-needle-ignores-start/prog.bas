PRINT INSTR(1, "abc", ""); INSTR(2, "abc", ""); INSTR(3, "abc", ""); INSTR(4, "abc", "")
