t# = 10000000000
d# = 95 * (t# * t# * 10)
PRINT STR$(d#)
PRINT VAL(STR$(d#)) = d#
PRINT VAL(STR$(d#)) - d#
