s$ = "hello"
PRINT LEN (s$); LEFT$ (s$, 2); INSTR (s$, "l")
