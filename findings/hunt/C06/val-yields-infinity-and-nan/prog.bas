d# = VAL("1" + STRING$(400, "0"))
PRINT d#
s! = d#
PRINT s!
e# = VAL("0." + STRING$(400, "1"))
PRINT e#
PRINT e# = 1
i% = e#
