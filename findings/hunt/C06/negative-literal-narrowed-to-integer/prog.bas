l& = -(32768) - 1
PRINT l&
l& = -32768 - 1
PRINT l&
