a% = 2.5
PRINT a%
a% = -2.5
PRINT a%
a% = .5
PRINT a%
l& = 2147483646.5#
PRINT l&
a% = -32768.5
PRINT a%
