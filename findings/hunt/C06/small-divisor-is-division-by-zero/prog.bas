d# = .000001#
x# = 1 / d#
PRINT x#
