a# = 6
b# = 3
c% = 32767
d# = a# / b# + c%
PRINT d#
