s$ = SPACE$(32767)
s$ = s$ + s$
n% = LEN(s$)
PRINT n%
m% = INSTR(s$ + "x", "x")
PRINT m%
PRINT n% * n%
