FOR i% = 1 TO 5 STEP 2.5
PRINT i%;
NEXT
PRINT "done"; i%
FOR j% = 5 TO 1 STEP 100000
PRINT j%
NEXT
PRINT "no error"; j%
