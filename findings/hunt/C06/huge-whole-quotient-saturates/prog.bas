b# = 10000000000.0#
c# = b# * b# * b#
PRINT c#
x# = c# / 1
PRINT x#
s! = 10000000000.0
s! = s! * s! * s!
y! = s! / 1
PRINT y!
