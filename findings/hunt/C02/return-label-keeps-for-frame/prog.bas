FOR i = 1 TO 3
  FOR j = 1 TO 2
    GOSUB s
  NEXT
back:
  PRINT i
NEXT
PRINT "done"; i
END
s:
RETURN back
