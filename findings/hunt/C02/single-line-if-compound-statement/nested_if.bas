x = 1: y = 0
IF x THEN IF y THEN PRINT "both" ELSE PRINT "only x"
