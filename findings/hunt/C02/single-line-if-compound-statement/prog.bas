x = 1
IF x THEN FOR i = 1 TO 3: PRINT i: NEXT
