x = 0: y = 1
IF x THEN PRINT "x" ELSE IF y THEN PRINT "y" ELSE PRINT "none"
