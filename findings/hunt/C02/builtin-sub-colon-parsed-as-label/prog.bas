x = 1
IF x THEN
  BEEP: PRINT "hello"
END IF
