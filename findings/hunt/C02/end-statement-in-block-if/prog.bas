x = 1
IF x THEN
  PRINT "bye"
  END
END IF
PRINT "not reached"
