x = 1
IF x THEN PRINT "bye": END
PRINT "not reached"
