FOR i = 1 TO 3
  IF -1 THEN
    PRINT i
    END
  END IF
NEXT
