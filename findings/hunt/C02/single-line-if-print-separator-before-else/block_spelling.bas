x = 0
IF x THEN
  PRINT "yes";
ELSE
  PRINT "no";
END IF
PRINT "!"
