i = 1
WHILE i <= 3
  j = 1
  WHILE j <= 2
    GOSUB s
    j = j + 1
  WEND
after:
  PRINT i
  i = i + 1
WEND
PRINT "done"; i
END
s:
GOTO after
