a = 0
IF a THEN
  PRINT "a"
ELSE: PRINT "none"
END IF
