a = 0: b = 1
IF a THEN
  PRINT "a"
ELSEIF b THEN PRINT "b"
ELSE PRINT "none"
END IF
