x = 1
IF -1 THEN
  PRINT "else"
ELSEIF x = 1 THEN
  PRINT "one"
END IF
