ON ERROR GOTO h
FOR i = 1 TO 2
  FOR j = 1 TO 3
    GOSUB s
    PRINT i; j
  NEXT
NEXT
PRINT "done"; i; j
END
s:
  x = 1 / 0
cont:
  RETURN
h:
  RESUME cont
