ON ERROR GOTO h
i = 1
WHILE i <= 2
  j = 1
  WHILE j <= 3
    GOSUB s
    PRINT i; j
    j = j + 1
  WEND
  i = i + 1
WEND
PRINT "done"; i; j
END
s:
  x = 1 / 0
cont:
  RETURN
h:
  RESUME cont
