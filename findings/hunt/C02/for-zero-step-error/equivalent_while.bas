s = 0
i = 1: limit = 0: stp = s
WHILE (stp >= 0 AND i <= limit) OR (stp < 0 AND i >= limit)
  PRINT "body"; i
  i = i + stp
WEND
PRINT "after"; i
