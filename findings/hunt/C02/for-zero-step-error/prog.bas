s = 0
FOR i = 1 TO 0 STEP s
  PRINT "body"; i
NEXT
PRINT "after"; i
