' the loop control values of FOR have the type of the counter
i% = 10: limit% = 1: stp% = -3.5
WHILE (stp% >= 0 AND i% <= limit%) OR (stp% < 0 AND i% >= limit%)
  PRINT i%;
  i% = i% + stp%
WEND
PRINT
PRINT "after"; i%
