FOR i% = 10 TO 1 STEP -3.5
  PRINT i%;
NEXT
PRINT
PRINT "after"; i%
