A$ = STRING$(30000, "#")
F$ = "#." + A$ + A$ + A$
PRINT USING F$; 1.5
