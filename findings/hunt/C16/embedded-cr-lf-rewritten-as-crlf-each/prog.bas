OPEN "out.txt" FOR OUTPUT AS #1
PRINT #1, "a" + CHR$(13) + CHR$(10) + "b"
PRINT #1, "c" + CHR$(10) + "d"; CHR$(13); "e"
CLOSE
PRINT "a" + CHR$(13) + CHR$(10) + "b"
