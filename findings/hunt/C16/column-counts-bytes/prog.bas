PRINT CHR$(200), "x"
PRINT "a", "x"
