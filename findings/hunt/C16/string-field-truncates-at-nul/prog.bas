A$ = "a" + CHR$(0) + "bc"
PRINT A$; "|"
PRINT USING "\  \|"; A$
