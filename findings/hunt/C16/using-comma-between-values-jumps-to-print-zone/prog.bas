PRINT USING "##"; 1, 2
PRINT USING "##.# "; 1.5, 2.5,
PRINT "|"
