PRINT USING "###,###"; -100
PRINT USING "###,###"; -1000
