PRINT "abc";
CLS
PRINT , "C"
PRINT "abcdef";
LOCATE 5, 10
PRINT , "D"
