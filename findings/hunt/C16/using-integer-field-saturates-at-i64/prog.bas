D# = 1
FOR I = 1 TO 20
D# = D# * 10
NEXT
PRINT D#
PRINT USING "##.#"; D#
PRINT USING "##"; D#
