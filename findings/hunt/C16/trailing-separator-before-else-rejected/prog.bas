X = 1
IF X = 1 THEN PRINT "one"; ELSE PRINT "other";
PRINT "!"
