A$ = "x"
PRINT "a" "b"
PRINT A$ 1 A$
