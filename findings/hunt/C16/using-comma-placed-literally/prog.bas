PRINT USING "#####,#"; 1000
PRINT USING "###,###"; -100
PRINT USING "#,######"; 1234567
