PRINT USING ".##"; .5
PRINT USING "[.###]"; .125
PRINT USING "##."; 5
