PRINT .5; "|", "z"
PRINT -.25; 1 / 3; "|"
S! = 1000000
PRINT S! * S!; S! * 10; "|"
D# = 1000000
PRINT D# * D# * D#; D# / 3; "|"
