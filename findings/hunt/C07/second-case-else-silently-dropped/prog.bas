X = 3
SELECT CASE X
CASE 1
  PRINT "one"
CASE ELSE
  PRINT "first else"
CASE ELSE
  PRINT "second else" + 5
  UndefinedSub 1, 2
  GOTO Nowhere
END SELECT
