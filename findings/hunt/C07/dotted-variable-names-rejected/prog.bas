score = 10
score.max = 99
best.score.ever = 7
PRINT score; score.max; best.score.ever
