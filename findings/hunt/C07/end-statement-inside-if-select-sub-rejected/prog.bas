INPUT N
IF N = 0 THEN
  PRINT "nothing to do"
  END
END IF
PRINT "working on"; N
