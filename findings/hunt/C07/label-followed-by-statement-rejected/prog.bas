GOSUB Show
END
Show: PRINT "in subroutine"
RETURN
