A$ = "hi"
REDIM A(5)
A(1) = 3
PRINT A$; A(1)
