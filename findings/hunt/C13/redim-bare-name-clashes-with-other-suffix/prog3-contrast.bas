A$ = "hi"
REDIM A!(5)
A(1) = 3
PRINT A$; A(1)
REDIM B$(2, 2)
REDIM B!(3)
B(1) = 4
PRINT B(1)
