DECLARE FUNCTION F ()
DIM SHARED depth
r = F
PRINT "main"; r
FUNCTION F
  depth = depth + 1
  IF depth < 3 THEN
    x = F
    PRINT "inner"; x
  END IF
  F = depth
END FUNCTION
