DECLARE FUNCTION Foo ()
DIM SHARED depth
r = Foo
PRINT r; depth
FUNCTION Foo
  depth = depth + 1
  IF depth < 3 THEN y = ABS(Foo)
  Foo = depth
END FUNCTION
