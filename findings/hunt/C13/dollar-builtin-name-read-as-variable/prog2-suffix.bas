right = 4
PRINT right
PRINT right%
