x = right + 1
PRINT x
