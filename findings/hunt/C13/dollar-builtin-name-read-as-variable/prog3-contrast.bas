DECLARE SUB S (left, right)
DIM ucase AS INTEGER
ucase = 3
right% = 0
PRINT ucase; right%
S 1, 2
SUB S (left, right)
  PRINT left; right
END SUB
