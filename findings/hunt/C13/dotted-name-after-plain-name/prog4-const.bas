CONST Max = 10
Max.Val = 3
PRINT Max.Val; Max
