DIM A(3)
A = 5
A(1) = 2
PRINT A; A(1)
