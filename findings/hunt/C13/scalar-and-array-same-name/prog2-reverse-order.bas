N$ = "scalar"
DIM N$(3)
N$(1) = "element"
PRINT N$; N$(1)
