OPEN "q.txt" FOR OUTPUT AS #1
PRINT #1, CHR$(34); "Smith, John"; CHR$(34); ","; 42
CLOSE #1
OPEN "q.txt" FOR INPUT AS #1
INPUT #1, n$, age
PRINT "["; n$; "]"; age
CLOSE #1
