OPEN "crlf.txt" FOR OUTPUT AS #1
PRINT #1, "a" + CHR$(13) + CHR$(10) + "b"
CLOSE
OPEN "crlf.txt" FOR INPUT AS #1
n = 0
WHILE NOT EOF(1)
  LINE INPUT #1, l$
  n = n + 1
  PRINT "{"; l$; "}"
WEND
PRINT n
CLOSE
