ON ERROR GOTO h
OPEN "lset.dat" FOR RANDOM AS #1 LEN = 10
FIELD #1, 6 AS n$, 4 AS c$
LSET n$ = "Nikos"
LSET c$ = "toolong"
PRINT "["; n$; "]"; LEN(n$); "["; c$; "]"; LEN(c$)
PUT #1, 1
GET #1, 1
PRINT "["; n$; "]"; LEN(n$); n$ = "Nikos "
CLOSE
p$ = "12345"
LSET p$ = "ab"
PRINT "["; p$; "]"
END
h:
PRINT "error"; ERR
RESUME NEXT
