DECLARE SUB Load (n)
DECLARE SUB Save (n)
ON ERROR GOTO h
OPEN "sub.dat" FOR RANDOM AS #1 LEN = 4
FIELD #1, 4 AS a$
LSET a$ = "AAAA"
PUT #1, 1
LSET a$ = "BBBB"
Save 2
Load 1
PRINT "after Load 1: "; a$
GET #1, 2
PRINT "record 2: ["; a$; "]"
CLOSE
END
h:
PRINT "error"; ERR
RESUME NEXT

SUB Load (n)
  GET #1, n
END SUB

SUB Save (n)
  PUT #1, n
END SUB
