n = 1
OPEN "v.txt" FOR OUTPUT AS #n
PRINT #n, "hello"
CLOSE #n
OPEN "v.txt" FOR INPUT AS #n
LINE INPUT #n, a$
PRINT a$; EOF(n)
CLOSE #n
