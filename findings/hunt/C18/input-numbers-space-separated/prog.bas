OPEN "nums.txt" FOR OUTPUT AS #1
PRINT #1, 1; 2; 3
CLOSE #1
OPEN "nums.txt" FOR INPUT AS #1
INPUT #1, a, b, c
PRINT a; b; c; EOF(1)
CLOSE #1
