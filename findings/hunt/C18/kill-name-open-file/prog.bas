ON ERROR GOTO h
OPEN "victim.txt" FOR OUTPUT AS #1
PRINT #1, "line 1"
KILL "victim.txt"
PRINT "KILL of an open file succeeded"
PRINT #1, "line 2"
PRINT "PRINT to the killed file succeeded"
CLOSE #1
OPEN "moved.txt" FOR OUTPUT AS #2
NAME "moved.txt" AS "moved2.txt"
PRINT "NAME of an open file succeeded"
CLOSE
END
h:
PRINT "error"; ERR
RESUME NEXT
