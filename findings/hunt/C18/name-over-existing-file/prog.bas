ON ERROR GOTO h
OPEN "src.txt" FOR OUTPUT AS #1: PRINT #1, "source": CLOSE #1
OPEN "dst.txt" FOR OUTPUT AS #1: PRINT #1, "precious": CLOSE #1
NAME "src.txt" AS "dst.txt"
PRINT "NAME onto an existing file succeeded"
OPEN "dst.txt" FOR INPUT AS #1
LINE INPUT #1, a$
PRINT a$
CLOSE
END
h:
PRINT "error"; ERR
RESUME NEXT
