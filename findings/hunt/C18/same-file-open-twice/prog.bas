ON ERROR GOTO h
OPEN "twice.txt" FOR OUTPUT AS #1
PRINT #1, "first"
OPEN "twice.txt" FOR OUTPUT AS #2
PRINT "second OPEN of the same file succeeded"
PRINT #2, "S"
PRINT #1, "more"
CLOSE
OPEN "twice.txt" FOR INPUT AS #1
WHILE NOT EOF(1)
  LINE INPUT #1, a$
  PRINT "["; a$; "]"
WEND
CLOSE
END
h:
PRINT "error"; ERR
RESUME NEXT
