CONST X = 42
Hello 5
SUB Hello(X)
    CONST Y = X + 1
    PRINT Y
    PRINT (X + 1)
END SUB
