' résumé of the program
PRINT 1
