PRINT "cafИ им╩"
