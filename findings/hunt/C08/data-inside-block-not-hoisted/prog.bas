FOR i = 1 TO 3
  READ a
  PRINT a
  DATA 7, 8, 9
NEXT
