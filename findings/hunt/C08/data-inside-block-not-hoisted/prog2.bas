FOR i = 1 TO 3
  DATA 7
NEXT
READ a, b, c
PRINT a; b; c
