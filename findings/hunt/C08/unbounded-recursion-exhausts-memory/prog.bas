PRINT Depth(1)
FUNCTION Depth (n)
  Depth = Depth(n + 1)
END FUNCTION
