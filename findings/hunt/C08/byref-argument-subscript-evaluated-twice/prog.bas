DIM SHARED n
DIM a(5)
Set7 a(Nxt)
PRINT "n ="; n
PRINT a(0); a(1); a(2); a(3)
SUB Set7 (x)
  x = 7
END SUB
FUNCTION Nxt
  n = n + 1
  Nxt = n
END FUNCTION
