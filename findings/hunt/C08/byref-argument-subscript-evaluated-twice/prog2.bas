DIM a(5)
OPEN "idx.txt" FOR INPUT AS #1
INPUT a(NextIndex)
PRINT a(1)
FUNCTION NextIndex
  INPUT #1, i
  NextIndex = i
END FUNCTION
