A$ = Undef$(1)
PRINT "["; A$; "]"
