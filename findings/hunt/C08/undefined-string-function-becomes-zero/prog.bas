PRINT VAL(Undef$(1))
