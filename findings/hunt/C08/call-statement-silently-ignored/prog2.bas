CALL Hello
SUB Hello
  PRINT "Hello"
END SUB
