CALL Show(1, 2)
PRINT "after"
SUB Show (a, b)
  PRINT "Show"; a; b
END SUB
