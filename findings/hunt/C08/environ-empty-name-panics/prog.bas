ENVIRON "=x"
PRINT "after"
