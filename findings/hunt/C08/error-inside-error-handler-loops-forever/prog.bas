ON ERROR GOTO Handler
PRINT 1 / 0
PRINT "after"
END
Handler:
PRINT "in handler"
X = 1 / 0
RESUME NEXT
