n = 0
DO UNTIL 1
  n = n + 1
  IF n > 3 THEN PRINT "still looping": END
LOOP
PRINT "exited"; n
