n = 0
DO
  n = n + 1
  IF n > 3 THEN PRINT "still looping": END
LOOP UNTIL n
PRINT "exited"; n
