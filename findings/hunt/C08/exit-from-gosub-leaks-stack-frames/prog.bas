FOR i = 1 TO 3
  S
  PRINT "i ="; i
NEXT
PRINT "done"
SUB S
  FOR j = 10 TO 20
    GOSUB r
  NEXT
  EXIT SUB
r:
  EXIT SUB
END SUB
