DIM a(3)
INPUT a()
PRINT a(0)
