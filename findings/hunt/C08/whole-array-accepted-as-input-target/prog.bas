DIM a$(3)
LINE INPUT a$()
PRINT a$(0)
