DIM a(3)
DATA 1, 2, 3, 4
READ a()
PRINT a(0)
